package jobs

import (
	"encoding/json"
	"errors"
	"fmt"
	"sort"
	"strconv"
	"strings"
	"time"

	"github.com/mimiro-io/datahub/internal/server"
	"github.com/mimiro-io/datahub/internal/verifrt/engine"
	"github.com/mimiro-io/datahub/internal/verifrt/model"
)

// jobHist is the per-history state of the C08 worker.
type jobHist struct {
	jw  *JWorld
	h   *server.VHist
	sp  JobSpec
	id  string
	jb  *job
	jb2 *job // the job object of the second trigger (Mixed)
	// failedFull: a run of the fullsync trigger failed midway at some point of this history
	failedFull bool
	// srcRecreated: the source dataset (or, for a fullsync job, the sink) was dropped and created again and no run has
	// completed since: the persisted token still belongs to the former incarnation (a fullsync job does not read by it)
	srcRecreated bool
	chk          *server.VCheck
	viol         []engine.Violation
	last         string
	// a source write that lands during a run (op runw)
	midWrite     server.VOp
	midWriteDone bool
	midWriteErr  error
}

func (jh *jobHist) cfgClass() string {
	src := "dataset"
	if jh.sp.Union || len(jh.sp.Sources) > 1 {
		src = "union"
	}
	hist := "all-versions"
	if jh.sp.LatestOnly {
		hist = "latest-only"
	}
	return fmt.Sprintf("%s,%s,%s,batch=%d", jh.sp.JobType, src, hist, jh.sp.BatchSize)
}

func (jh *jobHist) fail(clause, what string) {
	what = "[" + jh.cfgClass() + "] " + what
	key := "C08:" + clause + "[" + jh.cfgClass() + "]|" + jh.last
	for _, v := range jh.viol {
		if v.Key == key {
			return
		}
	}
	jh.viol = append(jh.viol, engine.Violation{Key: key, What: what})
}

// feedOf returns the change feed of a dataset as (abstract id, content) with raw positions.
func (jh *jobHist) feedOf(abs string) ([]string, []model.Content, []uint64) {
	ds := jh.jw.W.Dsm.GetDataset(jh.h.DsName(abs))
	if ds == nil {
		return nil, nil, nil
	}
	ch, err := ds.GetChanges(0, 0, false)
	if err != nil {
		return nil, nil, nil
	}
	var ids []string
	var cs []model.Content
	for _, e := range ch.Entities {
		ids = append(ids, jh.h.AbsID(e.ID))
		cs = append(cs, jh.h.AbsContent(e))
	}
	return ids, cs, jh.h.ChangePositions(ds)
}

func (jh *jobHist) viewOf(abs string) map[string]model.Content {
	out := map[string]model.Content{}
	ds := jh.jw.W.Dsm.GetDataset(jh.h.DsName(abs))
	if ds == nil {
		return out
	}
	r, err := ds.GetEntities("", -1)
	if err != nil {
		return out
	}
	for _, e := range r.Entities {
		out[jh.h.AbsID(e.ID)] = jh.h.AbsContent(e)
	}
	return out
}

// memberTokens decodes the persisted continuation token into one position per member dataset.
func (jh *jobHist) memberTokens() (map[string]uint64, string) {
	tok := jh.jw.token(jh.id)
	out := map[string]uint64{}
	if tok == "" {
		for _, s := range jh.sp.Sources {
			out[s] = 0
		}
		return out, tok
	}
	if len(jh.sp.Sources) > 1 || jh.sp.Union {
		var u struct {
			Tokens []struct {
				Token string
			}
			DatasetNames []string
		}
		if err := json.Unmarshal([]byte(tok), &u); err != nil {
			return nil, tok
		}
		for i, s := range jh.sp.Sources {
			if i < len(u.Tokens) {
				n, _ := strconv.ParseUint(u.Tokens[i].Token, 10, 64)
				out[s] = n
			}
		}
		return out, tok
	}
	n, err := strconv.ParseUint(tok, 10, 64)
	if err != nil {
		return nil, tok
	}
	out[jh.sp.Sources[0]] = n
	return out, tok
}

// tokenSafety: the persisted token never points past data that was not written to the sink.
func (jh *jobHist) tokenSafety(when string) {
	if jh.srcRecreated {
		return
	}
	toks, raw := jh.memberTokens()
	if toks == nil {
		jh.fail("token-undecodable", fmt.Sprintf("%s: persisted continuation token %q cannot be decoded", when, raw))
		return
	}
	sink := jh.viewOf(jh.sp.Sink)
	// contents per id per member
	type memberFeed struct {
		ids []string
		cs  []model.Content
		pos []uint64
	}
	feeds := map[string]memberFeed{}
	for _, s := range jh.sp.Sources {
		ids, cs, pos := jh.feedOf(s)
		feeds[s] = memberFeed{ids, cs, pos}
	}
	for _, s := range jh.sp.Sources {
		f := feeds[s]
		lastBelow := map[string]int{}
		for i := range f.ids {
			if i < len(f.pos) && f.pos[i] < toks[s] {
				lastBelow[f.ids[i]] = i
			}
		}
		for id, k := range lastBelow {
			if jh.sp.LatestOnly {
				// a latest-only source legitimately skips superseded versions: only demand something
				// when the newest version of the entity itself lies below the token
				newest := k
				for i := range f.ids {
					if f.ids[i] == id {
						newest = i
					}
				}
				if newest != k {
					continue
				}
			}
			got, ok := sink[id]
			if !ok {
				jh.fail("token-ahead:"+when, fmt.Sprintf("%s: token of %s is %d (past change #%d of %s) but %s is not in the sink at all", when, s, toks[s], k, id, id))
				continue
			}
			allowed := false
			for i := k; i < len(f.ids); i++ {
				if f.ids[i] == id && f.cs[i].Equal(got) {
					allowed = true
				}
			}
			for o, of := range feeds {
				if o == s {
					continue
				}
				for i := range of.ids {
					if of.ids[i] == id && of.cs[i].Equal(got) {
						allowed = true
					}
				}
			}
			if !allowed && jh.failedFull && jh.isOlderSourceVersion(id, got) {
				// input class of the recorded known finding: a fullsync that failed midway wrote an older version back
				jh.fail("KF-failed-fullsync-regresses-sink:token:"+when, fmt.Sprintf("%s: token of %s is %d, past change #%d (%s=%s), but the sink holds the older version %s written back by a fullsync run that failed midway", when, s, toks[s], k, id, f.cs[k], got))
			} else if !allowed {
				jh.fail("token-ahead:"+when, fmt.Sprintf("%s: token of %s is %d, which is past change #%d (%s=%s), but the sink holds %s: that change was never delivered", when, s, toks[s], k, id, f.cs[k], got))
			}
		}
	}
}

// converged: sink latest view = source latest view.
func (jh *jobHist) converged(when string) {
	sink := jh.viewOf(jh.sp.Sink)
	want := map[string][]model.Content{}
	for _, s := range jh.sp.Sources {
		for id, c := range jh.viewOf(s) {
			want[id] = append(want[id], c)
		}
	}
	for id, cs := range want {
		got, ok := sink[id]
		if !ok {
			jh.fail("converge-missing:"+when, fmt.Sprintf("%s: %s is in the source but not in the sink", when, id))
			continue
		}
		match := false
		for _, c := range cs {
			if c.Equal(got) {
				match = true
			}
		}
		if !match {
			clause := "converge-content:" + when
			if (strings.Contains(when, "of the second trigger") || jh.failedFull) && jh.isOlderSourceVersion(id, got) {
				// input class of the recorded known finding: the failed fullsync replayed the source history from the
				// start and stopped after writing an OLDER version of this entity over the newer one
				clause = "KF-failed-fullsync-regresses-sink:" + when
			}
			jh.fail(clause, fmt.Sprintf("%s: sink has %s=%s, source latest is %v", when, id, got, cs))
		}
	}
	for id, c := range sink {
		if _, ok := want[id]; !ok && !c.Deleted {
			// (a source that was dropped and created again has lost entities without a trace: the sink keeps them deleted)
			jh.fail("converge-extra:"+when, fmt.Sprintf("%s: sink has %s live, which no source dataset has", when, id))
		}
	}
}

// isOlderSourceVersion: got equals a version of id in some source dataset that is not its latest one.
func (jh *jobHist) isOlderSourceVersion(id string, got model.Content) bool {
	for _, src := range jh.sp.Sources {
		d := jh.h.M.Datasets[src]
		if d == nil {
			continue
		}
		vs := d.Versions[id]
		for i, v := range vs {
			if i < len(vs)-1 && v.C.Equal(got) {
				return true
			}
		}
	}
	return false
}

// rerunClass names the clause for "a re-run changed the sink": it singles out the two input classes of
// the recorded known findings (a fullsync job replaying a source history with several versions of an
// entity; a fullsync union job whose members share an id). Everything else is the plain clause.
func (jh *jobHist) rerunClass(before []string) string {
	after, _, _ := jh.feedOf(jh.sp.Sink)
	added := map[string]bool{}
	if len(after) >= len(before) {
		for _, id := range after[len(before):] {
			added[id] = true
		}
	}
	if jh.sp.JobType != "fullsync" || len(added) == 0 {
		return "rerun-changes-sink"
	}
	versions := map[string]int{}
	members := map[string]int{}
	for _, s := range jh.sp.Sources {
		ids, _, _ := jh.feedOf(s)
		seen := map[string]bool{}
		for _, id := range ids {
			versions[id]++
			if !seen[id] {
				seen[id] = true
				members[id]++
			}
		}
	}
	allShared, allMulti := true, true
	for id := range added {
		if members[id] < 2 {
			allShared = false
		}
		if versions[id] < 2 {
			allMulti = false
		}
	}
	if allShared && len(jh.sp.Sources) > 1 {
		return "KF-fullsync-union-shared-id:rerun-changes-sink"
	}
	if allMulti && !jh.sp.LatestOnly {
		return "KF-fullsync-replays-history:rerun-changes-sink"
	}
	return "rerun-changes-sink"
}

func (jh *jobHist) sinkFeedDigest() string {
	ids, cs, _ := jh.feedOf(jh.sp.Sink)
	var l []string
	for i := range ids {
		l = append(l, ids[i]+"="+cs[i].String())
	}
	return strings.Join(l, " ")
}

// run performs one run; mode: "" clean, "fail" (sink rejects call n), "kill" (job killed when call n arrives).
func (jh *jobHist) run(mode string, n int) (res *jobResult, panicked string) {
	return jh.runWith(jh.jb, mode, n)
}

func (jh *jobHist) runWith(jb *job, mode string, n int) (res *jobResult, panicked string) {
	keep := jh.jb
	jh.jb = jb
	defer func() { jh.jb = keep }()
	real := jh.jb.pipeline.spec().sink
	if ws, ok := real.(*wrappedSink); ok {
		real = ws.s
	}
	fs := &failSink{inner: real, h: jh.h}
	switch mode {
	case "fail":
		fs.onCall = func(call int) error {
			if call == n {
				return errors.New("sink: injected failure")
			}
			return nil
		}
	case "kill":
		fs.onCall = func(call int) error {
			if call == n {
				jh.jw.Runner.killJob(jh.id)
			}
			return nil
		}
	case "write":
		// a source write lands while the run hands its n-th batch to the sink
		done := false
		fs.onCall = func(call int) error {
			if call == n && !done {
				done = true
				jh.midWriteErr = jh.h.ApplyWrite(jh.midWrite)
				jh.midWriteDone = true
			}
			return nil
		}
	}
	jh.jb.pipeline.spec().sink = fs
	panicked = runJob(jh.jb)
	jh.jb.pipeline.spec().sink = real
	return jh.jw.lastResult(jh.id), panicked
}

// stateKey: raw state of all datasets + the feed index each member token denotes.
func (jh *jobHist) stateKey(names []string) string {
	jw, h, p := jh.jw, jh.h, jh
	toks, _ := jh.memberTokens()
	var tl []string
	for _, s := range p.sp.Sources {
		_, _, pos := jh.feedOf(s)
		idx := 0
		for _, ps := range pos {
			if toks != nil && ps < toks[s] {
				idx++
			}
		}
		tl = append(tl, fmt.Sprintf("%s@%d", s, idx))
	}
	sort.Strings(tl)
	sinkDs := jw.W.Dsm.GetDataset(h.DsName(p.sp.Sink))
	fs := false
	if sinkDs != nil {
		fs = sinkDs.FullSyncStarted()
	}
	return h.Canon([]string{"e1", "e2", "e3", "e4"}, names, strings.Join(tl, ",")+fmt.Sprintf("|fs=%v", fs))
}

type c08Params struct {
	Spec JobSpec `json:"spec"`
}

// VReplayJob replays a history of source writes and job runs (C08).
func vReplayJob(task engine.SeqTask) (res engine.SeqResult) {
	var p c08Params
	_ = json.Unmarshal(task.Params, &p)
	defer func() {
		if r := recover(); r != nil {
			res.Viol = append(res.Viol, engine.Violation{Key: "panic|" + fmt.Sprint(r), What: fmt.Sprintf("panic while replaying history: %v", r)})
			jWorkerWorld = nil
		}
	}()
	jw := jWorld()
	h := jw.W.NewHist()
	names := append(append([]string{}, p.Spec.Sources...), p.Spec.Sink)
	if err := h.EnsureDatasets(names...); err != nil {
		res.HarnessEr = err.Error()
		return
	}
	jb, jc, err := jw.newJob(h, p.Spec)
	if err != nil {
		res.HarnessEr = "newJob: " + err.Error()
		return
	}
	jh := &jobHist{jw: jw, h: h, sp: p.Spec, id: jc.ID, jb: jb}
	if p.Spec.Mixed {
		if jh.jb2, err = jw.otherJob(jc.ID); err != nil {
			res.HarnessEr = err.Error()
			return
		}
	}
	checks := 0
	ran := false
	keyAtEnd := ""
	for i, raw := range task.Hist {
		var op server.VOp
		_ = json.Unmarshal(raw, &op)
		last := i == len(task.Hist)-1
		if last {
			jh.last = op.String()
		}
		switch op.K {
		case "batch":
			if err := h.ApplyWrite(op); err != nil {
				res.HarnessEr = err.Error()
				return
			}
			if last && ran {
				// a source write after earlier runs (possibly failed ones): the next clean run must restore equality
				keyAtEnd = jh.stateKey(names)
				checks++
				if r2, p2 := jh.run("", 0); p2 != "" || r2.LastError != "" {
					jh.fail("run-after-write-fails", fmt.Sprintf("the clean run after the last source write fails: %s %s", p2, r2.LastError))
				} else {
					jh.converged("after the last source write and one clean run")
				}
			}
		case "run2", "run2fail":
			// the other trigger of a Mixed job fires (clean, or with the sink failing at call N)
			if jh.jb2 == nil {
				res.Skip, res.Key = true, "skip"
				return
			}
			ran = true
			r, panicked := jh.runWith(jh.jb2, map[string]string{"run2": "", "run2fail": "fail"}[op.K], op.N)
			if r != nil && r.LastError != "" {
				jh.failedFull = true
			} else if op.K == "run2" {
				jh.failedFull = false // a completed fullsync repairs the sink
			}
			if !last {
				continue
			}
			checks++
			if panicked != "" {
				jh.fail("run-panics", "the run of the second trigger panics: "+panicked)
				break
			}
			if op.K == "run2" && r.LastError != "" {
				jh.fail("clean-run-fails", "a run of the second trigger with nothing injected fails: "+r.LastError)
				break
			}
			keyAtEnd = jh.stateKey(names)
			// whichever trigger fires next and succeeds must restore equality: the first trigger fires
			if r2, p2 := jh.run("", 0); p2 != "" || r2.LastError != "" {
				jh.fail("recovery-run-fails", fmt.Sprintf("the clean run of the first trigger after %s fails: %s %s", op.K, p2, r2.LastError))
			} else {
				jh.converged("after " + op.K + " of the second trigger and one clean run of the first")
			}
		case "run", "runfail", "runkill":
			mode := map[string]string{"run": "", "runfail": "fail", "runkill": "kill"}[op.K]
			before := jh.sinkFeedDigest()
			tokBefore := jw.token(jh.id)
			ran = true
			r, panicked := jh.run(mode, op.N)
			if r != nil && r.LastError == "" && panicked == "" {
				jh.srcRecreated = false
			}
			if p.Spec.JobType == "fullsync" {
				if r != nil && r.LastError != "" {
					jh.failedFull = true
				} else if op.K == "run" {
					jh.failedFull = false // a completed fullsync repairs the sink
				}
			}
			if !last {
				continue
			}
			keyAtEnd = jh.stateKey(names)
			checks++
			if panicked != "" {
				jh.fail("run-panics", "the run panics: "+panicked)
				break
			}
			failedRun := r.LastError != ""
			if p.Spec.JobType == "fullsync" && failedRun {
				// a fullsync job restarts from scratch every time; its token is only written after a completed sync
				if t2 := jw.token(jh.id); t2 != tokBefore {
					jh.fail("fullsync-token-moved", fmt.Sprintf("a %s fullsync run changed the stored token from %q to %q", op.K, tokBefore, t2))
				}
			} else {
				jh.tokenSafety("after " + op.K)
			}
			if op.K == "run" && failedRun {
				jh.fail("clean-run-fails", "a run with nothing injected fails: "+r.LastError)
				break
			}
			if !failedRun {
				jh.converged("after a successful run")
				// re-running with nothing new changes nothing
				tok := jw.token(jh.id)
				feed := jh.sinkFeedDigest()
				feedIDsBefore, _, _ := jh.feedOf(jh.sp.Sink)
				if _, p2 := jh.run("", 0); p2 != "" {
					jh.fail("rerun-panics", "the re-run panics: "+p2)
				}
				if f2 := jh.sinkFeedDigest(); f2 != feed {
					jh.fail(jh.rerunClass(feedIDsBefore), fmt.Sprintf("re-running with nothing new changed the sink feed from [%s] to [%s]", feed, f2))
				}
				if t2 := jw.token(jh.id); t2 != tok {
					jh.fail("rerun-changes-token", fmt.Sprintf("re-running with nothing new changed the token from %s to %s", tok, t2))
				}
			} else {
				// after a failed or killed run the next clean run restores equality
				if r2, p2 := jh.run("", 0); p2 != "" || r2.LastError != "" {
					jh.fail("recovery-run-fails", fmt.Sprintf("the clean run after a %s fails: %s %s", op.K, p2, r2.LastError))
				} else {
					if p.Spec.JobType != "fullsync" {
						jh.tokenSafety("after the recovery run")
					}
					jh.converged("after " + op.K + " and one clean run")
				}
			}
			_ = before
		case "recreate":
			// the source dataset is dropped and created again with a part of what it held: entities vanish from the source
			// without a tombstone. Only a fullsync can repair the sink after that.
			if p.Spec.JobType != "fullsync" || p.Spec.Union || len(p.Spec.Sources) > 1 || p.Spec.Mixed {
				res.Skip, res.Key = true, "skip"
				return
			}
			if err := jw.W.Dsm.DeleteDataset(h.DsName("A")); err != nil {
				res.HarnessEr = "recreate: " + err.Error()
				return
			}
			h.M.Delete("A")
			jh.srcRecreated = true
			if err := h.EnsureDatasets("A"); err != nil {
				res.HarnessEr = "recreate: " + err.Error()
				return
			}
			{
				pool := model.Pool(0)
				if err := h.ApplyWrite(server.VOp{K: "batch", DS: "A", Ents: []server.VEnt{{ID: "e2", C: model.PoolIndex(pool, "v2")}}}); err != nil {
					res.HarnessEr = "recreate: " + err.Error()
					return
				}
			}
			if last && ran {
				keyAtEnd = jh.stateKey(names)
				checks++
				if r2, p2 := jh.run("", 0); p2 != "" || r2.LastError != "" {
					jh.fail("run-after-write-fails", fmt.Sprintf("the clean run after the source was re-created fails: %s %s", p2, r2.LastError))
				} else {
					jh.failedFull, jh.srcRecreated = false, false
					jh.converged("after the source was dropped and created again and one clean run")
				}
			}
		case "resink":
			// the SINK dataset is dropped and created again under its name between two runs of the same job object; an
			// incremental job is reset as well (that is how an operator refills a re-created sink)
			if p.Spec.Mixed {
				res.Skip, res.Key = true, "skip"
				return
			}
			if err := jw.W.Dsm.DeleteDataset(h.DsName(p.Spec.Sink)); err != nil {
				res.HarnessEr = "resink: " + err.Error()
				return
			}
			h.M.Delete(p.Spec.Sink)
			if err := h.EnsureDatasets(p.Spec.Sink); err != nil {
				res.HarnessEr = "resink: " + err.Error()
				return
			}
			if p.Spec.JobType != "fullsync" {
				if err := jw.Sched.ResetJob(jh.id, ""); err != nil {
					res.HarnessEr = "resink: reset: " + err.Error()
					return
				}
			} else {
				// a fullsync job does not read by its token; until its next completed run the stored one describes what the
				// former sink had received
				jh.srcRecreated = true
			}
			if last && ran {
				keyAtEnd = jh.stateKey(names)
				checks++
				if r2, p2 := jh.run("", 0); p2 != "" || r2.LastError != "" {
					jh.fail("run-after-write-fails", fmt.Sprintf("the clean run after the sink was re-created fails: %s %s", p2, r2.LastError))
				} else {
					jh.failedFull, jh.srcRecreated = false, false
					jh.converged("after the sink was dropped and created again (incremental job reset) and one clean run")
				}
			}
		case "runw":
			// a run during which a source write lands (at the N-th sink call). Equality is only promised for runs
			// without concurrent writes; the token rule holds regardless, and the next undisturbed run restores equality
			ran = true
			pool := model.Pool(0)
			jh.midWrite = server.VOp{K: "batch", DS: "A", Ents: []server.VEnt{{ID: "e3", C: model.PoolIndex(pool, "v2")}, {ID: "e1", C: model.PoolIndex(pool, "r1")}}}
			jh.midWriteDone, jh.midWriteErr = false, nil
			r, panicked := jh.runWith(jh.jb, "write", op.N)
			if !jh.midWriteDone {
				// the sink was not called that often: this was a plain run
				res.Skip, res.Key = true, "skip"
				return
			}
			if jh.midWriteErr != nil {
				res.HarnessEr = "mid-run write rejected: " + jh.midWriteErr.Error()
				return
			}
			if p.Spec.JobType == "fullsync" && r != nil && r.LastError != "" {
				jh.failedFull = true
			}
			if !last {
				continue
			}
			keyAtEnd = jh.stateKey(names)
			checks++
			if panicked != "" {
				jh.fail("run-panics", "the run panics: "+panicked)
				break
			}
			if r.LastError != "" {
				jh.fail("clean-run-fails", "a run with a concurrent source write (nothing else injected) fails: "+r.LastError)
				break
			}
			if p.Spec.JobType != "fullsync" {
				jh.tokenSafety("after a run with a concurrent source write")
			}
			if r2, p2 := jh.run("", 0); p2 != "" || r2.LastError != "" {
				jh.fail("recovery-run-fails", fmt.Sprintf("the clean run after a run with a concurrent write fails: %s %s", p2, r2.LastError))
			} else {
				if p.Spec.JobType != "fullsync" {
					jh.tokenSafety("after the run that follows a run with a concurrent source write")
				}
				jh.converged("after a run with a concurrent source write and one clean run")
			}
		case "restart":
			jw.Restart()
			jb2, err := jw.reloadJob(jh.id)
			if err != nil {
				jh.fail("job-lost", err.Error())
				res.Viol = jh.viol
				return
			}
			jh.jb = jb2
			if p.Spec.Mixed {
				if jh.jb2, err = jw.otherJob(jh.id); err != nil {
					jh.fail("job-lost", err.Error())
					res.Viol = jh.viol
					return
				}
			}
			if last {
				checks++
				jh.tokenSafety("after restart")
				if r2, p2 := jh.run("", 0); p2 != "" || r2.LastError != "" {
					jh.fail("run-after-restart-fails", fmt.Sprintf("%s %s", p2, r2.LastError))
				} else {
					jh.converged("after restart and one clean run")
				}
			}
		}
	}
	// the canonical key describes the state reached by the history's own operations (before the oracle's extra runs)
	if keyAtEnd != "" {
		res.Key = keyAtEnd
	} else {
		res.Key = jh.stateKey(names)
	}
	// a restart is meant to change nothing: mark the state right behind it, or the search would never go on from there
	if n := len(task.Hist); n > 0 {
		var lo struct {
			K string `json:"k"`
		}
		_ = json.Unmarshal(task.Hist[n-1], &lo)
		if lo.K == "restart" {
			res.Key += "|just-restarted"
		}
	}
	res.Viol = jh.viol
	res.Checks = checks
	res.Outcome = res.Key[:8]
	return
}

// c08Large: one long history with a source larger than the default batch size (10000, used when a job has none):
// n entities, a run per job type, one more write, another run.
func c08Large(n int) (res engine.SeqResult) {
	defer func() {
		if r := recover(); r != nil {
			res.Viol = append(res.Viol, engine.Violation{Key: "C08:panic|large", What: fmt.Sprintf("panic in the long history: %v", r)})
			jWorkerWorld = nil
		}
	}()
	jw := jWorld()
	pool := model.Pool(0)
	for _, sp := range []JobSpec{{Sources: []string{"A"}, Sink: "Z", JobType: "incremental"}, {Sources: []string{"A"}, LatestOnly: true, Sink: "Z", JobType: "fullsync"}} {
		h := jw.W.NewHist()
		if err := h.EnsureDatasets("A", "B", "Z"); err != nil {
			res.HarnessEr = err.Error()
			return
		}
		for i := 0; i < n; i += 2000 {
			var ents []server.VEnt
			for j := i; j < i+2000 && j < n; j++ {
				ents = append(ents, server.VEnt{ID: fmt.Sprintf("g%d", j+1), C: model.PoolIndex(pool, []string{"v1", "v2"}[j%2])})
			}
			if err := h.ApplyWrite(server.VOp{K: "batch", DS: "A", Ents: ents}); err != nil {
				res.HarnessEr = err.Error()
				return
			}
		}
		jb, jc, err := jw.newJob(h, sp)
		if err != nil {
			res.HarnessEr = "newJob: " + err.Error()
			return
		}
		jh := &jobHist{jw: jw, h: h, sp: sp, id: jc.ID, jb: jb, last: fmt.Sprintf("%d source entities, default batch size", n)}
		for round := 0; round < 2; round++ {
			res.Checks++
			if r, p := jh.run("", 0); p != "" || r.LastError != "" {
				jh.fail("clean-run-fails", fmt.Sprintf("a run over %d entities with the default batch size fails: %s %s", n, p, r.LastError))
				break
			}
			if sp.JobType != "fullsync" {
				jh.tokenSafety("after a run over a source larger than the default batch")
			}
			jh.converged("after a run over a source larger than the default batch")
			if err := h.ApplyWrite(server.VOp{K: "batch", DS: "A", Ents: []server.VEnt{{ID: "g7", C: model.PoolIndex(pool, "dv1")}, {ID: "gnew", C: model.PoolIndex(pool, "v1")}}}); err != nil {
				res.HarnessEr = err.Error()
				return
			}
		}
		res.Viol = append(res.Viol, jh.viol...)
	}
	res.Key = "large"
	return
}

func init() {
	engine.RegisterWorker("job-large", func(args []string) {
		defer jDestroyWorld()
		engine.ServeWorker(func(task []byte) interface{} {
			var t struct {
				N int `json:"n"`
			}
			_ = json.Unmarshal(task, &t)
			return c08Large(t.N)
		})
	})
	engine.RegisterWorker("job", func(args []string) {
		defer jDestroyWorld()
		engine.ServeWorker(func(task []byte) interface{} {
			var t engine.SeqTask
			if err := json.Unmarshal(task, &t); err != nil {
				return engine.SeqResult{HarnessEr: err.Error()}
			}
			return vReplayJob(t)
		})
	})

	engine.RegisterCheck("C08", func(r *engine.Run) {
		r.Rule = "SEQ: for every job configuration (DatasetSource / UnionDatasetSource, with and without LatestOnly, incremental / fullsync, batch sizes 1,2,3,default) every sequence up to the stated depth over {source writes (props, refs, deletes, repeated ids), clean run, run with the sink failing at batch index 1..3, run killed at batch boundary 1..2, a run during which a source write lands at sink call 1..2 (token rule, then convergence after one undisturbed run), for fullsync jobs the source dropped and created again with fewer entities, the sink dataset dropped and created again between two runs of the same job object (an incremental job is reset), restart; for the mixed-trigger job also the fullsync trigger clean / failing at batch 1..2}; a history that ends in a source write after earlier runs is followed by one clean run; after every run: token safety (every source change below the persisted token is reflected in the sink), after a successful run sink view = source view and a re-run is a no-op, after a failed/killed run one clean run restores equality. SCHED: one run (incremental / latest-only / union / fullsync, batch size 1) next to a writer of its source under every interleaving up to the preemption bound: the token rule right after it, equality after one further undisturbed run. CRASH: real SIGKILL at every durable commit and at the point between sink write and token store during a run"
		r.Assumptions = []string{"equality right after a run is only demanded for runs without concurrent source writes (as the property states)", "HTTP sources/sinks: see the http-peer part of C10/C11; proxy datasets as sources are outside"}
		pool := model.Pool(0)
		pi := func(n string) int { return model.PoolIndex(pool, n) }
		type cfgT struct {
			name string
			sp   JobSpec
		}
		var cfgs []cfgT
		batches := []int{1, 2, 3, 0}
		if r.Quick() {
			batches = []int{1, 2, 0}
		}
		for _, union := range []bool{false, true} {
			for _, lo := range []bool{false, true} {
				for _, jt := range []string{"incremental", "fullsync"} {
					for _, b := range batches {
						src := []string{"A"}
						if union {
							src = []string{"A", "B"}
						}
						cfgs = append(cfgs, cfgT{fmt.Sprintf("union=%v,latestOnly=%v,%s,batch=%d", union, lo, jt, b),
							JobSpec{Sources: src, Union: union, LatestOnly: lo, Sink: "Z", JobType: jt, BatchSize: b}})
					}
				}
			}
		}
		// incremental job with a second, fullsync trigger (one token shared by both)
		for _, b := range []int{1, 2} {
			cfgs = append(cfgs, cfgT{fmt.Sprintf("mixed-triggers,batch=%d", b), JobSpec{Sources: []string{"A"}, Sink: "Z", JobType: "incremental", BatchSize: b, Mixed: true}})
		}
		depth := 3
		budget := 240
		if !r.Quick() {
			depth, budget = 4, 3000
		}
		for _, c := range cfgs {
			alpha := []server.VOp{
				{K: "batch", DS: "A", Ents: []server.VEnt{{ID: "e1", C: pi("v1")}}},
				{K: "batch", DS: "A", Ents: []server.VEnt{{ID: "e1", C: pi("v2")}, {ID: "e2", C: pi("r1")}, {ID: "e1", C: pi("dv1")}}},
				{K: "batch", DS: "A", Ents: []server.VEnt{{ID: "e2", C: pi("v1")}, {ID: "e3", C: pi("v1")}}},
				{K: "run"}, {K: "runfail", N: 1}, {K: "runfail", N: 2}, {K: "runkill", N: 1}, {K: "restart"},
				{K: "runw", N: 1}, {K: "runw", N: 2}, {K: "recreate"}, {K: "resink"},
				// one entity rewritten many times in a row: a long run of superseded change-log entries
				{K: "batch", DS: "A", Ents: []server.VEnt{{ID: "e1", C: pi("v1")}, {ID: "e1", C: pi("v2")}, {ID: "e1", C: pi("v1")}, {ID: "e1", C: pi("v2")}, {ID: "e1", C: pi("v1")},
					{ID: "e1", C: pi("v2")}, {ID: "e1", C: pi("v1")}, {ID: "e1", C: pi("v2")}, {ID: "e1", C: pi("v1")}, {ID: "e1", C: pi("s")}}},
			}
			if !r.Quick() {
				alpha = append(alpha, server.VOp{K: "runfail", N: 3}, server.VOp{K: "runkill", N: 2})
			}
			if c.sp.Mixed {
				alpha = append(alpha, server.VOp{K: "run2"}, server.VOp{K: "run2fail", N: 1}, server.VOp{K: "run2fail", N: 2})
			}
			if c.sp.Union {
				alpha = append(alpha, server.VOp{K: "batch", DS: "B", Ents: []server.VEnt{{ID: "e4", C: pi("v1")}, {ID: "e1", C: pi("s")}}})
			}
			params, _ := json.Marshal(c08Params{Spec: c.sp})
			var raw []json.RawMessage
			for _, o := range alpha {
				b, _ := json.Marshal(o)
				raw = append(raw, b)
			}
			engine.RunSeq(r, engine.SeqSpec{Name: "c08:" + c.name, WorkerArgs: []string{"worker", "job"}, Alphabet: raw, Params: params, Depth: depth, Budget: time.Duration(budget/len(cfgs)+5) * time.Second})
		}
		engine.RunCrash(r, "c08-crash", []string{"worker", "crash-job"}, c08CrashBases(r.Quick()), 0)
		c08Sched(r)
		// one long history: a source larger than the default batch size
		{
			n := 10050
			if !r.Quick() {
				n = 20100
			}
			pl := &engine.Pool{N: 1, Args: []string{"worker", "job-large"}, Timeout: 900 * time.Second}
			out := pl.Do([]json.RawMessage{json.RawMessage(fmt.Sprintf(`{"n":%d}`, n))}, nil)
			var lr engine.SeqResult
			if out[0].Err != "" || json.Unmarshal(out[0].Out, &lr) != nil || lr.HarnessEr != "" {
				r.Cap("c08-large: worker problem " + out[0].Err + " " + lr.HarnessEr)
			} else {
				for _, v := range lr.Viol {
					v.Engine = "ENUM:c08-large"
					v.Replay = map[string]interface{}{"worker": []string{"worker", "job-large"}, "n": n}
					r.AddViolation(v)
				}
				r.Evaluations += lr.Checks
				r.Traces++
				r.AddPart(map[string]interface{}{"engine": "ENUM", "name": "c08-large-source", "entities": n, "checks": lr.Checks})
			}
		}
	})
}
