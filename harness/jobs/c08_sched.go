package jobs

import (
	"encoding/json"
	"fmt"
	"os"
	"time"

	"github.com/mimiro-io/datahub/internal/server"
	"github.com/mimiro-io/datahub/internal/verifrt/engine"
	"github.com/mimiro-io/datahub/internal/verifrt/model"
	"github.com/mimiro-io/datahub/internal/verifrt/vsync"
)

// C08 SCHED: one run of a copy job next to a writer of its source, under the controlled scheduler (badger
// snapshots and commits, locks and the hooked points are scheduling points). Equality right after such a run is
// not promised; the token rule is, and so is equality after the next undisturbed run.

type C08Scenario struct {
	Name   string       `json:"name"`
	Spec   JobSpec      `json:"spec"`
	Pre    []server.VOp `json:"pre"`
	Writer []server.VOp `json:"writer"`
	// Writer2: a second writer thread (two writers whose commits may land in either order next to the run)
	Writer2 []server.VOp `json:"writer2,omitempty"`
}

func c08RunSched(sc *C08Scenario, prefix []int, horizon int) *vsync.Execution {
	jw := c11GetWorld()
	h := jw.W.NewHist()
	if err := h.EnsureDatasets("A", "B", "Z"); err != nil {
		return &vsync.Execution{HarnessErr: err.Error()}
	}
	for _, op := range sc.Pre {
		if err := h.ApplyWrite(op); err != nil {
			return &vsync.Execution{HarnessErr: "pre: " + err.Error()}
		}
	}
	jb, jc, err := jw.newJob(h, sc.Spec)
	if err != nil {
		return &vsync.Execution{HarnessErr: "newJob: " + err.Error()}
	}
	jh := &jobHist{jw: jw, h: h, sp: sc.Spec, id: jc.ID, jb: jb, last: sc.Name}
	s := vsync.NewSched(prefix, horizon)
	var panicked string
	var werr error
	bodies := []func(){
		func() { panicked = runJob(jb) },
		func() {
			for _, op := range sc.Writer {
				if err := h.ApplyWrite(op); err != nil && werr == nil {
					werr = err
				}
			}
		},
	}
	names := []string{"run", "writer"}
	if len(sc.Writer2) > 0 {
		bodies = append(bodies, func() {
			for _, op := range sc.Writer2 {
				if err := h.ApplyWrite(op); err != nil && werr == nil {
					werr = err
				}
			}
		})
		names = append(names, "writer2")
	}
	server.VInstallHooks()
	timedOut := s.Run(bodies, names, 30*time.Second)
	x := vsync.Collect(s, timedOut)
	if x.Fatal() || len(x.Panics) > 0 {
		return x
	}
	if werr != nil {
		x.HarnessErr = "writer: " + werr.Error()
		return x
	}
	if panicked != "" {
		x.Viol = append(x.Viol, "C08:run-panics::the run next to a writer panics: "+panicked)
		return x
	}
	res := jw.lastResult(jc.ID)
	if res == nil || res.LastError != "" {
		le := ""
		if res != nil {
			le = res.LastError
		}
		x.Viol = append(x.Viol, "C08:clean-run-fails::a run next to a source writer (nothing injected) fails: "+le)
		return x
	}
	tokAfter := jw.token(jc.ID)
	// a fullsync over a plain DatasetSource pages through the entity listing (its token is not a change position); one
	// over a LatestOnly source reads the change log like an incremental run does
	changeTokens := sc.Spec.JobType != "fullsync" || sc.Spec.LatestOnly
	if changeTokens {
		jh.tokenSafety("after a run next to a source writer")
	}
	// the next undisturbed run restores equality
	if p2 := runJob(jb); p2 != "" {
		x.Viol = append(x.Viol, "C08:recovery-run-fails::the undisturbed run after a run next to a writer panics: "+p2)
		return x
	}
	if r2 := jw.lastResult(jc.ID); r2 == nil || r2.LastError != "" {
		x.Viol = append(x.Viol, "C08:recovery-run-fails::the undisturbed run after a run next to a writer fails")
		return x
	}
	if changeTokens {
		jh.tokenSafety("after the undisturbed run that follows")
	}
	jh.converged("after a run next to a source writer and one undisturbed run")
	for _, v := range jh.viol {
		k := v.Key
		if i := indexByte(k, '['); i > 0 {
			k = k[:i]
		}
		if i := indexByte(k[4:], ':'); i > 0 {
			k = k[:4+i]
		}
		x.Viol = append(x.Viol, k+"::"+v.What)
	}
	x.Outcome = fmt.Sprintf("token=%s", tokAfter)
	return x
}

func indexByte(s string, b byte) int {
	for i := 0; i < len(s); i++ {
		if s[i] == b {
			return i
		}
	}
	return -1
}

type c08SchedTask struct {
	Scenario C08Scenario `json:"scenario"`
	Prefix   []int       `json:"prefix"`
	Want     []string    `json:"want,omitempty"`
	Root     bool        `json:"root,omitempty"`
	Bound    int         `json:"bound"`
	Horizon  int         `json:"horizon"`
	MaxExec  int         `json:"max_exec"`
	BudgetS  int         `json:"budget_s"`
	NotAfter int64       `json:"not_after,omitempty"`
}

func init() {
	engine.RegisterWorker("sched-c08", func(args []string) {
		defer func() {
			if c11World != nil {
				c11World.Destroy()
			}
		}()
		engine.ServeWorker(func(task []byte) interface{} {
			var t c08SchedTask
			if err := json.Unmarshal(task, &t); err != nil {
				return server.SchedResult{HarnessEr: err.Error()}
			}
			ex := &vsync.Explorer{Bound: t.Bound, MaxExec: t.MaxExec, Stats: vsync.NewStats()}
			if t.BudgetS > 0 {
				ex.Deadline = time.Now().Add(time.Duration(t.BudgetS) * time.Second)
			}
			if t.NotAfter > 0 {
				if d := time.Unix(t.NotAfter, 0); ex.Deadline.IsZero() || d.Before(ex.Deadline) {
					ex.Deadline = d
				}
			}
			var herr string
			ex.Run = func(prefix []int) *vsync.Execution {
				x := c08RunSched(&t.Scenario, prefix, t.Horizon)
				if x.HarnessErr != "" && herr == "" {
					herr = x.HarnessErr
				}
				if x.Fatal() || len(x.Panics) > 0 {
					c11World = nil
				}
				return x
			}
			res := server.SchedResult{Stats: ex.Stats}
			if t.Root {
				x, tasks := ex.RootTasks()
				res.Tasks = tasks
				res.RootLabel = x.Labels()
			} else {
				ex.Explore(t.Prefix, t.Want)
			}
			res.Fatal = ex.FatalSeen
			res.HarnessEr = herr
			if ex.FatalSeen {
				defer func() { go func() { time.Sleep(200 * time.Millisecond); os.Exit(0) }() }()
			}
			return res
		})
	})
}

func c08Sched(r *engine.Run) {
	pool := model.Pool(0)
	pi := func(n string) int { return model.PoolIndex(pool, n) }
	b := func(ds string, es ...server.VEnt) server.VOp { return server.VOp{K: "batch", DS: ds, Ents: es} }
	e := func(id, c string) server.VEnt { return server.VEnt{ID: id, C: pi(c)} }
	pre := []server.VOp{b("A", e("e1", "v1"), e("e2", "v1"))}
	writer := []server.VOp{b("A", e("e3", "v1")), b("A", e("e1", "v2"))}
	scs := []C08Scenario{
		{Name: "W1-incremental-run-vs-source-writer", Spec: JobSpec{Sources: []string{"A"}, Sink: "Z", JobType: "incremental", BatchSize: 1}, Pre: pre, Writer: writer},
		{Name: "W2-latest-only-run-vs-source-writer", Spec: JobSpec{Sources: []string{"A"}, LatestOnly: true, Sink: "Z", JobType: "incremental", BatchSize: 1}, Pre: pre, Writer: writer},
		{Name: "W3-union-run-vs-writer-of-earlier-member", Spec: JobSpec{Sources: []string{"A", "B"}, Union: true, Sink: "Z", JobType: "incremental", BatchSize: 1},
			Pre: []server.VOp{b("A", e("e1", "v1")), b("B", e("e2", "v1"))}, Writer: []server.VOp{b("A", e("e3", "v1")), b("B", e("e4", "v1"))}},
		{Name: "W5-incremental-run-vs-two-source-writers", Spec: JobSpec{Sources: []string{"A"}, Sink: "Z", JobType: "incremental", BatchSize: 1}, Pre: pre,
			Writer: []server.VOp{b("A", e("e3", "v1"))}, Writer2: []server.VOp{b("A", e("e4", "v1"))}},
		{Name: "W6-latest-only-fullsync-run-vs-source-writer", Spec: JobSpec{Sources: []string{"A"}, LatestOnly: true, Sink: "Z", JobType: "fullsync", BatchSize: 1}, Pre: pre, Writer: writer},
		{Name: "W4-fullsync-run-vs-source-writer", Spec: JobSpec{Sources: []string{"A"}, Sink: "Z", JobType: "fullsync", BatchSize: 1}, Pre: pre, Writer: writer},
	}
	for _, sc := range scs {
		bound, budget := 1, 60
		if !r.Quick() {
			bound, budget = 2, 900
		}
		engine.RunSched(r, engine.SchedSpec{Name: sc.Name, WorkerArgs: []string{"worker", "sched-c08"}, Scenario: sc, Bound: bound, Horizon: 3000, BudgetS: budget})
	}
}
