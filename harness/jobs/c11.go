package jobs

import (
	"encoding/base64"
	"encoding/json"
	"fmt"
	"os"
	"strings"
	"time"

	"github.com/bamzi/jobrunner"

	"github.com/mimiro-io/datahub/internal/server"
	"github.com/mimiro-io/datahub/internal/verifrt/engine"
	"github.com/mimiro-io/datahub/internal/verifrt/model"
)

// C11Config is one job definition of the cross product.
type C11Config struct {
	Source    string `json:"source"`    // dataset | dataset-latest | union | multi | sample
	Transform string `json:"transform"` // none | js-identity | js-throws
	Sink      string `json:"sink"`      // dataset | devnull | console | failing
	Trigger   string `json:"trigger"`   // cron | onchange
	JobType   string `json:"job_type"`
	OnError   string `json:"on_error"` // none | log | rerun | log+rerun | log1
	// Restart: the definition is added unpaused (on a schedule that never fires), the hub is restarted, and the job
	// object the restarted hub's own cron holds is fired twice
	Restart bool `json:"restart,omitempty"`
}

func (c C11Config) String() string {
	s := fmt.Sprintf("source=%s transform=%s sink=%s trigger=%s jobType=%s onError=%s", c.Source, c.Transform, c.Sink, c.Trigger, c.JobType, c.OnError)
	if c.Restart {
		s += " firedTwiceAfterRestart"
	}
	return s
}

func (c C11Config) definition(h *server.VHist, id string) map[string]interface{} {
	var src map[string]interface{}
	switch c.Source {
	case "dataset":
		src = map[string]interface{}{"Type": "DatasetSource", "Name": h.DsName("A")}
	case "dataset-latest":
		src = map[string]interface{}{"Type": "DatasetSource", "Name": h.DsName("A"), "LatestOnly": true}
	case "union":
		src = map[string]interface{}{"Type": "UnionDatasetSource", "DatasetSources": []interface{}{
			map[string]interface{}{"Name": h.DsName("A")}, map[string]interface{}{"Name": h.DsName("B")}}}
	case "multi":
		src = map[string]interface{}{"Type": "MultiSource", "Name": h.DsName("A"), "Dependencies": []interface{}{
			map[string]interface{}{"dataset": h.DsName("B"), "joins": []interface{}{
				map[string]interface{}{"dataset": h.DsName("A"), "predicate": server.VNamespace + "p", "inverse": true}}}}}
	case "sample":
		src = map[string]interface{}{"Type": "SampleSource", "NumberOfEntities": 3}
	}
	var sink map[string]interface{}
	switch c.Sink {
	case "dataset", "failing":
		sink = map[string]interface{}{"Type": "DatasetSink", "Name": h.DsName("Z")}
	case "missing-dataset":
		// a sink that rejects every batch: its dataset does not exist
		sink = map[string]interface{}{"Type": "DatasetSink", "Name": h.DsName("NOSUCH")}
	case "devnull":
		sink = map[string]interface{}{"Type": "DevNullSink"}
	case "console":
		sink = map[string]interface{}{"Type": "ConsoleSink", "Prefix": "x", "Detailed": true}
	}
	var on []interface{}
	switch c.OnError {
	case "log":
		on = []interface{}{map[string]interface{}{"errorHandler": "log"}}
	case "log1":
		on = []interface{}{map[string]interface{}{"errorHandler": "log", "maxItems": 1}}
	case "rerun":
		on = []interface{}{map[string]interface{}{"errorHandler": "reRun", "maxRetries": 1, "retryDelay": 86400}}
	case "log+rerun":
		on = []interface{}{map[string]interface{}{"errorHandler": "log"}, map[string]interface{}{"errorHandler": "reRun", "maxRetries": 1, "retryDelay": 86400}}
	}
	trig := map[string]interface{}{"triggerType": c.Trigger, "jobType": c.JobType, "onError": on}
	if c.Trigger == "cron" {
		trig["schedule"] = "0 0 1 1 *"
	} else {
		trig["monitoredDataset"] = h.DsName("A")
	}
	def := map[string]interface{}{"id": id, "title": id, "source": src, "sink": sink, "triggers": []interface{}{trig}, "batchSize": 2, "paused": true}
	if c.Restart {
		def["paused"] = false
		trig["schedule"] = jNeverSchedule
	}
	switch c.Transform {
	case "js-identity":
		def["transform"] = map[string]interface{}{"Type": "JavascriptTransform", "Code": base64.StdEncoding.EncodeToString([]byte(`function transform_entities(entities) { return entities; }`))}
	case "js-drop-all":
		def["transform"] = map[string]interface{}{"Type": "JavascriptTransform", "Code": base64.StdEncoding.EncodeToString([]byte(`function transform_entities(entities) { return []; }`))}
	case "js-no-code":
		// a transform block that names the type but carries no code: accepted, the job then has no transform
		def["transform"] = map[string]interface{}{"Type": "JavascriptTransform"}
	case "js-parallelism-0", "js-parallelism-negative":
		// the documented option "Parallelism" with a value nobody should give but the scheduler accepts
		par := 0
		if c.Transform == "js-parallelism-negative" {
			par = -2
		}
		def["transform"] = map[string]interface{}{"Type": "JavascriptTransform", "Parallelism": par, "Code": base64.StdEncoding.EncodeToString([]byte(`function transform_entities(entities) { return entities; }`))}
	case "js-bindings-odd-arguments":
		// the documented bindings called with shapes a script can produce by accident
		def["transform"] = map[string]interface{}{"Type": "JavascriptTransform", "Code": base64.StdEncoding.EncodeToString([]byte(`function transform_entities(entities) {
  for (e of entities) {
    AsEntity({id: "x", props: {}, refs: null}); AsEntity({id: "x", props: null, refs: {}}); AsEntity({id: 7}); AsEntity(null); AsEntity("s");
    GetId(null); SetId(e, GetId(e)); ToString(null); ToString(undefined); GetProperty(e, "http://x/", "nope"); GetReference(e, "http://x/", "nope");
    AssertNamespacePrefix("http://odd.example/"); GetNamespacePrefix("http://never.seen/");
    FindById("http://never.seen/e"); Query([], "*", false, []); Query(["http://never.seen/e"], "http://never.seen/p", true, ["no-such-dataset"]);
  }
  return entities; }`))}
	case "js-throws":
		def["transform"] = map[string]interface{}{"Type": "JavascriptTransform", "Code": base64.StdEncoding.EncodeToString([]byte(`function transform_entities(entities) { throw "boom"; }`))}
	}
	return def
}

func c11Configs() []C11Config {
	var out []C11Config
	for _, s := range []string{"dataset", "dataset-latest", "union", "multi", "sample"} {
		for _, t := range []string{"none", "js-identity", "js-throws", "js-drop-all", "js-no-code", "js-parallelism-0", "js-parallelism-negative", "js-bindings-odd-arguments"} {
			for _, k := range []string{"dataset", "devnull", "console", "failing", "missing-dataset"} {
				for _, tr := range []string{"cron", "onchange"} {
					for _, jt := range []string{"incremental", "fullsync"} {
						for _, oe := range []string{"none", "log", "rerun", "log+rerun", "log1"} {
							out = append(out, C11Config{Source: s, Transform: t, Sink: k, Trigger: tr, JobType: jt, OnError: oe})
						}
					}
				}
			}
		}
	}
	// the objects a restarted hub schedules by itself (Scheduler.Start), fired twice
	for _, s := range []string{"dataset", "sample", "multi"} {
		for _, t := range []string{"none", "js-identity", "js-throws"} {
			for _, k := range []string{"dataset", "failing", "missing-dataset"} {
				for _, jt := range []string{"incremental", "fullsync"} {
					for _, oe := range []string{"none", "log", "rerun", "log+rerun", "log1"} {
						out = append(out, C11Config{Source: s, Transform: t, Sink: k, Trigger: "cron", JobType: jt, OnError: oe, Restart: true})
					}
				}
			}
		}
	}
	return out
}

type c11Out struct {
	Accepted  bool               `json:"accepted"`
	Viol      []engine.Violation `json:"viol"`
	Outcome   string             `json:"outcome"`
	HarnessEr string             `json:"harness_error,omitempty"`
}

// c11Run offers one definition to the real scheduler and, if accepted, triggers it the way its trigger would; then
// (differential) the same definition is run with a recording sink, once undisturbed and once per k with a second
// request for the same job arriving while the sink handles its k-th call: the refused request must change nothing.
func c11Run(cfg C11Config) (out c11Out) {
	if cfg.Restart {
		return c11RestartRun(cfg)
	}
	out, _ = c11RunOnce(cfg, -1)
	if !out.Accepted || out.HarnessEr != "" || len(out.Viol) > 0 {
		return
	}
	base, baseDigest := c11RunOnce(cfg, 0)
	out.Viol = append(out.Viol, base.Viol...)
	calls := 0
	_, _ = fmt.Sscanf(baseDigest, "sinkCalls=%d", &calls)
	if calls > 6 {
		calls = 6
	}
	for k := 1; k <= calls; k++ {
		o, d := c11RunOnce(cfg, k)
		out.Viol = append(out.Viol, o.Viol...)
		if len(o.Viol) == 0 && len(base.Viol) == 0 && d != baseDigest {
			out.Viol = append(out.Viol, engine.Violation{Key: fmt.Sprintf("C11:refused-request-changes-run:k=%d|%s", k, cfg.String()),
				What: fmt.Sprintf("%s: a second request for the same job arriving while the sink handles call %d (refused: the id is running) changes the run: undisturbed {%s}, disturbed {%s}", cfg.String(), k, baseDigest, d)})
		}
	}
	return
}

// c11RunOnce: reenter < 0: the definition as it is; 0: recording sink; k > 0: recording sink and a second request during call k.
func c11RunOnce(cfg C11Config, reenter int) (out c11Out, digest string) {
	jw := jWorld()
	h := jw.W.NewHist()
	fail := func(clause, what string) {
		out.Viol = append(out.Viol, engine.Violation{Key: "C11:" + clause + "|" + cfg.String(), What: cfg.String() + ": " + what})
	}
	if err := h.EnsureDatasets("A", "B", "Z"); err != nil {
		out.HarnessEr = err.Error()
		return
	}
	pool := model.Pool(0)
	pi := func(n string) int { return model.PoolIndex(pool, n) }
	_ = h.ApplyWrite(server.VOp{K: "batch", DS: "A", Ents: []server.VEnt{{ID: "e1", C: pi("v1r2")}, {ID: "e2", C: pi("v1")}, {ID: "e3", C: pi("dv1")}}})
	_ = h.ApplyWrite(server.VOp{K: "batch", DS: "B", Ents: []server.VEnt{{ID: "e2", C: pi("v2")}}})
	jw.Jobs++
	id := fmt.Sprintf("job-%s-%d", h.Tag, jw.Jobs)
	b, _ := json.Marshal(cfg.definition(h, id))
	jc, err := jw.Sched.Parse(b)
	if err != nil {
		out.Outcome = "unparsable"
		return
	}
	if err := jw.Sched.AddJob(jc); err != nil {
		out.Outcome = "rejected: " + strings.SplitN(err.Error(), ":", 2)[0]
		return
	}
	out.Accepted = true
	jobs, err := jw.Sched.toTriggeredJobs(jc)
	if err != nil || len(jobs) != 1 {
		out.HarnessEr = fmt.Sprintf("toTriggeredJobs: %v", err)
		return
	}
	jb := jobs[0]
	var rec *failSink
	if cfg.Sink == "failing" {
		rec = &failSink{inner: jb.pipeline.spec().sink, h: h, F: map[string]bool{"e2": true}}
		jb.pipeline.spec().sink = rec
	} else if reenter >= 0 {
		rec = &failSink{inner: jb.pipeline.spec().sink, h: h, F: map[string]bool{}}
		jb.pipeline.spec().sink = rec
	}
	if reenter > 0 {
		// a fullsync request that gets no ticket queues a retry on a real timer: far beyond the worker's life
		_ = os.Setenv("JOB_FULLSYNC_RETRY_INTERVAL", "48h")
		entered := false
		rec.onCall = func(call int) error {
			if call == reenter && !entered {
				entered = true
				jb.Run()
			}
			return nil
		}
	}
	fullBefore, incrBefore := jw.Runner.raffle.ticketsFull, jw.Runner.raffle.ticketsIncr
	start := time.Now()
	// a panic that leaves Run is fatal in production: cron jobs run under jobrunner (which re-panics in the cron goroutine),
	// on-change jobs in a bare goroutine
	panicked := ""
	func() {
		defer func() {
			if r := recover(); r != nil {
				panicked = fmt.Sprint(r)
			}
		}()
		if cfg.Trigger == "cron" {
			jobrunner.New(jb).Run()
		} else {
			jb.Run()
		}
	}()
	if panicked != "" {
		if len(panicked) > 300 {
			panicked = panicked[:300]
		}
		fail("run-crashes-hub", "the run panics outside any recovery, which terminates the hub process: "+panicked)
	}
	if len(jw.Sched.GetRunningJobs()) != 0 {
		fail("slot-not-released", fmt.Sprintf("after the run GetRunningJobs still lists %v", jw.Sched.GetRunningJobs()))
	}
	if jw.Runner.raffle.ticketsFull != fullBefore || jw.Runner.raffle.ticketsIncr != incrBefore {
		fail("ticket-not-returned", fmt.Sprintf("tickets before %d/%d after %d/%d", fullBefore, incrBefore, jw.Runner.raffle.ticketsFull, jw.Runner.raffle.ticketsIncr))
	}
	found := false
	for _, hst := range jw.Sched.GetJobHistory() {
		if hst.ID == id {
			found = true
			if hst.End.Before(start) {
				fail("result-stale", "the stored run result is older than the run")
			}
			out.Outcome = "ok"
			if hst.LastError != "" {
				out.Outcome = "failed"
			}
		}
	}
	if !found && panicked == "" {
		fail("no-run-result", "the run ended but no run result was stored for the job")
	}
	if rec != nil {
		// ids without their namespace prefix: the prefix a sample source gets depends on what the shared world has seen
		var del []string
		for _, id := range rec.delivered {
			if i := strings.Index(id, ":"); i >= 0 {
				id = id[i+1:]
			}
			del = append(del, id)
		}
		digest = fmt.Sprintf("sinkCalls=%d outcome=%s delivered=%v", rec.calls, out.Outcome, del)
	}
	// re-run timers are real timers in this enumeration: their delay is a day, so none fires while the worker lives
	// (a re-run firing during a later configuration would disturb its ticket accounting); re-runs are C17's subject
	return
}

func init() {
	engine.RegisterWorker("c11", func(args []string) {
		defer jDestroyWorld()
		engine.ServeWorker(func(task []byte) interface{} {
			var cfgs []C11Config
			if err := json.Unmarshal(task, &cfgs); err != nil {
				return []c11Out{{HarnessEr: err.Error()}}
			}
			var outs []c11Out
			for _, c := range cfgs {
				outs = append(outs, c11Run(c))
			}
			return outs
		})
	})

	engine.RegisterCheck("C11", func(r *engine.Run) {
		r.Rule = "ENUM: the full cross product of 5 sources x 8 transforms x 5 sinks x 2 trigger types x 2 job types x 5 error-handler settings (4000 definitions) is offered to the real Scheduler.AddJob; every accepted definition is triggered the way its trigger does (cron: jobrunner-wrapped Run; onchange: Run as the event callback calls it) in a worker process; oracle: no panic leaves Run, the process survives, the run slot and ticket are released, a run result is stored; differential: the same definition with a recording sink, undisturbed and with a second request for the same job arriving during each of the sink's calls (up to the 6th), must give the same outcome, sink calls and deliveries (the refused request is a no-op). SCHED: concurrent run requests on overlapping ids (see parts). distinct = distinct (accept/outcome) digests"
		r.Assumptions = []string{"a panic leaving job.Run terminates the hub (jobrunner re-panics in the cron goroutine; on-change jobs run in a bare goroutine)", "HTTP-typed sources/sinks/transforms are exercised against a second hub behind a loopback listener (part http-peer), not in the cross product"}
		cfgs := c11Configs()
		start := time.Now()
		pool := &engine.Pool{Args: []string{"worker", "c11"}, Timeout: 120 * time.Second}
		runChunks := func(chunks [][]C11Config) (dead [][]C11Config, accepted, evals int) {
			var tasks []json.RawMessage
			for _, c := range chunks {
				b, _ := json.Marshal(c)
				tasks = append(tasks, b)
			}
			results := pool.Do(tasks, nil)
			for i, res := range results {
				var outs []c11Out
				if res.Err != "" || json.Unmarshal(res.Out, &outs) != nil {
					dead = append(dead, chunks[i])
					continue
				}
				for j, o := range outs {
					evals++
					if o.HarnessEr != "" {
						r.Cap("c11: harness error: " + o.HarnessEr)
					}
					if o.Accepted {
						accepted++
					}
					for _, v := range o.Viol {
						v.Engine = "ENUM:c11"
						v.Replay = map[string]interface{}{"worker": []string{"worker", "c11"}, "config": chunks[i][j]}
						r.AddViolation(v)
					}
					r.AddDistinct(fmt.Sprintf("%v:%s", o.Accepted, o.Outcome))
				}
			}
			return
		}
		var chunks [][]C11Config
		for i := 0; i < len(cfgs); i += 12 {
			e := i + 12
			if e > len(cfgs) {
				e = len(cfgs)
			}
			chunks = append(chunks, cfgs[i:e])
		}
		dead, accepted, evals := runChunks(chunks)
		// a dead worker process: find the configuration that killed it
		var singles [][]C11Config
		for _, d := range dead {
			for _, c := range d {
				singles = append(singles, []C11Config{c})
			}
		}
		if len(singles) > 0 {
			dead2, a2, e2 := runChunks(singles)
			accepted += a2
			evals += e2
			for _, d := range dead2 {
				r.AddViolation(engine.Violation{Key: "C11:process-dies|" + d[0].String(), Engine: "ENUM:c11",
					What:   d[0].String() + ": running this accepted job terminates (or hangs) the worker process with an unrecoverable error (e.g. stack overflow)",
					Replay: map[string]interface{}{"worker": []string{"worker", "c11"}, "config": d[0]}})
			}
		}
		r.Evaluations += evals
		r.States += evals
		r.Transitions += accepted
		r.Traces += accepted
		r.AddSample(map[string]interface{}{"definition": cfgs[777]})
		r.AddPart(map[string]interface{}{"engine": "ENUM", "name": "c11-cross-product", "definitions": len(cfgs), "accepted": accepted, "evaluated": evals, "wall_s": time.Since(start).Seconds()})
		fmt.Fprintf(os_stderr(), "[c11] %d definitions, %d accepted, %d evaluated (%.1fs)\n", len(cfgs), accepted, evals, time.Since(start).Seconds())
		c11Sched(r)
		// HTTP-typed sources, sinks and transforms against a real peer; a run killed while the peer stalls
		jPeerPart(r, "C11")
	})
}

// c11RestartRun: the definition is accepted by a running hub, the hub is restarted, and what the restarted hub's cron
// holds for the job is fired twice (the second firing re-uses the job object, as every cron tick after the first does).
func c11RestartRun(cfg C11Config) (out c11Out) {
	jw := jWorld()
	h := jw.W.NewHist()
	fail := func(clause, what string) {
		out.Viol = append(out.Viol, engine.Violation{Key: "C11:" + clause + "|" + cfg.String(), What: cfg.String() + ": " + what})
	}
	if err := h.EnsureDatasets("A", "B", "Z"); err != nil {
		out.HarnessEr = err.Error()
		return
	}
	pool := model.Pool(0)
	pi := func(n string) int { return model.PoolIndex(pool, n) }
	_ = h.ApplyWrite(server.VOp{K: "batch", DS: "A", Ents: []server.VEnt{{ID: "e1", C: pi("v1r2")}, {ID: "e2", C: pi("v1")}, {ID: "e3", C: pi("dv1")}}})
	_ = h.ApplyWrite(server.VOp{K: "batch", DS: "B", Ents: []server.VEnt{{ID: "e2", C: pi("v2")}}})
	jw.Jobs++
	id := fmt.Sprintf("job-%s-%d", h.Tag, jw.Jobs)
	b, _ := json.Marshal(cfg.definition(h, id))
	jc, err := jw.Sched.Parse(b)
	if err != nil {
		out.Outcome = "unparsable"
		return
	}
	if err := jw.Sched.AddJob(jc); err != nil {
		out.Outcome = "rejected: " + strings.SplitN(err.Error(), ":", 2)[0]
		return
	}
	out.Accepted = true
	if len(jw.heldJobs(id)) != 1 {
		out.HarnessEr = fmt.Sprintf("the cron of the running hub holds %d job objects for %s", len(jw.heldJobs(id)), id)
		return
	}
	jw.Restart()
	held := jw.heldJobs(id)
	if len(held) != 1 {
		out.HarnessEr = fmt.Sprintf("the cron of the restarted hub holds %d job objects for %s", len(held), id)
		return
	}
	jb := held[0]
	if cfg.Sink == "failing" {
		jb.pipeline.spec().sink = &failSink{inner: jb.pipeline.spec().sink, h: h, F: map[string]bool{"e2": true}}
	}
	for firing := 1; firing <= 2; firing++ {
		fullBefore, incrBefore := jw.Runner.raffle.ticketsFull, jw.Runner.raffle.ticketsIncr
		start := time.Now()
		panicked := ""
		func() {
			defer func() {
				if r := recover(); r != nil {
					panicked = fmt.Sprint(r)
				}
			}()
			jobrunner.New(jb).Run()
		}()
		if panicked != "" {
			if len(panicked) > 300 {
				panicked = panicked[:300]
			}
			fail("run-crashes-hub", fmt.Sprintf("firing %d after the restart panics outside any recovery, which terminates the hub process: %s", firing, panicked))
		}
		if len(jw.Sched.GetRunningJobs()) != 0 {
			fail("slot-not-released", fmt.Sprintf("after firing %d GetRunningJobs still lists %v", firing, jw.Sched.GetRunningJobs()))
		}
		if jw.Runner.raffle.ticketsFull != fullBefore || jw.Runner.raffle.ticketsIncr != incrBefore {
			fail("ticket-not-returned", fmt.Sprintf("firing %d: tickets before %d/%d after %d/%d", firing, fullBefore, incrBefore, jw.Runner.raffle.ticketsFull, jw.Runner.raffle.ticketsIncr))
		}
		found := false
		for _, hst := range jw.Sched.GetJobHistory() {
			if hst.ID == id {
				found = true
				if hst.End.Before(start) {
					fail("result-stale", fmt.Sprintf("after firing %d the stored run result is older than the run", firing))
				}
				o := "ok"
				if hst.LastError != "" {
					o = "failed"
				}
				out.Outcome += o + " "
			}
		}
		if !found && panicked == "" {
			fail("no-run-result", fmt.Sprintf("firing %d ended but no run result was stored for the job", firing))
		}
		if panicked != "" {
			// the raffle may be left with a lost ticket: the world is not used again
			jDestroyWorld()
			return
		}
	}
	return
}
