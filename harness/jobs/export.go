package jobs

import (
	"context"
	"errors"

	jobSource "github.com/mimiro-io/datahub/internal/jobs/source"

	"github.com/mimiro-io/datahub/internal/server"
)

// JSinkDriver lets harnesses of downstream packages drive the real datasetSink the way the pipelines do.
type JSinkDriver struct {
	s  *datasetSink
	jw *JWorld
}

func JNewSinkDriver(jw *JWorld, datasetName string) *JSinkDriver {
	return &JSinkDriver{s: &datasetSink{DatasetName: datasetName, Store: jw.W.Store, DatasetManager: jw.W.Dsm}, jw: jw}
}

func (d *JSinkDriver) Start() error { return d.s.startFullSync(d.jw.Runner) }
func (d *JSinkDriver) Process(entities []*server.Entity) error {
	return d.s.processEntities(d.jw.Runner, entities)
}
func (d *JSinkDriver) End() error { return d.s.endFullSync(context.Background(), d.jw.Runner) }

// JWorldGet returns the worker's shared job world (recycled after max histories).
func JWorldGet(max int) *JWorld {
	jWorldMax = max
	return jWorld()
}

func JWorldAbandon() { jWorkerWorld = nil }
func JWorldDestroy() { jDestroyWorld() }

// JRunStoredJobSync loads the stored definition of a job, builds the job object its trigger would run and
// runs it synchronously; a panic is reported as text.
func (j *JWorld) JRunStoredJobSync(id string) (panicked string, err error) {
	jb, err := j.reloadJob(id)
	if err != nil {
		return "", err
	}
	return runJob(jb), nil
}

// failSource fails at its n-th read (a source that goes away in the middle of a run).
type failSource struct {
	inner  jobSource.Source
	failAt int
	reads  int
}

func (f *failSource) GetConfig() map[string]interface{} { return f.inner.GetConfig() }
func (f *failSource) StartFullSync()                    { f.inner.StartFullSync() }
func (f *failSource) EndFullSync()                      { f.inner.EndFullSync() }
func (f *failSource) ReadEntities(ctx context.Context, since jobSource.DatasetContinuation, batchSize int,
	processEntities func([]*server.Entity, jobSource.DatasetContinuation) error) error {
	f.reads++
	if f.reads == f.failAt {
		return errors.New("source: gone away")
	}
	return f.inner.ReadEntities(ctx, since, batchSize, processEntities)
}

// JRunFullSyncFailing runs a real fullsync job (real FullSyncPipeline, real dataset sink) that copies dataset src
// into dataset sink with batch size 1 and whose source fails at its failAt-th read. Returns the recorded error of the run.
func (j *JWorld) JRunFullSyncFailing(h *server.VHist, src, sink string, failAt int) (lastErr string, panicked string, err error) {
	jb, jc, err := j.newJob(h, JobSpec{Sources: []string{src}, Sink: sink, JobType: "fullsync", BatchSize: 1})
	if err != nil {
		return "", "", err
	}
	jb.pipeline.spec().source = &failSource{inner: jb.pipeline.spec().source, failAt: failAt}
	panicked = runJob(jb)
	return j.lastResult(jc.ID).LastError, panicked, nil
}

// JJob is the job object a trigger of a stored job holds: built once (as the scheduler does when the job is added or
// the hub starts) and run many times; what it carries from one run to the next is part of the behaviour.
type JJob struct{ jb *job }

func (j *JWorld) JLoadStoredJob(id string) (*JJob, error) {
	jb, err := j.reloadJob(id)
	if err != nil {
		return nil, err
	}
	return &JJob{jb: jb}, nil
}

// RunSync runs the job synchronously the way its trigger would; a panic is reported as text.
func (x *JJob) RunSync() string { return runJob(x.jb) }
