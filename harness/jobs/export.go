package jobs

import (
	"context"

	"github.com/mimiro-io/datahub/internal/server"
)

// JSinkDriver lets harnesses of downstream packages drive the real datasetSink the way the pipelines do.
type JSinkDriver struct {
	s  *datasetSink
	jw *JWorld
}

func JNewSinkDriver(jw *JWorld, datasetName string) *JSinkDriver {
	return &JSinkDriver{s: &datasetSink{DatasetName: datasetName, Store: jw.W.Store, DatasetManager: jw.W.Dsm}, jw: jw}
}

func (d *JSinkDriver) Start() error { return d.s.startFullSync(d.jw.Runner) }
func (d *JSinkDriver) Process(entities []*server.Entity) error {
	return d.s.processEntities(d.jw.Runner, entities)
}
func (d *JSinkDriver) End() error { return d.s.endFullSync(context.Background(), d.jw.Runner) }

// JWorldGet returns the worker's shared job world (recycled after max histories).
func JWorldGet(max int) *JWorld {
	jWorldMax = max
	return jWorld()
}

func JWorldAbandon() { jWorkerWorld = nil }
func JWorldDestroy() { jDestroyWorld() }

// JRunStoredJobSync loads the stored definition of a job, builds the job object its trigger would run and
// runs it synchronously; a panic is reported as text.
func (j *JWorld) JRunStoredJobSync(id string) (panicked string, err error) {
	jb, err := j.reloadJob(id)
	if err != nil {
		return "", err
	}
	return runJob(jb), nil
}
