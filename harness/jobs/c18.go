package jobs

// C18 — dependency tracking re-emits every affected main entity.
//
// SEQ: for every join shape (1, 2 and 3 hops, every direction pattern; declared in JSON, parsed by the
// real scheduler) explicit-state BFS over histories of writes to the main, link and dependency datasets
// (property change, link rewiring, delete, un-delete, second entity) and "run to fixpoint" operations,
// starting from a populated graph on which the job has already caught up. The real job (real
// MultiSource, real pipelines, a recording sink double around the real DevNullSink) is run repeatedly
// until its continuation token stops changing; the union of what reached the sink is compared with a
// reference reachability computation on the model graph.

import (
	"context"
	"encoding/base64"
	"encoding/json"
	"fmt"
	"os"
	"runtime"
	"sort"
	"strconv"
	"strings"
	"time"

	"github.com/mimiro-io/datahub/internal/server"
	"github.com/mimiro-io/datahub/internal/verifrt/engine"
	"github.com/mimiro-io/datahub/internal/verifrt/model"
)

type c18Join struct {
	DS  string `json:"ds"`
	P   string `json:"p"`
	Inv bool   `json:"inv"`
}

type c18Dep struct {
	DS    string    `json:"ds"`
	Joins []c18Join `json:"joins"`
}

// c18Shape: the main dataset is always M; a chain D -> (L ->) (K ->) M with one predicate per hop.
type c18Shape struct {
	Name string   `json:"name"`
	Deps []c18Dep `json:"deps"`
}

func c18Shapes() []c18Shape {
	var out []c18Shape
	dirs := func(n int) [][]bool {
		var l [][]bool
		for m := 0; m < 1<<n; m++ {
			var d []bool
			for i := 0; i < n; i++ {
				d = append(d, m&(1<<i) != 0)
			}
			l = append(l, d)
		}
		return l
	}
	name := func(d []bool) string {
		s := ""
		for _, x := range d {
			if x {
				s += "i"
			} else {
				s += "o"
			}
		}
		return s
	}
	for _, d := range dirs(1) {
		out = append(out, c18Shape{Name: "1hop-" + name(d), Deps: []c18Dep{{DS: "D", Joins: []c18Join{{"M", "p", d[0]}}}}})
	}
	for _, d := range dirs(2) {
		out = append(out, c18Shape{Name: "2hop-" + name(d), Deps: []c18Dep{{DS: "D", Joins: []c18Join{{"L", "p", d[0]}, {"M", "q", d[1]}}}}})
	}
	for _, d := range dirs(3) {
		out = append(out, c18Shape{Name: "3hop-" + name(d), Deps: []c18Dep{{DS: "D", Joins: []c18Join{{"L", "p", d[0]}, {"K", "q", d[1]}, {"M", "r", d[2]}}}}})
	}
	// the join path passes through the main dataset in the middle
	out = append(out, c18Shape{Name: "3hop-via-main", Deps: []c18Dep{{DS: "D", Joins: []c18Join{{"M", "p", true}, {"L", "q", true}, {"M", "r", false}}}}})
	// two declared dependencies that share the intermediate dataset L
	// two declared paths that start at the same dependency dataset (address via "home" and via "work")
	out = append(out, c18Shape{Name: "two-paths-one-dep", Deps: []c18Dep{
		{DS: "D", Joins: []c18Join{{"M", "p", false}}}, {DS: "D", Joins: []c18Join{{"M", "q", false}}}}})
	// the same predicate between the same two datasets followed in both directions (two dependencies that differ only
	// in the direction of their hop)
	out = append(out, c18Shape{Name: "both-directions", Deps: []c18Dep{
		{DS: "D", Joins: []c18Join{{"M", "p", false}}}, {DS: "D", Joins: []c18Join{{"M", "p", true}}}}})
	// the link dataset joined with itself: an entity of L can be reached on the first and on the second level
	out = append(out, c18Shape{Name: "3hop-self-join-on-link", Deps: []c18Dep{{DS: "D", Joins: []c18Join{{"L", "p", false}, {"L", "q", false}, {"M", "r", false}}}}})
	out = append(out, c18Shape{Name: "shared-link", Deps: []c18Dep{
		{DS: "D", Joins: []c18Join{{"L", "p", false}, {"M", "q", false}}},
		{DS: "E", Joins: []c18Join{{"L", "p", true}, {"M", "q", false}}},
	}})
	return out
}

func (s c18Shape) datasets() []string {
	seen := map[string]bool{"M": true}
	out := []string{"M"}
	for _, d := range s.Deps {
		for _, n := range append([]string{d.DS}, func() []string {
			var l []string
			for _, j := range d.Joins {
				l = append(l, j.DS)
			}
			return l
		}()...) {
			if !seen[n] {
				seen[n] = true
				out = append(out, n)
			}
		}
	}
	return out
}

// allDeps: the declared dependencies plus the implicit ones for every intermediate dataset.
func (s c18Shape) allDeps() (declared, implicit []c18Dep) {
	declared = s.Deps
	seen := map[string]bool{}
	key := func(d c18Dep) string { b, _ := json.Marshal(d); return string(b) }
	for _, d := range declared {
		seen[key(d)] = true
	}
	for _, d := range s.Deps {
		for i, j := range d.Joins {
			if j.DS == "M" {
				continue
			}
			imp := c18Dep{DS: j.DS, Joins: d.Joins[i+1:]}
			if !seen[key(imp)] {
				seen[key(imp)] = true
				implicit = append(implicit, imp)
			}
		}
	}
	return
}

// c18Op: a write of one entity, or a run to fixpoint.
type c18Op struct {
	K    string              `json:"k"` // w | run
	DS   string              `json:"ds,omitempty"`
	ID   string              `json:"id,omitempty"`
	V    int                 `json:"v,omitempty"`
	Refs map[string][]string `json:"refs,omitempty"` // predicate -> targets (one target = single ref)
	Del  bool                `json:"del,omitempty"`
	N    int                 `json:"n,omitempty"` // batch size of the runs
	F    int                 `json:"f,omitempty"` // runfail: the sink rejects its F-th call of a single run
	W    *c18Op              `json:"w,omitempty"` // runw: the write that lands while the sink handles call F of a single run
}

func (o c18Op) String() string { b, _ := json.Marshal(o); return string(b) }

func (o c18Op) content() model.Content {
	c := model.Content{Props: map[string]interface{}{"v": o.V}, Refs: map[string]interface{}{}, Deleted: o.Del}
	for p, ts := range o.Refs {
		if len(ts) == 1 {
			c.Refs[p] = ts[0]
		} else {
			l := []interface{}{}
			for _, t := range ts {
				l = append(l, t)
			}
			c.Refs[p] = l
		}
	}
	return c
}

// entity ids per dataset: lower-case dataset letter + number
func c18IDs(ds string) []string {
	l := strings.ToLower(ds)
	return []string{l + "1", l + "2"}
}

// holds: which predicates entities of dataset ds hold, and towards which dataset
func (s c18Shape) holds(ds string) map[string]string {
	out := map[string]string{}
	for _, d := range s.Deps {
		prev := d.DS
		for _, j := range d.Joins {
			if !j.Inv && prev == ds {
				out[j.P] = j.DS
			}
			if j.Inv && j.DS == ds {
				out[j.P] = prev
			}
			prev = j.DS
		}
	}
	return out
}

// c18Alphabet: per dataset, entity 1 in several variants (plain, each held predicate to target 1 / target 2 /
// both, changed property with the link kept, deleted) and entity 2 linked to target 1; plus runs.
func c18Alphabet(s c18Shape, batches []int) []c18Op {
	var ops []c18Op
	for _, ds := range s.datasets() {
		ids := c18IDs(ds)
		holds := s.holds(ds)
		var preds []string
		for p := range holds {
			preds = append(preds, p)
		}
		sort.Strings(preds)
		link := func(t int) map[string][]string {
			m := map[string][]string{}
			for _, p := range preds {
				m[p] = []string{c18IDs(holds[p])[t]}
			}
			return m
		}
		both := map[string][]string{}
		for _, p := range preds {
			both[p] = c18IDs(holds[p])
		}
		ops = append(ops, c18Op{K: "w", DS: ds, ID: ids[0], V: 1, Refs: link(0)})
		ops = append(ops, c18Op{K: "w", DS: ds, ID: ids[0], V: 2, Refs: link(0)})
		if len(preds) > 0 {
			ops = append(ops, c18Op{K: "w", DS: ds, ID: ids[0], V: 1, Refs: link(1)})
			ops = append(ops, c18Op{K: "w", DS: ds, ID: ids[0], V: 1, Refs: both})
			ops = append(ops, c18Op{K: "w", DS: ds, ID: ids[0], V: 1})
		}
		ops = append(ops, c18Op{K: "w", DS: ds, ID: ids[0], V: 1, Refs: link(0), Del: true})
		ops = append(ops, c18Op{K: "w", DS: ds, ID: ids[1], V: 1, Refs: link(0)})
		if len(preds) > 0 && ds != "M" {
			// ... and entity 2 linked to target 2 (two changed entities of one page that lead to different targets)
			ops = append(ops, c18Op{K: "w", DS: ds, ID: ids[1], V: 1, Refs: link(1)})
		}
	}
	for _, n := range batches {
		ops = append(ops, c18Op{K: "run", N: n})
	}
	ops = append(ops, c18Op{K: "restart"})
	// one run whose sink fails at its first / second call (batch size 1: one entity per call)
	ops = append(ops, c18Op{K: "runfail", N: 1, F: 1}, c18Op{K: "runfail", N: 1, F: 2})
	// one run during which entity 1 of a declared dependency dataset is rewired to target 2 / changes a property
	// (declared dependency datasets and the link datasets between them and the main dataset)
	for _, ds := range s.datasets() {
		if ds == "M" {
			continue
		}
		holds := s.holds(ds)
		keep, rewire := map[string][]string{}, map[string][]string{}
		for pr, t := range holds {
			keep[pr] = []string{c18IDs(t)[0]}
			rewire[pr] = []string{c18IDs(t)[1]}
		}
		id := c18IDs(ds)[0]
		if len(holds) > 0 {
			ops = append(ops, c18Op{K: "runw", N: 1, F: 1, W: &c18Op{K: "w", DS: ds, ID: id, V: 1, Refs: rewire}})
		}
		ops = append(ops, c18Op{K: "runw", N: 1, F: 1, W: &c18Op{K: "w", DS: ds, ID: id, V: 2, Refs: keep}})
	}
	return ops
}

// recSink records what the pipeline hands to the sink.
type recSink struct {
	inner  Sink
	got    []*server.Entity
	at     []int // model commit index when the entity was handed over (read before a write injected into this call)
	m      *model.World
	failAt int
	calls  int
	onCall func(call int) // e.g. a write landing while the run is between two pages
}

func (r *recSink) GetConfig() map[string]interface{}  { return r.inner.GetConfig() }
func (r *recSink) startFullSync(runner *Runner) error { return r.inner.startFullSync(runner) }
func (r *recSink) endFullSync(ctx context.Context, runner *Runner) error {
	return r.inner.endFullSync(ctx, runner)
}
func (r *recSink) processEntities(runner *Runner, entities []*server.Entity) error {
	r.calls++
	at := 0
	if r.m != nil {
		at = r.m.CommitIndex()
	}
	if r.onCall != nil {
		r.onCall(r.calls)
	}
	if r.failAt > 0 && r.calls == r.failAt {
		return fmt.Errorf("sink: injected failure at call %d", r.calls)
	}
	r.got = append(r.got, entities...)
	for range entities {
		r.at = append(r.at, at)
	}
	if os.Getenv("VERIF_C18_DEBUG") != "" {
		var l []string
		for _, e := range entities {
			l = append(l, e.ID)
		}
		fmt.Fprintf(os.Stderr, "  sink call %d at commit index %d: %v\n", r.calls, at, l)
	}
	return r.inner.processEntities(runner, entities)
}

type c18Params struct {
	Shape c18Shape `json:"shape"`
	Batch int      `json:"batch"` // batch size of the initial and the final catch-up
	// LatestOnly: the job's source is declared with LatestOnly (superseded versions are skipped when reading changes)
	LatestOnly bool `json:"latest_only,omitempty"`
	// InitW / InitAt: a write that lands while the first catch-up (fullsync) hands its InitAt-th page to the sink
	InitW  *c18Op `json:"init_w,omitempty"`
	InitAt int    `json:"init_at,omitempty"`
	// Fresh: the join predicates have never been used in the hub when the job first catches up (predicate names of
	// the history's own), and the graph the history starts from holds the entities but not a single link
	Fresh bool `json:"fresh,omitempty"`
	// TQ: the dependencies are not declared in the job's JSON but registered by the javascript transform's track_queries
	// function (chains of hop / iHop from the main dataset outwards)
	TQ bool `json:"tq,omitempty"`
}

type c18Hist struct {
	jw         *JWorld
	h          *server.VHist
	shape      c18Shape
	latestOnly bool
	tq         bool
	id         string
	jb         *job
	chk        *server.VCheck
	// fixpoint bookkeeping
	fixCommit int            // model commit index at the previous fixpoint
	fixLen    map[string]int // model feed length per dataset at the previous fixpoint
	first     bool
	tokens    map[string]uint64
	pending   []*server.Entity // delivered by a failed run since the previous fixpoint
	pendingAt []int
	initW     *c18Op
	initAt    int
	initDone  bool
	// lastRunCommit: model commit index when the last single run (runw) started, -1 if none since the last fixpoint
	lastRunCommit int
	curBatch      int
}

func (c *c18Hist) jobConfig(batch int) []byte {
	var deps []interface{}
	for _, d := range c.shape.Deps {
		var joins []interface{}
		for _, j := range d.Joins {
			joins = append(joins, map[string]interface{}{"dataset": c.h.DsName(j.DS), "predicate": c.h.KeyURI(j.P), "inverse": j.Inv})
		}
		deps = append(deps, map[string]interface{}{"dataset": c.h.DsName(d.DS), "joins": joins})
	}
	src := map[string]interface{}{"Type": "MultiSource", "Name": c.h.DsName("M"), "Dependencies": deps}
	if c.latestOnly {
		src["LatestOnly"] = true
	}
	var transform map[string]interface{}
	if c.tq {
		// the same paths, walked from the main dataset outwards the way a transform would query them: the join of the
		// declared path that leads from X to Y along p becomes a hop from Y back to X (iHop if the declared join is not inverse)
		delete(src, "Dependencies")
		code := "function track_queries(start) {\n"
		for _, d := range c.shape.Deps {
			chain := "start"
			for i := len(d.Joins) - 1; i >= 0; i-- {
				from := d.DS
				if i > 0 {
					from = d.Joins[i-1].DS
				}
				m := "iHop"
				if d.Joins[i].Inv {
					m = "hop"
				}
				chain += fmt.Sprintf(".%s(%q, %q)", m, c.h.DsName(from), c.h.KeyURI(d.Joins[i].P))
			}
			code += "  " + chain + ";\n"
		}
		code += "}\nfunction transform_entities(entities) { return entities; }\n"
		transform = map[string]interface{}{"Type": "JavascriptTransform", "Code": base64.StdEncoding.EncodeToString([]byte(code))}
	}
	cfg := map[string]interface{}{
		"id": c.id, "title": c.id, "paused": true, "batchSize": batch,
		"source":   src,
		"sink":     map[string]interface{}{"Type": "DevNullSink"},
		"triggers": []interface{}{map[string]interface{}{"triggerType": "cron", "jobType": "incremental", "schedule": "0 0 1 1 *"}},
	}
	if transform != nil {
		cfg["transform"] = transform
	}
	b, _ := json.Marshal(cfg)
	return b
}

func (c *c18Hist) setBatch(batch int) error {
	if c.jb != nil && c.curBatch == batch {
		// the same job object goes on: what it carries from one run to the next (source state, wrapped sinks) is
		// part of the behaviour; a new object is only built when the definition changes or the hub restarts
		return nil
	}
	c.curBatch = batch
	cfg, err := c.jw.Sched.Parse(c.jobConfig(batch))
	if err != nil {
		return err
	}
	if err := c.jw.Sched.AddJob(cfg); err != nil {
		return err
	}
	jobs, err := c.jw.Sched.toTriggeredJobs(cfg)
	if err != nil || len(jobs) == 0 {
		return fmt.Errorf("toTriggeredJobs: %v", err)
	}
	c.jb = jobs[0]
	return nil
}

func (c *c18Hist) write(op c18Op) error {
	ds := c.jw.W.Dsm.GetDataset(c.h.DsName(op.DS))
	if ds == nil {
		return fmt.Errorf("no dataset %s", op.DS)
	}
	ct := op.content()
	if err := ds.StoreEntities([]*server.Entity{c.h.Entity(op.ID, ct)}); err != nil {
		return err
	}
	_, _ = c.h.M.Batch(op.DS, []model.Ent{{ID: op.ID, C: ct}})
	return nil
}

// decodeTokens: main token and one token per dependency dataset (abstract names), as positions.
func (c *c18Hist) decodeTokens() (map[string]uint64, string, error) {
	tok := c.jw.token(c.id)
	out := map[string]uint64{}
	if tok == "" {
		return out, tok, nil
	}
	var m struct {
		MainToken        string
		DependencyTokens map[string]*struct{ Token string }
	}
	if err := json.Unmarshal([]byte(tok), &m); err != nil {
		return nil, tok, err
	}
	n, _ := strconv.ParseUint(m.MainToken, 10, 64)
	out["M"] = n
	for name, t := range m.DependencyTokens {
		if t == nil {
			continue
		}
		n, _ := strconv.ParseUint(t.Token, 10, 64)
		out[c.h.AbsDs(name)] = n
	}
	return out, tok, nil
}

// reach: main ids reachable from x through joins; the first hop is evaluated in the graph as of commit
// first (-1 = now), the others now.
func (c *c18Hist) reach(x string, dep c18Dep, first int) map[string]bool {
	cur := map[string]bool{x: true}
	prev := dep.DS
	for i, j := range dep.Joins {
		commit := -1
		if i == 0 {
			commit = first
		}
		g := c.h.M.Graph([]string{prev, j.DS}, commit)
		next := map[string]bool{}
		for e := range g {
			if e.Pred != j.P {
				continue
			}
			if !j.Inv && cur[e.Src] {
				next[e.Dst] = true
			}
			if j.Inv && cur[e.Dst] {
				next[e.Src] = true
			}
		}
		cur = next
		prev = j.DS
	}
	return cur
}

func sortedKeys(m map[string]bool) []string {
	var l []string
	for k, v := range m {
		if v {
			l = append(l, k)
		}
	}
	sort.Strings(l)
	return l
}

// runToFixpoint runs the job until its token stops changing and applies the oracle.
func (c *c18Hist) runToFixpoint(check bool, label string) (herr string) {
	real := c.jb.pipeline.spec().sink
	rec := &recSink{inner: real, got: c.pending, at: c.pendingAt, m: c.h.M}
	c.pending, c.pendingAt = nil, nil
	if c.first && c.initW != nil {
		rec.onCall = func(call int) {
			if call == c.initAt && !c.initDone {
				c.initDone = true
				if err := c.write(*c.initW); err != nil {
					herr = "init write: " + err.Error()
				}
			}
		}
	}
	c.jb.pipeline.spec().sink = rec
	defer func() { c.jb.pipeline.spec().sink = real }()
	prevTokens, _, _ := c.decodeTokens()
	runs := 0
	for {
		before := c.jw.token(c.id)
		if pn := runJob(c.jb); pn != "" {
			if check {
				c.chk.Fail("C18:run-panics", "the job run panicked: "+pn)
			}
			return ""
		}
		runs++
		res := c.jw.lastResult(c.id)
		if res.LastError != "" {
			if check {
				c.chk.Fail("C18:run-fails", "the job run failed: "+res.LastError)
			}
			return ""
		}
		after := c.jw.token(c.id)
		if after == before {
			break
		}
		if runs > 60 {
			if check {
				c.chk.Fail("C18:no-fixpoint", "the continuation token still changes after 60 runs without any write in between")
			}
			return ""
		}
	}
	tokens, raw, err := c.decodeTokens()
	if err != nil {
		return "undecodable token " + raw
	}
	c.tokens = tokens
	m := c.h.M
	mainView := m.Datasets["M"].LatestView()
	emitted := map[string]bool{}
	lastAt := map[string]int{} // id -> stamp of its last emission
	for i, e := range rec.got {
		id := c.h.AbsID(e.ID)
		emitted[id] = true
		lastAt[id] = rec.at[i]
		if !check {
			continue
		}
		c.chk.Checks++
		want, ok := mainView[id]
		if !ok {
			c.chk.Fail("C18:emitted-not-in-main:"+id, fmt.Sprintf("%s: the job emitted %s, which is not an entity of the main dataset", label, id))
			continue
		}
		if got := c.h.AbsContent(e); !got.Equal(want) {
			// an earlier version emitted by a main-change page is fine as long as the latest one is emitted too
			latestSeen := false
			for _, e2 := range rec.got {
				if c.h.AbsID(e2.ID) == id && c.h.AbsContent(e2).Equal(want) {
					latestSeen = true
				}
			}
			isVersion := false
			for _, v := range m.Datasets["M"].Versions[id] {
				if v.C.Equal(got) {
					isVersion = true
				}
			}
			if !isVersion {
				c.chk.Fail("C18:emitted-content-not-from-main:"+id, fmt.Sprintf("%s: the job emitted %s as %s, which is no version of it in the main dataset (latest %s)", label, id, got, want))
			} else if !latestSeen {
				c.chk.Fail("C18:emitted-stale:"+id, fmt.Sprintf("%s: the job emitted %s only as the old version %s, the main dataset holds %s", label, id, got, want))
			}
		}
	}
	if check {
		// ---- completeness ----
		required := map[string]string{} // id -> reason
		after := map[string]int{}       // id -> commit index of the latest change that requires it: emitted after that
		need := func(id, why string, commit int) {
			if _, has := required[id]; !has {
				required[id] = why
				after[id] = commit
			} else if commit > after[id] {
				after[id] = commit
				required[id] = why
			}
		}
		if c.first {
			for id := range mainView {
				need(id, "first run: every main entity", -1)
			}
		}
		{
			md := m.Datasets["M"]
			for _, v := range md.Feed[c.fixLen["M"]:] {
				if _, ok := mainView[v.ID]; ok {
					need(v.ID, "changed itself", v.Commit)
				}
			}
			declared, implicit := c.shape.allDeps()
			for k, dep := range append(append([]c18Dep{}, declared...), implicit...) {
				dd := m.Datasets[dep.DS]
				for _, v := range dd.Feed[c.fixLen[dep.DS]:] {
					x, commit := v.ID, v.Commit
					for id := range c.reach(x, dep, -1) {
						// a main entity that is deleted has been emitted as deleted; the joins do not return deleted entities
						if mv, ok := mainView[id]; ok && !mv.Deleted {
							need(id, fmt.Sprintf("connected now to %s (changed in %s) through %v", x, dep.DS, dep.Joins), commit)
						}
					}
					if k < len(declared) && len(dep.Joins) > 0 && !dep.Joins[0].Inv && c.fixLen[dep.DS] > 0 {
						// "the previous run": the previous fixpoint, or - for a change that landed while or after a single
						// run (runw) was under way - that run
						prevAt := c.fixCommit
						if c.lastRunCommit >= 0 && commit > c.lastRunCommit {
							prevAt = c.lastRunCommit
						}
						// under LatestOnly a superseded change is never processed: if the entity changed more than once since the
						// previous fixpoint, the change that removed the link may be one the job never looks at
						mark := ""
						if c.latestOnly {
							nv := 0
							for _, v2 := range dd.Feed[c.fixLen[dep.DS]:] {
								if v2.ID == x {
									nv++
								}
							}
							if nv >= 2 {
								mark = " [several changes of it since, LatestOnly]"
							}
						}
						for id := range c.reach(x, dep, prevAt) {
							if mv, ok := mainView[id]; ok && !mv.Deleted {
								need(id, fmt.Sprintf("was connected at the previous run to %s (changed in %s) through a first outgoing hop of %v%s", x, dep.DS, dep.Joins, mark), commit)
							}
						}
					}
				}
			}
		}
		c.chk.Checks++
		var ids []string
		for id := range required {
			ids = append(ids, id)
		}
		sort.Strings(ids)
		for _, id := range ids {
			// input class of the recorded known finding: the requirement comes from the "as it stood at the previous run"
			// clause and the previous run was a single run that did not drain the dependency's pending changes (the
			// implementation looks at the state as of the last change that run processed, not as of the run)
			kf := strings.HasPrefix(required[id], "was connected at the previous run") &&
				(c.lastRunCommit >= 0 || strings.Contains(required[id], "[several changes of it since, LatestOnly]"))
			if !emitted[id] || lastAt[id] < after[id] {
				clause := "C18:not-emitted:" + id
				what := fmt.Sprintf("%s: after catching up (%d runs) the job never emitted %s (%s); emitted %v", label, runs, id, required[id], sortedKeys(emitted))
				if emitted[id] {
					clause = "C18:not-emitted-after-change:" + id
					what = fmt.Sprintf("%s: after catching up (%d runs) the job emitted %s only before the change that requires it (%s)", label, runs, id, required[id])
				}
				if kf {
					clause = "C18:KF-previous-run-means-last-processed-change:" + id
				}
				c.chk.Fail(clause, what)
			}
		}
		// ---- tokens ----
		for ds, t := range tokens {
			d := c.jw.W.Dsm.GetDataset(c.h.DsName(ds))
			if d == nil {
				continue
			}
			pos := c.h.ChangePositions(d)
			end := uint64(0)
			if len(pos) > 0 {
				end = pos[len(pos)-1] + 1
			}
			c.chk.Checks++
			if t > end {
				c.chk.Fail("C18:token-beyond-end:"+ds, fmt.Sprintf("%s: the token of %s is %d, beyond the end of its change log (%d)", label, ds, t, end))
			}
			if p, ok := prevTokens[ds]; ok && t < p {
				c.chk.Fail("C18:token-went-back:"+ds, fmt.Sprintf("%s: the token of %s went from %d back to %d", label, ds, p, t))
			}
		}
	}
	// new fixpoint
	c.lastRunCommit = -1
	c.first = false
	c.fixCommit = m.CommitIndex()
	c.fixLen = map[string]int{}
	for _, ds := range c.shape.datasets() {
		c.fixLen[ds] = len(m.Datasets[ds].Feed)
	}
	return ""
}

func c18Replay(task engine.SeqTask) (res engine.SeqResult) {
	var p c18Params
	_ = json.Unmarshal(task.Params, &p)
	defer func() {
		if r := recover(); r != nil {
			res.Viol = append(res.Viol, engine.Violation{Key: "C18:panic|" + fmt.Sprint(r), What: fmt.Sprintf("panic while replaying history: %v", r)})
			jWorkerWorld = nil
		}
	}()
	jw := jWorld()
	h := jw.W.NewHist()
	if p.Fresh {
		h.KeySuffix = "_k" + h.Tag
	}
	c := &c18Hist{jw: jw, h: h, shape: p.Shape, latestOnly: p.LatestOnly, tq: p.TQ, first: true, fixLen: map[string]int{}, initW: p.InitW, initAt: p.InitAt, lastRunCommit: -1}
	jw.Jobs++
	c.id = fmt.Sprintf("c18-%s-%d", h.Tag, jw.Jobs)
	c.chk = &server.VCheck{H: h}
	if err := h.EnsureDatasets(p.Shape.datasets()...); err != nil {
		res.HarnessEr = err.Error()
		return
	}
	// the populated graph: entity 1 of every dataset linked to entity 1 of its targets, main entity 2 exists
	for _, ds := range p.Shape.datasets() {
		holds := p.Shape.holds(ds)
		refs := map[string][]string{}
		for pr, t := range holds {
			if !p.Fresh {
				refs[pr] = []string{c18IDs(t)[0]}
			}
		}
		if err := c.write(c18Op{K: "w", DS: ds, ID: c18IDs(ds)[0], V: 1, Refs: refs}); err != nil {
			res.HarnessEr = err.Error()
			return
		}
	}
	if err := c.write(c18Op{K: "w", DS: "M", ID: "m2", V: 1, Refs: func() map[string][]string {
		refs := map[string][]string{}
		for pr, t := range p.Shape.holds("M") {
			if !p.Fresh {
				refs[pr] = []string{c18IDs(t)[1]}
			}
		}
		return refs
	}()}); err != nil {
		res.HarnessEr = err.Error()
		return
	}
	if err := c.setBatch(p.Batch); err != nil {
		res.HarnessEr = err.Error()
		return
	}
	// first catch-up (full sync + watermarks); checked when the history is empty
	if herr := c.runToFixpoint(len(task.Hist) == 0, "initial catch-up"); herr != "" {
		res.HarnessEr = herr
		return
	}
	for i, raw := range task.Hist {
		var op c18Op
		if err := json.Unmarshal(raw, &op); err != nil {
			res.HarnessEr = err.Error()
			return
		}
		last := i == len(task.Hist)-1
		if last {
			c.chk.Last = op.String()
		}
		switch op.K {
		case "w":
			// a write that repeats the current version changes nothing: not a transition
			if cur := h.M.Datasets[op.DS].Latest(op.ID); cur != nil && cur.C.Equal(op.content()) {
				res.Skip, res.Key = true, "skip"
				return
			}
			if err := c.write(op); err != nil {
				res.HarnessEr = err.Error()
				return
			}
		case "runfail":
			if i == 0 {
				res.Skip, res.Key = true, "skip"
				return
			}
			var prevOp c18Op
			_ = json.Unmarshal(task.Hist[i-1], &prevOp)
			if prevOp.K != "w" {
				res.Skip, res.Key = true, "skip"
				return
			}
			if err := c.setBatch(op.N); err != nil {
				res.HarnessEr = err.Error()
				return
			}
			real := c.jb.pipeline.spec().sink
			rec := &recSink{inner: real, got: c.pending, at: c.pendingAt, m: c.h.M, failAt: op.F}
			c.jb.pipeline.spec().sink = rec
			pn := runJob(c.jb)
			c.jb.pipeline.spec().sink = real
			c.pending, c.pendingAt = rec.got, rec.at
			if pn != "" {
				c.chk.Fail("C18:run-panics", "the job run with a failing sink panicked: "+pn)
			}
			if g := c18LeftBehind(); g != "" {
				c.chk.Fail("C18:run-leaves-query-goroutine", "the run has ended (its sink refused a call) but a goroutine of the multi source is still there; it goes on querying the store, also after the hub was stopped (which terminates the process): "+g)
			}
			if rec.calls < op.F {
				// the sink was not called that often: the failure was not injected, this is a plain run
				res.Skip, res.Key = true, "skip"
				return
			}
		case "runw":
			// one run during which a write lands (while the sink handles its F-th call)
			if i == 0 {
				res.Skip, res.Key = true, "skip"
				return
			}
			{
				var prevOp c18Op
				_ = json.Unmarshal(task.Hist[i-1], &prevOp)
				if prevOp.K != "w" {
					res.Skip, res.Key = true, "skip"
					return
				}
			}
			if cur := h.M.Datasets[op.W.DS].Latest(op.W.ID); cur != nil && cur.C.Equal(op.W.content()) {
				res.Skip, res.Key = true, "skip"
				return
			}
			if err := c.setBatch(op.N); err != nil {
				res.HarnessEr = err.Error()
				return
			}
			{
				real := c.jb.pipeline.spec().sink
				rec := &recSink{inner: real, got: c.pending, at: c.pendingAt, m: c.h.M}
				c.lastRunCommit = c.h.M.CommitIndex()
				landed := false
				var werr error
				rec.onCall = func(call int) {
					if call == op.F && !landed {
						landed = true
						werr = c.write(*op.W)
					}
				}
				c.jb.pipeline.spec().sink = rec
				pn := runJob(c.jb)
				c.jb.pipeline.spec().sink = real
				c.pending, c.pendingAt = rec.got, rec.at
				if pn != "" {
					c.chk.Fail("C18:run-panics", "the job run with a concurrent write panicked: "+pn)
				}
				if werr != nil {
					res.HarnessEr = "mid-run write: " + werr.Error()
					return
				}
				if !landed {
					res.Skip, res.Key = true, "skip"
					return
				}
			}
		case "restart":
			// the hub stops and starts: stored tokens stay, job objects are rebuilt from the stored definitions
			if i == 0 {
				res.Skip, res.Key = true, "skip"
				return
			}
			jw.Restart()
			c.jb = nil
		case "run":
			if i > 0 {
				var prevOp c18Op
				_ = json.Unmarshal(task.Hist[i-1], &prevOp)
				if prevOp.K == "run" {
					res.Skip, res.Key = true, "skip"
					return
				}
			} else {
				res.Skip, res.Key = true, "skip"
				return
			}
			if err := c.setBatch(op.N); err != nil {
				res.HarnessEr = err.Error()
				return
			}
			// intermediate catch-ups were checked when that prefix (plus the final catch-up) was the history
			if herr := c.runToFixpoint(false, "catch-up"); herr != "" {
				res.HarnessEr = herr
				return
			}
		default:
			res.HarnessEr = "unknown op " + op.K
			return
		}
	}
	// what the job has not processed yet when the history ends (before the judged catch-up, which is not part of the
	// history): a history that ends caught up and one that ends with pending changes have different futures, although
	// the store holds the same
	hidden := ""
	if toks, _, err := c.decodeTokens(); err == nil {
		for _, ds := range p.Shape.datasets() {
			t, has := toks[ds]
			d := c.jw.W.Dsm.GetDataset(h.DsName(ds))
			if d == nil {
				continue
			}
			end := uint64(0)
			if pos := h.ChangePositions(d); len(pos) > 0 {
				end = pos[len(pos)-1] + 1
			}
			// the job's stored token of the dataset, as the number of changes it is behind
			if has {
				hidden += fmt.Sprintf("|%s:behind=%d", ds, int64(end)-int64(t))
			} else {
				hidden += fmt.Sprintf("|%s:no-token", ds)
			}
		}
	}
	hidden += fmt.Sprintf("|single-run-since-fixpoint=%v|undelivered=%d", c.lastRunCommit >= 0, len(c.pending))
	// every history ends with a catch-up, which is the one that is judged
	if len(task.Hist) > 0 {
		var lastOp c18Op
		_ = json.Unmarshal(task.Hist[len(task.Hist)-1], &lastOp)
		if lastOp.K != "run" {
			if lastOp.K == "runfail" {
				p.Batch = 1
			}
			if err := c.setBatch(p.Batch); err != nil {
				res.HarnessEr = err.Error()
				return
			}
			if herr := c.runToFixpoint(true, fmt.Sprintf("final catch-up with batch size %d", p.Batch)); herr != "" {
				res.HarnessEr = herr
				return
			}
		}
	}
	var ids []string
	for _, ds := range p.Shape.datasets() {
		ids = append(ids, c18IDs(ds)...)
	}
	res.Key = h.Canon(ids, p.Shape.datasets(), hidden)
	if n := len(task.Hist); n > 0 {
		var lo c18Op
		_ = json.Unmarshal(task.Hist[n-1], &lo)
		if lo.K == "restart" {
			res.Key += "|just-restarted"
		}
	}
	res.Viol = c.chk.Viol
	res.Checks = c.chk.Checks
	res.Outcome = res.Key[:8]
	return
}

func init() {
	engine.RegisterWorker("c18", func(args []string) {
		defer jDestroyWorld()
		engine.ServeWorker(func(task []byte) interface{} {
			var t engine.SeqTask
			if err := json.Unmarshal(task, &t); err != nil {
				return engine.SeqResult{HarnessEr: err.Error()}
			}
			return c18Replay(t)
		})
	})
	engine.RegisterWorker("replay-c18", func(args []string) {
		b, err := os.ReadFile(args[0])
		if err != nil {
			fmt.Println(err)
			os.Exit(2)
		}
		var v struct {
			Replay struct {
				Hist   []json.RawMessage `json:"hist"`
				Params json.RawMessage   `json:"params"`
			} `json:"replay"`
		}
		_ = json.Unmarshal(b, &v)
		out := os.Stdout
		res := c18Replay(engine.SeqTask{Hist: v.Replay.Hist, Params: v.Replay.Params})
		jDestroyWorld()
		o, _ := json.MarshalIndent(res, "", " ")
		fmt.Fprintln(out, string(o))
		if len(res.Viol) > 0 {
			os.Exit(1)
		}
	})
	engine.RegisterCheck("C18", func(r *engine.Run) {
		r.Rule = "SEQ: for every join shape (2 one-hop, 4 two-hop and 8 three-hop direction patterns, a path through the main dataset in the middle, a link dataset joined with itself, and two declared dependencies sharing a link dataset; declared in JSON and parsed by the real scheduler, and - to a smaller depth - registered by a javascript transform's track_queries function) and every batch size in the stated set (and, for shapes with an outgoing first hop of at most two hops, also with the source declared LatestOnly): every history up to the stated depth over {7 entity variants per dataset: property change, link to target 1/2/both/none, delete, second entity; run to fixpoint with batch size 1/2, one run whose sink rejects its 1st/2nd call, one run during which a dependency entity is rewired or changed while the sink handles its first call, a hub restart (the job object is otherwise kept from run to run)} starting from a populated graph on which the job has caught up (also from a graph without a single link whose join predicates nobody in the hub has used before; for shapes in which one dataset holds several join predicates also entity variants with only one of them set; and with one dependency write - property change or rewiring - landing while that first catch-up is between its pages: the entity it requires must be emitted AFTER the write); every history ends with a run-to-fixpoint (the job is run until its token stops changing) whose emitted entities (recording double around the real DevNullSink) must contain every main entity that changed, every main entity connected now through the join path to a dependency or link entity changed since the previous fixpoint, and - for a first outgoing hop - connected as of the previous fixpoint; emitted entities must be versions of main-dataset entities with the latest version among them; tokens never go back nor beyond the end. distinct = distinct canonical end states"
		r.Assumptions = []string{"entity ids are distinct per dataset (an id living in two datasets of the chain is outside)", "apart from the one dependency write injected between two pages of the first catch-up, no write happens while the job runs: the graph as it stands when the job runs is the model's current graph", "dependencies registered through track_queries (JavaScript) are exercised for every shape to a smaller depth than declared ones"}
		shapes := c18Shapes()
		type cfg struct {
			shapes  []c18Shape
			batches []int
			depth   int
			budget  time.Duration
		}
		var plan []cfg
		if r.Quick() {
			plan = []cfg{{shapes[:6], []int{1, 100}, 3, 60 * time.Second}, {shapes[6:], []int{2}, 2, 40 * time.Second}}
		} else {
			// budgets are per search and there are about two hundred searches: sized so that the tier ends within the hour
			plan = []cfg{{shapes[:6], []int{1, 100}, 4, 100 * time.Second}, {shapes[6:], []int{2}, 3, 40 * time.Second}}
		}
		// the same job declared with LatestOnly, for the shapes whose first hop is outgoing (the previous-run lookup)
		for _, s := range shapes {
			if len(s.Deps) != 1 || s.Deps[0].Joins[0].Inv || len(s.Deps[0].Joins) > 2 {
				continue
			}
			depth, budget := 3, 60*time.Second
			if !r.Quick() {
				depth, budget = 4, 90*time.Second
			}
			params, _ := json.Marshal(c18Params{Shape: s, Batch: 1, LatestOnly: true})
			var alpha []json.RawMessage
			for _, o := range c18Alphabet(s, []int{1}) {
				ob, _ := json.Marshal(o)
				alpha = append(alpha, ob)
			}
			engine.RunSeq(r, engine.SeqSpec{Name: fmt.Sprintf("c18-%s-latestonly", s.Name), WorkerArgs: []string{"worker", "c18"}, Alphabet: alpha, Params: params, Depth: depth, Budget: budget})
		}
		// the job first catches up while nobody in the hub has ever used its join predicates: links appear afterwards
		for _, s := range shapes {
			if len(s.Deps) != 1 || len(s.Deps[0].Joins) > 2 {
				continue
			}
			depth, budget := 2, 40*time.Second
			if !r.Quick() {
				depth, budget = 3, 40*time.Second
			}
			params, _ := json.Marshal(c18Params{Shape: s, Batch: 1, Fresh: true})
			var alpha []json.RawMessage
			for _, o := range c18Alphabet(s, []int{1}) {
				ob, _ := json.Marshal(o)
				alpha = append(alpha, ob)
			}
			engine.RunSeq(r, engine.SeqSpec{Name: fmt.Sprintf("c18-%s-unused-predicates", s.Name), WorkerArgs: []string{"worker", "c18"}, Alphabet: alpha, Params: params, Depth: depth, Budget: budget})
		}
		// a dataset that holds several join predicates (two declared paths from one dependency dataset): entity 1 with
		// only ONE of them set, to target 1 / target 2 - a link that exists on one path only
		for _, s := range shapes {
			var alpha []json.RawMessage
			for _, ds := range s.datasets() {
				holds := s.holds(ds)
				if len(holds) < 2 {
					continue
				}
				var preds []string
				for p := range holds {
					preds = append(preds, p)
				}
				sort.Strings(preds)
				all := map[string][]string{}
				for _, p := range preds {
					all[p] = []string{c18IDs(holds[p])[0]}
					for t := 0; t < 2; t++ {
						ob, _ := json.Marshal(c18Op{K: "w", DS: ds, ID: c18IDs(ds)[0], V: 1, Refs: map[string][]string{p: {c18IDs(holds[p])[t]}}})
						alpha = append(alpha, ob)
					}
				}
				ob, _ := json.Marshal(c18Op{K: "w", DS: ds, ID: c18IDs(ds)[0], V: 1, Refs: all})
				alpha = append(alpha, ob)
			}
			if len(alpha) == 0 {
				continue
			}
			ob, _ := json.Marshal(c18Op{K: "run", N: 1})
			alpha = append(alpha, ob)
			depth, budget := 3, 40*time.Second
			if !r.Quick() {
				depth, budget = 5, 40*time.Second
			}
			params, _ := json.Marshal(c18Params{Shape: s, Batch: 1})
			engine.RunSeq(r, engine.SeqSpec{Name: fmt.Sprintf("c18-%s-one-path-only", s.Name), WorkerArgs: []string{"worker", "c18"}, Alphabet: alpha, Params: params, Depth: depth, Budget: budget})
		}
		// the same paths registered by the transform's track_queries function instead of the job's JSON
		for si, s := range shapes {
			depth, budget := 1, 30*time.Second
			if si == 0 || s.Name == "2hop-oi" || s.Name == "shared-link" || s.Name == "two-paths-one-dep" {
				depth = 2
			}
			if !r.Quick() {
				depth, budget = depth+1, 30*time.Second
			}
			params, _ := json.Marshal(c18Params{Shape: s, Batch: 1, TQ: true})
			var alpha []json.RawMessage
			for _, o := range c18Alphabet(s, []int{1}) {
				ob, _ := json.Marshal(o)
				alpha = append(alpha, ob)
			}
			engine.RunSeq(r, engine.SeqSpec{Name: fmt.Sprintf("c18-%s-track-queries", s.Name), WorkerArgs: []string{"worker", "c18"}, Alphabet: alpha, Params: params, Depth: depth, Budget: budget})
		}
		// a dependency write that lands while the first catch-up (the fullsync) is between two pages
		for _, s := range shapes {
			seen := map[string]bool{}
			for _, d := range s.Deps {
				if seen[d.DS] {
					continue
				}
				seen[d.DS] = true
				ids := c18IDs(d.DS)
				holds := s.holds(d.DS)
				keep, rewire := map[string][]string{}, map[string][]string{}
				for pr, t := range holds {
					keep[pr] = []string{c18IDs(t)[0]}
					rewire[pr] = []string{c18IDs(t)[1]}
				}
				ws := []c18Op{{K: "w", DS: d.DS, ID: ids[0], V: 2, Refs: keep}}
				if len(holds) > 0 {
					ws = append(ws, c18Op{K: "w", DS: d.DS, ID: ids[0], V: 1, Refs: rewire})
				}
				for wi, w := range ws {
					for _, at := range []int{1, 2} {
						w := w
						depth, budget := 1, 30*time.Second
						if !r.Quick() {
							depth, budget = 2, 20*time.Second
						}
						params, _ := json.Marshal(c18Params{Shape: s, Batch: 1, InitW: &w, InitAt: at})
						var alpha []json.RawMessage
						for _, o := range c18Alphabet(s, []int{1}) {
							ob, _ := json.Marshal(o)
							alpha = append(alpha, ob)
						}
						engine.RunSeq(r, engine.SeqSpec{Name: fmt.Sprintf("c18-%s-write%d-%s-during-first-page%d", s.Name, wi, d.DS, at), WorkerArgs: []string{"worker", "c18"}, Alphabet: alpha, Params: params, Depth: depth, Budget: budget})
					}
				}
			}
		}
		for _, pc := range plan {
			for _, s := range pc.shapes {
				for _, b := range pc.batches {
					params, _ := json.Marshal(c18Params{Shape: s, Batch: b})
					var alpha []json.RawMessage
					for _, o := range c18Alphabet(s, []int{1, 2}) {
						ob, _ := json.Marshal(o)
						alpha = append(alpha, ob)
					}
					engine.RunSeq(r, engine.SeqSpec{Name: fmt.Sprintf("c18-%s-b%d", s.Name, b), WorkerArgs: []string{"worker", "c18"}, Alphabet: alpha, Params: params, Depth: pc.depth, Budget: pc.budget})
				}
			}
		}
	})
}

// c18LeftBehind: a goroutine started by MultiSource.processDependency that is still there, BLOCKED, although no run is
// under way. A goroutine that is just returning (its wait group has been released, its last deferred call is running)
// is runnable, not blocked, and gone a moment later: only one that is seen blocked in every one of several looks
// counts.
func c18LeftBehind() string {
	look := func() (string, bool) {
		buf := make([]byte, 1<<20)
		n := runtime.Stack(buf, true)
		for _, g := range strings.Split(string(buf[:n]), "\n\n") {
			if !strings.Contains(g, "MultiSource).processDependency") {
				continue
			}
			head := g
			if i := strings.Index(g, "\n"); i > 0 {
				head = g[:i]
			}
			blocked := strings.Contains(head, "[chan send") || strings.Contains(head, "[chan receive") || strings.Contains(head, "[select")
			if len(g) > 600 {
				g = g[:600]
			}
			return g, blocked
		}
		return "", false
	}
	seenBlocked := 0
	last := ""
	for i := 0; i < 150; i++ {
		g, blocked := look()
		if g == "" {
			return ""
		}
		if blocked {
			seenBlocked++
			last = g
			if seenBlocked >= 5 {
				return last
			}
		} else {
			seenBlocked = 0
		}
		time.Sleep(20 * time.Millisecond)
	}
	return ""
}
