package jobs

import (
	"encoding/json"
	"fmt"

	"github.com/mimiro-io/datahub/internal/server"
	"github.com/mimiro-io/datahub/internal/verifrt/engine"
	"github.com/mimiro-io/datahub/internal/verifrt/model"
)

func init() {
	// child side: a store with the job machinery, one job; ops: batch (source writes) and run
	server.VCrashKinds["job"] = server.CrashKind{Setup: func(dir string, spec server.CrashSpec) (func(op server.VOp) (string, error), func(), error) {
		var sp JobSpec
		if err := json.Unmarshal(spec.Extra, &sp); err != nil {
			return nil, nil, err
		}
		jw := JOpenWorld(dir)
		h := jw.W.NewHist()
		if err := h.EnsureDatasets(spec.Datasets...); err != nil {
			return nil, nil, err
		}
		for _, op := range spec.Pre {
			if err := h.ApplyWrite(op); err != nil {
				return nil, nil, err
			}
		}
		jb, _, err := jw.newJob(h, sp)
		if err != nil {
			return nil, nil, err
		}
		apply := func(op server.VOp) (string, error) {
			switch op.K {
			case "batch":
				return "", h.ApplyWrite(op)
			case "run":
				if p := runJob(jb); p != "" {
					return "", fmt.Errorf("panic: %s", p)
				}
				return "", nil
			}
			return "", fmt.Errorf("unknown op %s", op.K)
		}
		return apply, func() { jw.Runner.Stop(); jw.W.Close() }, nil
	}}

	engine.RegisterWorker("crash-job", func(args []string) {
		engine.ServeWorker(func(task []byte) interface{} {
			var spec server.CrashSpec
			if err := json.Unmarshal(task, &spec); err != nil {
				return server.CrashResult{HarnessEr: err.Error()}
			}
			var sp JobSpec
			_ = json.Unmarshal(spec.Extra, &sp)
			return server.VRunCrashTaskDir(spec, func(dir string, res *server.CrashResult) {
				jw := JOpenWorld(dir)
				defer func() { jw.Runner.Stop(); jw.W.Close() }()
				h := jw.W.NewHist()
				id := fmt.Sprintf("job-%s-1", h.Tag)
				killDesc := fmt.Sprintf("commit=%d point=%s#%d", spec.Kill.Commit, spec.Kill.Point, spec.Kill.N)
				jh := &jobHist{jw: jw, h: h, sp: sp, id: id, last: server.VOpsString(spec.Hist) + "|" + killDesc}
				res.Matched = res.Acked
				jb, err := jw.reloadJob(id)
				if err != nil {
					// the kill may have hit before the job definition was stored: only legitimate if nothing was acknowledged
					jh.fail("crash-job-lost", "after the kill the job definition is gone: "+err.Error())
					res.Viol = jh.viol
					return
				}
				jh.jb = jb
				if sp.JobType != "fullsync" {
					jh.tokenSafety("after a kill at " + killDesc)
				}
				r, p := jh.run("", 0)
				res.Checks++
				if p != "" || r.LastError != "" {
					jh.fail("crash-recovery-run-fails", fmt.Sprintf("the first run after the kill fails: %s %s", p, r.LastError))
				} else {
					jh.converged("after a kill at " + killDesc + " and one clean run")
					if sp.JobType != "fullsync" {
						jh.tokenSafety("after the recovery run")
					}
				}
				res.Viol = jh.viol
				res.Key = h.Canon([]string{"e1", "e2", "e3", "e4"}, spec.Datasets, jw.token(id))
			})
		})
	})
}

// c08CrashBases builds the crash experiments of C08.
func c08CrashBases(quick bool) []map[string]interface{} {
	pool := model.Pool(0)
	pi := func(n string) int { return model.PoolIndex(pool, n) }
	w1 := server.VOp{K: "batch", DS: "A", Ents: []server.VEnt{{ID: "e1", C: pi("v1")}, {ID: "e2", C: pi("r1")}, {ID: "e1", C: pi("dv1")}}}
	w2 := server.VOp{K: "batch", DS: "A", Ents: []server.VEnt{{ID: "e3", C: pi("v1")}, {ID: "e1", C: pi("v2")}}}
	run := server.VOp{K: "run"}
	var bases []map[string]interface{}
	add := func(sp JobSpec, hist []server.VOp) {
		b, _ := json.Marshal(sp)
		ds := append(append([]string{}, sp.Sources...), sp.Sink)
		spec := server.CrashSpec{Datasets: ds, IDs: []string{"e1", "e2", "e3"}, Hist: hist, Kind: "job", Extra: b}
		sb, _ := json.Marshal(spec)
		var m map[string]interface{}
		_ = json.Unmarshal(sb, &m)
		bases = append(bases, m)
	}
	for _, jt := range []string{"incremental", "fullsync"} {
		for _, lo := range []bool{false, true} {
			for _, b := range []int{1, 2} {
				if quick && b == 2 && lo {
					continue
				}
				add(JobSpec{Sources: []string{"A"}, LatestOnly: lo, Sink: "Z", JobType: jt, BatchSize: b}, []server.VOp{w1, run, w2, run})
			}
		}
	}
	wb := server.VOp{K: "batch", DS: "B", Ents: []server.VEnt{{ID: "e4", C: pi("v1")}}}
	add(JobSpec{Sources: []string{"A", "B"}, Union: true, Sink: "Z", JobType: "incremental", BatchSize: 1}, []server.VOp{w1, wb, run, w2, run})
	return bases
}
