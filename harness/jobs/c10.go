package jobs

import (
	"encoding/json"
	"fmt"
	"sort"
	"strings"
	"sync"
	"time"

	"github.com/mimiro-io/datahub/internal/server"
	"github.com/mimiro-io/datahub/internal/verifrt/engine"
	"github.com/mimiro-io/datahub/internal/verifrt/model"
)

// recTransform is a Transform double: records every entity it is handed and applies a shape.
type recTransform struct {
	mu          sync.Mutex
	shape       string // identity | dropeven | duplicate | createnew
	parallelism int
	seen        []string
	calls       int
	h           *server.VHist
}

func (t *recTransform) GetConfig() map[string]interface{} {
	return map[string]interface{}{"Type": "VerifRecordingTransform"}
}
func (t *recTransform) getParallelism() int          { return t.parallelism }
func (t *recTransform) EndStoreContext(string) error { return nil }
func (t *recTransform) transformEntities(runner *Runner, entities []*server.Entity, jobTag string) ([]*server.Entity, error) {
	t.mu.Lock()
	t.calls++
	for _, e := range entities {
		t.seen = append(t.seen, t.h.AbsID(e.ID))
	}
	t.mu.Unlock()
	return shapeApply(t.h, t.shape, entities), nil
}

func idNum(abs string) int {
	n := 0
	fmt.Sscanf(strings.TrimPrefix(abs, "e"), "%d", &n)
	return n
}

func shapeApply(h *server.VHist, shape string, entities []*server.Entity) []*server.Entity {
	var out []*server.Entity
	for _, e := range entities {
		switch shape {
		case "identity":
			out = append(out, e)
		case "dropeven":
			if idNum(h.AbsID(e.ID))%2 == 1 {
				out = append(out, e)
			}
		case "duplicate":
			out = append(out, e, e)
		case "createnew":
			n := server.NewEntity(h.Curie("n"+strings.TrimPrefix(h.AbsID(e.ID), "e")), 0)
			n.Properties[h.Key("from")] = h.AbsID(e.ID)
			out = append(out, n)
		}
	}
	return out
}

func shapeModel(shape string, ids []string) []string {
	var out []string
	for _, id := range ids {
		switch shape {
		case "identity", "setnested", "subentity":
			out = append(out, id)
		case "dropeven":
			if idNum(id)%2 == 1 {
				out = append(out, id)
			}
		case "duplicate":
			out = append(out, id, id)
		case "createnew":
			out = append(out, "n"+strings.TrimPrefix(id, "e"))
		}
	}
	return out
}

var jsShapes = map[string]string{
	// writes a property whose value is an array of arrays of whole numbers (goja hands them over as int64)
	"setnested": `function transform_entities(entities) { for (e of entities) { e["Properties"]["nested"] = [[1, 2], [3], []]; e["Properties"]["flat"] = [4, 5]; e["Properties"]["n"] = 7; } return entities; }`,
	// a "create entities" transform: appends one derived entity per input entity to the array it was given and returns it
	"pushderived": `function transform_entities(entities) { var n = entities.length; for (var i = 0; i < n; i++) { var e = entities[i]; var d = NewEntity(); SetId(d, GetId(e).replace(":e", ":d")); d["Properties"]["from"] = GetId(e); entities.push(d); } return entities; }`,
	// a sub-entity as a property value, built with the documented helpers
	"subentity": `function transform_entities(entities) { for (e of entities) { var s = NewEntity(); SetId(s, GetId(e) + "-sub"); SetProperty(s, "http://x/", "w", 1); e["Properties"]["sub"] = s; } return entities; }`,
	"identity":  `function transform_entities(entities) { return entities; }`,
	"dropeven":  `function transform_entities(entities) { var r = []; for (e of entities) { var id = GetId(e); var n = parseInt(id.substring(id.indexOf(":e")+2)); if (n % 2 == 1) { r.push(e); } } return r; }`,
}

// C10Config is one point of the configuration box.
type C10Config struct {
	N           int    `json:"n"`
	Batch       int    `json:"batch"`
	Parallelism int    `json:"p"`
	Pipeline    string `json:"pipeline"` // incremental | fullsync
	Shape       string `json:"shape"`
	JS          bool   `json:"js"`
	// Rewrite: after the n entities, entity number Rewrite-1 is written again with another content (0 = not): the
	// source's change log then holds two versions of it, the second one in the last (short) batch
	Rewrite int `json:"rewrite,omitempty"`
}

func (c C10Config) String() string {
	s := fmt.Sprintf("n=%d batch=%d parallelism=%d pipeline=%s transform=%s js=%v", c.N, c.Batch, c.Parallelism, c.Pipeline, c.Shape, c.JS)
	if c.Rewrite > 0 {
		s += fmt.Sprintf(" rewrittenAtTheEnd=e%d", c.Rewrite-1)
	}
	return s
}

type c10Out struct {
	Evaluations int                `json:"evaluations"`
	Viol        []engine.Violation `json:"viol"`
	Outcomes    []string           `json:"outcomes"`
	HarnessEr   string             `json:"harness_error,omitempty"`
}

// c10Run evaluates one configuration on fresh datasets of the worker's world.
func c10Run(cfg C10Config) (viol []engine.Violation, outcome string, herr string) {
	jw := jWorld()
	h := jw.W.NewHist()
	fail := func(clause, what string) {
		viol = append(viol, engine.Violation{Key: "C10:" + clause + "|" + cfg.String(), What: cfg.String() + ": " + what})
	}
	defer func() {
		if r := recover(); r != nil {
			fail("harness-panic", fmt.Sprintf("panic: %v", r))
			jWorkerWorld = nil
		}
	}()
	if err := h.EnsureDatasets("S", "Z"); err != nil {
		return nil, "", err.Error()
	}
	var ents []server.VEnt
	var ids []string
	pool := model.Pool(0)
	for i := 0; i < cfg.N; i++ {
		id := fmt.Sprintf("e%d", i)
		ids = append(ids, id)
		ents = append(ents, server.VEnt{ID: id, C: model.PoolIndex(pool, []string{"v1", "v2", "s"}[i%3])})
	}
	if cfg.N > 0 {
		if err := h.ApplyWrite(server.VOp{K: "batch", DS: "S", Ents: ents}); err != nil {
			return nil, "", err.Error()
		}
	}
	if cfg.Rewrite > 0 && cfg.Rewrite <= cfg.N {
		i := cfg.Rewrite - 1
		if err := h.ApplyWrite(server.VOp{K: "batch", DS: "S", Ents: []server.VEnt{{ID: ids[i], C: model.PoolIndex(pool, []string{"v1", "v2", "s"}[(i+1)%3])}}}); err != nil {
			return nil, "", err.Error()
		}
		ids = append(ids, ids[i]) // the change log: every entity once, then the rewritten one again
	}
	occurs := map[string]int{}
	for _, id := range ids {
		occurs[id]++
	}
	sp := JobSpec{Sources: []string{"S"}, Sink: "Z", JobType: cfg.Pipeline, BatchSize: cfg.Batch}
	if cfg.JS {
		sp.JS = jsShapes[cfg.Shape]
		sp.Parallelism = cfg.Parallelism
		sp.ParallelismGiven = cfg.Parallelism < 1
	}
	jb, jc, err := jw.newJob(h, sp)
	if err != nil {
		return nil, "", "newJob: " + err.Error()
	}
	var rec *recTransform
	if !cfg.JS {
		rec = &recTransform{shape: cfg.Shape, parallelism: cfg.Parallelism, h: h}
		jb.pipeline.spec().transform = rec
	}
	sinkFeed := func() []string {
		ds := jw.W.Dsm.GetDataset(h.DsName("Z"))
		ch, err := ds.GetChanges(0, 0, false)
		if err != nil {
			return []string{"error:" + err.Error()}
		}
		var l []string
		for _, e := range ch.Entities {
			l = append(l, h.AbsID(e.ID))
		}
		return l
	}
	if p := runJob(jb); p != "" {
		fail("run-panics", "the run panics: "+p)
		return viol, "panic", ""
	}
	res := jw.lastResult(jc.ID)
	if res.LastError != "" {
		fail("run-fails", "the run fails: "+res.LastError)
	}
	// every source entity reaches the transform exactly once
	if rec != nil {
		cnt := map[string]int{}
		for _, id := range rec.seen {
			cnt[id]++
		}
		for _, id := range ids {
			if cnt[id] != occurs[id] {
				fail("transform-once", fmt.Sprintf("source entity %s was passed to the transform %d times (want once per change: %d); transform saw %v", id, cnt[id], occurs[id], rec.seen))
				break
			}
		}
		if len(rec.seen) != len(ids) {
			fail("transform-count", fmt.Sprintf("the transform saw %d entities, the source has %d", len(rec.seen), len(ids)))
		}
	}
	// everything the transform returns reaches the sink, in source order
	want := shapeModel(cfg.Shape, ids)
	// the sink stores one version per non-identical write: duplicates collapse
	var wantFeed []string
	seenDup := map[string]bool{}
	for _, id := range want {
		if cfg.Shape == "duplicate" {
			if seenDup[id] {
				continue
			}
			seenDup[id] = true
		}
		wantFeed = append(wantFeed, id)
	}
	got := sinkFeed()
	if cfg.Shape == "pushderived" {
		// originals and one derived entity each, every one exactly once (the order depends on how a batch is chunked)
		cnt := map[string]int{}
		for _, id := range got {
			cnt[id]++
		}
		bad := len(got) != 2*len(ids)
		for _, id := range ids {
			if cnt[id] != 1 || cnt["d"+strings.TrimPrefix(id, "e")] != 1 {
				bad = true
			}
		}
		if bad {
			fail("sink-set", fmt.Sprintf("sink received %v, want every source entity and its derived entity exactly once", got))
		}
	} else if strings.Join(got, ",") != strings.Join(wantFeed, ",") {
		fail("sink-order", fmt.Sprintf("sink received %v, want %v (transform output in source order)", got, wantFeed))
	}
	// identity = plain copy
	if cfg.Shape == "identity" {
		src := jw.W.Dsm.GetDataset(h.DsName("S"))
		snk := jw.W.Dsm.GetDataset(h.DsName("Z"))
		a, _ := src.GetEntities("", -1)
		b, _ := snk.GetEntities("", -1)
		view := func(r *server.EntitiesResult) string {
			var l []string
			for _, e := range r.Entities {
				l = append(l, h.AbsID(e.ID)+"="+h.AbsContent(e).String())
			}
			sort.Strings(l)
			return strings.Join(l, " ")
		}
		if view(a) != view(b) {
			fail("identity-copy", fmt.Sprintf("with an identity transform the sink view %s differs from the source view %s", view(b), view(a)))
		}
	}
	// running again produces no new changes
	before := sinkFeed()
	if rec != nil {
		rec.seen = nil
	}
	if p := runJob(jb); p != "" {
		fail("rerun-panics", "the second run panics: "+p)
		return viol, "panic", ""
	}
	after := sinkFeed()
	if strings.Join(before, ",") != strings.Join(after, ",") {
		fail("rerun-changes", fmt.Sprintf("running the job again changed the sink feed from %v to %v", before, after))
	}
	calls := 0
	if rec != nil {
		calls = rec.calls
	}
	return viol, fmt.Sprintf("%d sink entries, %d transform calls", len(got), calls), ""
}

func init() {
	engine.RegisterWorker("c10", func(args []string) {
		defer jDestroyWorld()
		engine.ServeWorker(func(task []byte) interface{} {
			var cfgs []C10Config
			if err := json.Unmarshal(task, &cfgs); err != nil {
				return c10Out{HarnessEr: err.Error()}
			}
			var out c10Out
			for _, c := range cfgs {
				v, o, herr := c10Run(c)
				out.Evaluations++
				out.Viol = append(out.Viol, v...)
				out.Outcomes = append(out.Outcomes, o)
				if herr != "" {
					out.HarnessEr = herr
				}
			}
			return out
		})
	})

	engine.RegisterCheck("C10", func(r *engine.Run) {
		r.Rule = "ENUM: every (entity count n, batch size, parallelism) in the stated box x {incremental, fullsync} x transform shape {identity, drop, duplicate, create} with a recording Transform double on the real pipeline/source/sink, plus the real JavascriptTransform (identity, filter, and a transform that appends derived entities to its input array) on a sub-box; each configuration is one execution judged by: every source entity handed to the transform exactly once, sink feed = transform output in source order, identity = plain copy, second run adds nothing, no panic. distinct = distinct (configuration outcome) digests"
		r.Assumptions = []string{"worker goroutines of the incremental pipeline run under the Go scheduler (results are merged by worker index, so the outcome is schedule independent)", "larger values than the box are outside (no sampling)"}
		maxN, maxB, maxP := 24, 25, 12
		if !r.Quick() {
			maxN, maxB, maxP = 40, 41, 16
		}
		var cfgs []C10Config
		for _, pl := range []string{"incremental", "fullsync"} {
			for _, shape := range []string{"identity", "dropeven", "duplicate", "createnew"} {
				for n := 0; n <= maxN; n++ {
					for b := 1; b <= maxB; b++ {
						for p := 1; p <= maxP; p++ {
							if pl == "fullsync" && p > 1 {
								continue // the fullsync pipeline has no parallel transform stage
							}
							if shape != "identity" && (n > 12 || b > 13 || p > 6) && r.Quick() {
								continue
							}
							if shape != "identity" && !r.Quick() && (n > 20 || b > 21 || p > 8) {
								continue
							}
							cfgs = append(cfgs, C10Config{N: n, Batch: b, Parallelism: p, Pipeline: pl, Shape: shape})
						}
					}
				}
			}
		}
		// real JavascriptTransform sub-box
		jsN, jsB, jsP := 7, 4, 4
		if !r.Quick() {
			jsN, jsB, jsP = 12, 7, 6
		}
		for _, shape := range []string{"identity", "dropeven", "pushderived", "setnested"} {
			for n := 0; n <= jsN; n++ {
				for b := 1; b <= jsB; b++ {
					for p := 1; p <= jsP; p++ {
						cfgs = append(cfgs, C10Config{N: n, Batch: b, Parallelism: p, Pipeline: "incremental", Shape: shape, JS: true})
					}
				}
			}
		}
		// "Parallelism" values the scheduler accepts although nobody should give them
		for _, pv := range []int{0, -1} {
			for n := 0; n <= 5; n++ {
				for b := 1; b <= 3; b++ {
					cfgs = append(cfgs, C10Config{N: n, Batch: b, Parallelism: pv, Pipeline: "incremental", Shape: "identity", JS: true})
				}
			}
		}
		// two versions of one entity in the change log, the second in a last, shorter batch (state a run carries from
		// one batch to the next shows when the sink ends on the older version)
		for _, js := range []bool{false, true} {
			for n := 2; n <= 7; n++ {
				for b := 2; b <= 5; b++ {
					for p := 2; p <= 4; p++ {
						for rw := 1; rw <= n; rw++ {
							cfgs = append(cfgs, C10Config{N: n, Batch: b, Parallelism: p, Pipeline: "incremental", Shape: "identity", JS: js, Rewrite: rw})
						}
					}
				}
			}
		}
		// the same shapes in a fullsync job: its second run hands every entity to the transform and the sink again, so
		// "running it again produces no new changes" compares transform output with what was stored
		for _, shape := range []string{"identity", "dropeven", "setnested", "subentity"} {
			for n := 0; n <= 6; n++ {
				for b := 1; b <= 3; b++ {
					for p := 1; p <= 2; p++ {
						cfgs = append(cfgs, C10Config{N: n, Batch: b, Parallelism: p, Pipeline: "fullsync", Shape: shape, JS: true})
					}
				}
			}
		}
		var tasks []json.RawMessage
		chunk := 40
		for i := 0; i < len(cfgs); i += chunk {
			e := i + chunk
			if e > len(cfgs) {
				e = len(cfgs)
			}
			b, _ := json.Marshal(cfgs[i:e])
			tasks = append(tasks, b)
		}
		start := time.Now()
		pool := &engine.Pool{Args: []string{"worker", "c10"}, Timeout: 300 * time.Second}
		evals := 0
		results := pool.DoStop(tasks, func(i int, res engine.Result) bool {
			return r.ViolationCount() >= 60
		})
		for i, res := range results {
			if res.Err == "skipped" {
				continue
			}
			var out c10Out
			if res.Err != "" || json.Unmarshal(res.Out, &out) != nil {
				// a dead worker: attribute to the chunk (the process was killed by a fatal error in one of its configurations)
				r.AddViolation(engine.Violation{Key: fmt.Sprintf("C10:process-died|chunk %d", i), What: "the worker process died or hung while running configurations " + string(tasks[i])[:200] + ": " + res.Err, Engine: "ENUM:c10"})
				continue
			}
			if out.HarnessEr != "" {
				r.Cap("c10: harness error: " + out.HarnessEr)
			}
			evals += out.Evaluations
			for _, v := range out.Viol {
				v.Engine = "ENUM:c10"
				cl := v.Key
				if j := strings.Index(cl, "|"); j > 0 {
					cl = cl[j+1:]
				}
				var cfg interface{} = cl
				v.Replay = map[string]interface{}{"worker": []string{"worker", "c10"}, "config": cfg}
				r.AddViolation(v)
			}
			for _, o := range out.Outcomes {
				r.AddDistinct(o)
			}
		}
		r.Evaluations += evals
		r.States += evals
		r.Transitions += evals * 2
		r.Traces += evals
		r.AddSample(map[string]interface{}{"configuration": cfgs[len(cfgs)/3]})
		r.AddSample(map[string]interface{}{"configuration": cfgs[len(cfgs)-1]})
		r.AddPart(map[string]interface{}{"engine": "ENUM", "name": "c10-box", "configurations": len(cfgs), "evaluated": evals, "box": map[string]int{"max_n": maxN, "max_batch": maxB, "max_parallelism": maxP}, "wall_s": time.Since(start).Seconds()})
		fmt.Fprintf(os_stderr(), "[c10] %d configurations, %d evaluated (%.1fs)\n", len(cfgs), evals, time.Since(start).Seconds())
		// HTTP-typed building blocks against a real peer: pull (HttpDatasetSource), push (HttpDatasetSink), and an
		// HTTP transform endpoint that counts what it is sent (once per entity and run; first request answered 503)
		jPeerPart(r, "C10")
	})
}
