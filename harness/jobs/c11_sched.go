package jobs

import (
	"context"
	"encoding/json"
	"fmt"
	"os"
	"sort"
	"strings"
	"time"

	"github.com/mimiro-io/datahub/internal/conf"
	jobSource "github.com/mimiro-io/datahub/internal/jobs/source"
	"github.com/mimiro-io/datahub/internal/server"
	"github.com/mimiro-io/datahub/internal/verifrt/engine"
	"github.com/mimiro-io/datahub/internal/verifrt/model"
	"github.com/mimiro-io/datahub/internal/verifrt/vsync"
)

// probeSource records which job runs are active; every read is a scheduling point.
type probeSource struct {
	label  string
	jobID  string
	full   bool
	probes *probeState
	reads  int
}

type probeState struct {
	active     map[string]int
	activeFull int
	activeIncr int
	maxPerID   int
	maxFull    int
	maxIncr    int
}

func (p *probeSource) GetConfig() map[string]interface{} {
	return map[string]interface{}{"Type": "VerifProbeSource"}
}
func (p *probeSource) StartFullSync() {}
func (p *probeSource) EndFullSync()   {}
func (p *probeSource) ReadEntities(ctx context.Context, since jobSource.DatasetContinuation, batchSize int, processEntities func([]*server.Entity, jobSource.DatasetContinuation) error) error {
	st := p.probes
	st.active[p.jobID]++
	if p.full {
		st.activeFull++
	} else {
		st.activeIncr++
	}
	if st.active[p.jobID] > st.maxPerID {
		st.maxPerID = st.active[p.jobID]
	}
	if st.activeFull > st.maxFull {
		st.maxFull = st.activeFull
	}
	if st.activeIncr > st.maxIncr {
		st.maxIncr = st.activeIncr
	}
	if s := vsync.Active(); s != nil {
		s.Point("probe:running " + p.label)
	}
	err := processEntities(nil, &jobSource.StringDatasetContinuation{})
	if s := vsync.Active(); s != nil {
		s.Point("probe:leaving " + p.label)
	}
	st.active[p.jobID]--
	if p.full {
		st.activeFull--
	} else {
		st.activeIncr--
	}
	return err
}

// JobsScenario: threads of ops over a small set of jobs, pools (1,1).
type JobsScenario struct {
	Name    string     `json:"name"`
	Jobs    []string   `json:"jobs"` // job types by index: incremental | fullsync
	Threads [][]JobsOp `json:"threads"`
	// Pool: tickets per pool for this scenario (0 = the world's 1/1). With more than one ticket the pool bound
	// no longer hides a failing "one run per id" check.
	Pool int `json:"pool,omitempty"`
	// JSWorkers: the jobs get an identity javascript transform with this Parallelism and a log error handler, keep their
	// real source (dataset A with four entities, one batch): the transform workers of one batch run next to each other
	JSWorkers int `json:"js_workers,omitempty"`
	// JSThrowOn: the transform throws for the entity whose id contains this (one chunk of the batch fails)
	JSThrowOn string `json:"js_throw_on,omitempty"`
}

type JobsOp struct {
	K string `json:"k"` // run | kill | status | manual | stop
	J int    `json:"j"`
}

var c11World *JWorld

func c11GetWorld() *JWorld {
	if c11World != nil && c11World.W.Hists >= 200 {
		c11World.Destroy()
		c11World = nil
	}
	if c11World == nil {
		jSilenceStdout()
		_ = os.Setenv("JOB_FULLSYNC_RETRY_INTERVAL", "1ms")
		w := server.VOpenWorld(server.VNewScratchDir("c11"))
		w.Env.RunnerConfig = &conf.RunnerConfig{PoolIncremental: 1, PoolFull: 1, Concurrent: 0}
		c11World = &JWorld{W: w}
		c11World.start()
	}
	return c11World
}

func c11RunSched(sc *JobsScenario, prefix []int, horizon int) *vsync.Execution {
	jw := c11GetWorld()
	h := jw.W.NewHist()
	if err := h.EnsureDatasets("A", "Z"); err != nil {
		return &vsync.Execution{HarnessErr: err.Error()}
	}
	st := &probeState{active: map[string]int{}}
	var jobsL []*job
	var ids []string
	if sc.JSWorkers > 0 {
		pool := model.Pool(0)
		var ents []server.VEnt
		for i := 1; i <= 4; i++ {
			ents = append(ents, server.VEnt{ID: fmt.Sprintf("e%d", i), C: model.PoolIndex(pool, "v1")})
		}
		if err := h.ApplyWrite(server.VOp{K: "batch", DS: "A", Ents: ents}); err != nil {
			return &vsync.Execution{HarnessErr: err.Error()}
		}
	}
	for ji, jt := range sc.Jobs {
		sp := JobSpec{Sources: []string{"A"}, Sink: "Z", JobType: jt, BatchSize: 1}
		if sc.JSWorkers > 0 {
			sp.BatchSize = 4
			sp.JS = `function transform_entities(entities) { return entities; }`
			if sc.JSThrowOn != "" {
				sp.JS = `function transform_entities(entities) { for (e of entities) { if (GetId(e).indexOf("` + sc.JSThrowOn + `") >= 0) { throw "boom"; } } return entities; }`
			}
			sp.Parallelism = sc.JSWorkers
			sp.OnError = []map[string]interface{}{{"errorHandler": "log"}}
		}
		jb, jc, err := jw.newJob(h, sp)
		if err != nil {
			return &vsync.Execution{HarnessErr: "newJob: " + err.Error()}
		}
		if sc.JSWorkers > 0 {
			jobsL = append(jobsL, jb)
			ids = append(ids, jc.ID)
			continue
		}
		jb.pipeline.spec().source = &probeSource{label: fmt.Sprintf("job%d", ji), jobID: jc.ID, full: jt == "fullsync", probes: st}
		jobsL = append(jobsL, jb)
		ids = append(ids, jc.ID)
	}
	poolSize := 1
	if sc.Pool > 0 {
		poolSize = sc.Pool
		jw.Runner.raffle.ticketsFull, jw.Runner.raffle.ticketsIncr = sc.Pool, sc.Pool
		defer func() { jw.Runner.raffle.ticketsFull, jw.Runner.raffle.ticketsIncr = 1, 1 }()
	}
	fullBefore, incrBefore := jw.Runner.raffle.ticketsFull, jw.Runner.raffle.ticketsIncr
	s := vsync.NewSched(prefix, horizon)
	s.NameLock(&jw.Runner.raffle.runningMu, "raffle.runningMu")
	s.Invariant = func() string {
		if st.maxPerID > 1 {
			return "two runs of the same job id are active at the same time"
		}
		if st.maxFull > poolSize || st.maxIncr > poolSize {
			return fmt.Sprintf("more jobs active than the pools allow: fullsync %d/%d incremental %d/%d", st.maxFull, poolSize, st.maxIncr, poolSize)
		}
		return ""
	}
	statuses := []string{}
	leftBehind := 0
	var bodies []func()
	for _, th := range sc.Threads {
		th := th
		bodies = append(bodies, func() {
			for _, op := range th {
				switch op.K {
				case "run":
					jobsL[op.J].Run()
					if sc.JSWorkers > 0 {
						// the run has ended (outcome recorded, slot free): nothing it started may still be at work
						if n := s.LiveSpawned(); n > 0 {
							leftBehind = n
						}
					}
				case "kill":
					jw.Sched.KillJob(ids[op.J])
				case "status":
					l := jw.Sched.GetRunningJobs()
					var n []string
					for _, x := range l {
						n = append(n, x.JobID)
					}
					sort.Strings(n)
					statuses = append(statuses, strings.Join(n, ","))
				case "manual":
					if jw.Runner.raffle.runningJob(ids[op.J]) == nil {
						jobsL[op.J].Run()
					}
				}
			}
		})
	}
	server.VInstallHooks()
	timedOut := s.Run(bodies, nil, 30*time.Second)
	x := vsync.Collect(s, timedOut)
	if x.Fatal() || len(x.Panics) > 0 {
		return x
	}
	if len(jw.Runner.raffle.runningJobs) != 0 {
		x.Viol = append(x.Viol, "C11:slot-not-released::after all requests finished the raffle still lists running jobs")
	}
	if leftBehind > 0 {
		x.Viol = append(x.Viol, fmt.Sprintf("C11:work-outlives-run::when job.Run returned (outcome recorded, run slot released) %d goroutine(s) it had started were still at work: that work runs outside any run slot and overlaps with the next run of the same id", leftBehind))
	}
	if jw.Runner.raffle.ticketsFull != fullBefore || jw.Runner.raffle.ticketsIncr != incrBefore {
		x.Viol = append(x.Viol, fmt.Sprintf("C11:ticket-not-returned::tickets before %d/%d after %d/%d", fullBefore, incrBefore, jw.Runner.raffle.ticketsFull, jw.Runner.raffle.ticketsIncr))
	}
	x.Outcome = fmt.Sprintf("maxPerID=%d full=%d incr=%d status=%v", st.maxPerID, st.maxFull, st.maxIncr, statuses)
	return x
}

type jobsSchedTask struct {
	Scenario JobsScenario `json:"scenario"`
	Prefix   []int        `json:"prefix"`
	Want     []string     `json:"want,omitempty"`
	Root     bool         `json:"root,omitempty"`
	Bound    int          `json:"bound"`
	Horizon  int          `json:"horizon"`
	MaxExec  int          `json:"max_exec"`
	BudgetS  int          `json:"budget_s"`
	NotAfter int64        `json:"not_after,omitempty"`
}

func init() {
	engine.RegisterWorker("sched-jobs", func(args []string) {
		defer func() {
			if c11World != nil {
				c11World.Destroy()
			}
		}()
		engine.ServeWorker(func(task []byte) interface{} {
			var t jobsSchedTask
			if err := json.Unmarshal(task, &t); err != nil {
				return server.SchedResult{HarnessEr: err.Error()}
			}
			ex := &vsync.Explorer{Bound: t.Bound, MaxExec: t.MaxExec, Stats: vsync.NewStats()}
			if t.BudgetS > 0 {
				ex.Deadline = time.Now().Add(time.Duration(t.BudgetS) * time.Second)
			}
			if t.NotAfter > 0 {
				if d := time.Unix(t.NotAfter, 0); ex.Deadline.IsZero() || d.Before(ex.Deadline) {
					ex.Deadline = d
				}
			}
			var herr string
			ex.Run = func(prefix []int) *vsync.Execution {
				x := c11RunSched(&t.Scenario, prefix, t.Horizon)
				if x.HarnessErr != "" && herr == "" {
					herr = x.HarnessErr
				}
				if x.Fatal() || len(x.Panics) > 0 {
					c11World = nil
				}
				return x
			}
			res := server.SchedResult{Stats: ex.Stats}
			if t.Root {
				x, tasks := ex.RootTasks()
				res.Tasks = tasks
				res.RootLabel = x.Labels()
			} else {
				ex.Explore(t.Prefix, t.Want)
			}
			res.Fatal = ex.FatalSeen
			res.HarnessEr = herr
			if ex.FatalSeen {
				defer func() { go func() { time.Sleep(200 * time.Millisecond); os.Exit(0) }() }()
			}
			return res
		})
	})
}

func c11Sched(r *engine.Run) {
	scs := []JobsScenario{
		{Name: "J1-same-job-twice", Jobs: []string{"incremental"}, Threads: [][]JobsOp{{{K: "run", J: 0}}, {{K: "run", J: 0}}}},
		{Name: "J2-two-jobs-one-ticket", Jobs: []string{"incremental", "incremental"}, Threads: [][]JobsOp{{{K: "run", J: 0}}, {{K: "run", J: 1}}}},
		{Name: "J3-run-vs-kill-vs-status", Jobs: []string{"incremental"}, Threads: [][]JobsOp{{{K: "run", J: 0}}, {{K: "kill", J: 0}}, {{K: "status"}}}},
		{Name: "J4-cron-vs-manual", Jobs: []string{"incremental"}, Threads: [][]JobsOp{{{K: "run", J: 0}}, {{K: "manual", J: 0}}}},
		{Name: "J5-fullsync-twice-retry", Jobs: []string{"fullsync"}, Threads: [][]JobsOp{{{K: "run", J: 0}}, {{K: "run", J: 0}}}},
		{Name: "J9-two-fullsync-jobs-one-ticket", Jobs: []string{"fullsync", "fullsync"}, Threads: [][]JobsOp{{{K: "run", J: 0}}, {{K: "run", J: 1}, {K: "status"}}}},
		// the transform workers of one batch: a javascript transform behind the log handler's wrapper
		{Name: "J10-parallel-javascript-workers-with-log-handler", Jobs: []string{"incremental"}, JSWorkers: 2, Threads: [][]JobsOp{{{K: "run", J: 0}}}},
		// one chunk of the batch fails in the transform while the other is (or is about to be) at work; then the job runs again
		{Name: "J11-parallel-javascript-workers-one-chunk-fails", Jobs: []string{"incremental"}, JSWorkers: 2, JSThrowOn: ":e1_", Threads: [][]JobsOp{{{K: "run", J: 0}, {K: "run", J: 0}}}},
		{Name: "J12-parallel-javascript-workers-last-chunk-fails", Jobs: []string{"incremental"}, JSWorkers: 2, JSThrowOn: ":e4_", Threads: [][]JobsOp{{{K: "run", J: 0}}}},
		{Name: "J7-same-job-twice-two-tickets", Jobs: []string{"incremental"}, Pool: 2, Threads: [][]JobsOp{{{K: "run", J: 0}}, {{K: "run", J: 0}}}},
		{Name: "J8-cron-vs-manual-two-tickets", Jobs: []string{"incremental"}, Pool: 2, Threads: [][]JobsOp{{{K: "run", J: 0}}, {{K: "manual", J: 0}}}},
		{Name: "J6-incr-and-full-and-status", Jobs: []string{"incremental", "fullsync"}, Threads: [][]JobsOp{{{K: "run", J: 0}}, {{K: "run", J: 1}}, {{K: "status"}, {K: "kill", J: 1}}}},
	}
	for _, sc := range scs {
		bound := 2
		if len(sc.Threads) > 2 || strings.Contains(sc.Name, "retry") || strings.Contains(sc.Name, "J9") {
			bound = 1 // the fullsync retry loop re-queues itself while it waits: long executions
		}
		budget := 60
		if !r.Quick() {
			bound++
			budget = 600
		}
		engine.RunSched(r, engine.SchedSpec{Name: sc.Name, WorkerArgs: []string{"worker", "sched-jobs"}, Scenario: sc, Bound: bound, Horizon: 1500, BudgetS: budget})
	}
}
