package jobs

import (
	"context"
	"encoding/json"
	"errors"
	"fmt"
	"os"
	"sort"
	"strings"
	"time"

	"github.com/mimiro-io/datahub/internal/server"
	"github.com/mimiro-io/datahub/internal/verifrt/engine"
	"github.com/mimiro-io/datahub/internal/verifrt/model"
	"github.com/mimiro-io/datahub/internal/verifrt/vsync"
)

// failSink wraps the real sink: rejects a call iff the batch contains an id in F
// (permanent) or while fewer than Transient calls have been rejected (transient).
type failSink struct {
	inner     Sink
	h         *server.VHist
	F         map[string]bool
	Transient int
	rejected  int
	calls     int
	delivered []string
	onCall    func(call int) error // optional hook (kill, fail at index)
	// MaxBatch: the sink refuses every call that carries more than this many entities (0 = no limit)
	MaxBatch int
	// rejectedAlone: ids of entities the sink refused in a call that carried nothing else
	rejectedAlone map[string]int
}

func (f *failSink) noteRejected(entities []*server.Entity) {
	if len(entities) == 1 {
		if f.rejectedAlone == nil {
			f.rejectedAlone = map[string]int{}
		}
		f.rejectedAlone[f.h.AbsID(entities[0].ID)]++
	}
}

func (f *failSink) GetConfig() map[string]interface{}  { return f.inner.GetConfig() }
func (f *failSink) startFullSync(runner *Runner) error { return f.inner.startFullSync(runner) }
func (f *failSink) endFullSync(ctx context.Context, runner *Runner) error {
	return f.inner.endFullSync(ctx, runner)
}
func (f *failSink) processEntities(runner *Runner, entities []*server.Entity) error {
	f.calls++
	if f.onCall != nil {
		if err := f.onCall(f.calls); err != nil {
			return err
		}
	}
	if f.MaxBatch > 0 && len(entities) > f.MaxBatch {
		return fmt.Errorf("sink: payload of %d entities is too large", len(entities))
	}
	if f.rejected < f.Transient {
		f.rejected++
		f.noteRejected(entities)
		return errors.New("sink: transient failure")
	}
	for _, e := range entities {
		if f.F[f.h.AbsID(e.ID)] {
			f.noteRejected(entities)
			return fmt.Errorf("sink: cannot store %s", f.h.AbsID(e.ID))
		}
	}
	if err := f.inner.processEntities(runner, entities); err != nil {
		return err
	}
	for _, e := range entities {
		f.delivered = append(f.delivered, f.h.AbsID(e.ID))
	}
	return nil
}

// recHandler wraps the real failing-entity handler and records its calls.
type recHandler struct {
	inner    failingEntityHandler
	h        *server.VHist
	reported []string
}

func (r *recHandler) handleFailingEntity(runner *Runner, entity *server.Entity, jobId string) error {
	r.reported = append(r.reported, r.h.AbsID(entity.ID))
	return r.inner.handleFailingEntity(runner, entity, jobId)
}
func (r *recHandler) reset() { r.inner.reset() }

type C17Config struct {
	B         int    `json:"b"`         // batch size; the source holds 2*B entities = two batches
	F         []int  `json:"f"`         // indexes of rejected entities
	MaxItems  int    `json:"max_items"` // 0 = unlimited
	Transient int    `json:"transient"`
	Pipeline  string `json:"pipeline"`
	// Reenter: while the sink handles its k-th call, another trigger of the same job fires (job.Run is entered again;
	// it gets no ticket and is skipped). 0 = no second trigger.
	Reenter int `json:"reenter,omitempty"`
	// Batches: number of batches the source holds (0 = 2)
	Batches int `json:"batches,omitempty"`
	// MaxBatch: the sink refuses calls with more entities than this (every entity is acceptable on its own)
	MaxBatch int `json:"max_batch,omitempty"`
}

func (c C17Config) batches() int {
	if c.Batches == 0 {
		return 2
	}
	return c.Batches
}

func (c C17Config) String() string {
	s := fmt.Sprintf("batch=%d entities=%d rejected=%v maxItems=%d transientFailures=%d pipeline=%s", c.B, c.batches()*c.B, c.F, c.MaxItems, c.Transient, c.Pipeline)
	if c.Reenter > 0 {
		s += fmt.Sprintf(" secondTriggerDuringSinkCall=%d", c.Reenter)
	}
	if c.MaxBatch > 0 {
		s += fmt.Sprintf(" sinkRefusesCallsLargerThan=%d", c.MaxBatch)
	}
	return s
}

func c17Run(cfg C17Config) (viol []engine.Violation, outcome string, herr string) {
	jw := jWorld()
	h := jw.W.NewHist()
	fail := func(clause, what string) {
		viol = append(viol, engine.Violation{Key: "C17:" + clause + "|" + cfg.String(), What: cfg.String() + ": " + what})
	}
	defer func() {
		if r := recover(); r != nil {
			fail("harness-panic", fmt.Sprintf("panic: %v", r))
			jWorkerWorld = nil
		}
	}()
	if err := h.EnsureDatasets("S", "Z"); err != nil {
		return nil, "", err.Error()
	}
	pool := model.Pool(0)
	n := cfg.batches() * cfg.B
	var ids []string
	var ents []server.VEnt
	for i := 0; i < n; i++ {
		ids = append(ids, fmt.Sprintf("e%d", i))
		ents = append(ents, server.VEnt{ID: ids[i], C: model.PoolIndex(pool, "v1")})
	}
	if err := h.ApplyWrite(server.VOp{K: "batch", DS: "S", Ents: ents}); err != nil {
		return nil, "", err.Error()
	}
	sp := JobSpec{Sources: []string{"S"}, Sink: "Z", JobType: cfg.Pipeline, BatchSize: cfg.B,
		OnError: []map[string]interface{}{{"errorHandler": "log", "maxItems": cfg.MaxItems}}}
	jb, jc, err := jw.newJob(h, sp)
	if err != nil {
		return nil, "", "newJob: " + err.Error()
	}
	F := map[string]bool{}
	var fOrder []string
	for _, i := range cfg.F {
		F[ids[i]] = true
		fOrder = append(fOrder, ids[i])
	}
	fs := &failSink{inner: jb.pipeline.spec().sink, h: h, F: F, Transient: cfg.Transient, MaxBatch: cfg.MaxBatch}
	if cfg.Reenter > 0 {
		// a fullsync job that gets no ticket queues a retry after JOB_FULLSYNC_RETRY_INTERVAL of real time: keep it
		// from ever firing in this worker (it would run against a later configuration's, or a closed, store)
		_ = os.Setenv("JOB_FULLSYNC_RETRY_INTERVAL", "48h")
		entered := false
		fs.onCall = func(call int) error {
			if call == cfg.Reenter && !entered {
				entered = true
				jb.Run() // a cron tick / change event for the same job while it is running: must be a no-op
			}
			return nil
		}
	}
	jb.pipeline.spec().sink = fs
	var rec *recHandler
	for _, eh := range jb.errorHandlers {
		if eh.failingEntityHandler != nil {
			rec = &recHandler{inner: eh.failingEntityHandler, h: h}
			eh.failingEntityHandler = rec
		}
	}
	if rec == nil {
		return nil, "", "no failing-entity handler was attached by the scheduler"
	}
	if p := runJob(jb); p != "" {
		fail("run-panics", "the run panics: "+p)
		return viol, "panic", ""
	}
	res := jw.lastResult(jc.ID)
	delivered := map[string]int{}
	for _, id := range fs.delivered {
		delivered[id]++
	}
	reported := map[string]int{}
	for _, id := range rec.reported {
		reported[id]++
	}
	// the stopping point: the maxItems-th rejected entity in source order
	stopIdx := n // index after which nothing may be delivered
	stopped := false
	if cfg.Transient == 0 && cfg.MaxItems > 0 && len(cfg.F) >= cfg.MaxItems {
		sorted := append([]int{}, cfg.F...)
		sort.Ints(sorted)
		stopIdx = sorted[cfg.MaxItems-1]
		stopped = true
	}
	if cfg.Transient == 0 {
		for i, id := range ids {
			switch {
			case F[id]:
				if delivered[id] != 0 {
					fail("rejected-delivered", "rejected entity "+id+" was delivered")
				}
				want := 1
				if i > stopIdx {
					want = 0
				}
				if reported[id] != want && !(i > stopIdx) {
					fail("reported-once", fmt.Sprintf("rejected entity %s was reported to the handler %d times (want exactly once); reported=%v", id, reported[id], rec.reported))
				}
				if i > stopIdx && reported[id] > 0 {
					fail("reported-after-stop", fmt.Sprintf("entity %s was reported although the run had to stop at the %d-th rejection", id, cfg.MaxItems))
				}
			case i < stopIdx:
				if delivered[id] != 1 {
					fail("others-delivered", fmt.Sprintf("entity %s is not rejected and lies before the stopping point but was delivered %d times; delivered=%v reported=%v", id, delivered[id], fs.delivered, rec.reported))
				}
			case i > stopIdx && stopped:
				if delivered[id] != 0 {
					fail("delivered-after-stop", fmt.Sprintf("entity %s was delivered after the run had to stop at the %d-th rejection (%s)", id, cfg.MaxItems, ids[stopIdx]))
				}
			}
		}
		if len(cfg.F) > 0 && res.LastError == "" {
			fail("outcome-error", fmt.Sprintf("entities %v were rejected but the recorded run result carries no error", fOrder))
		}
		if len(cfg.F) == 0 && res.LastError != "" {
			fail("outcome-clean", "nothing was rejected but the recorded run result carries the error "+res.LastError)
		}
	} else {
		// transient: every entity is either delivered once or reported once
		for _, id := range ids {
			if delivered[id]+reported[id] != 1 && !(cfg.MaxItems > 0 && len(rec.reported) >= cfg.MaxItems) {
				fail("transient-once", fmt.Sprintf("entity %s: delivered %d times, reported %d times (want exactly one of them once)", id, delivered[id], reported[id]))
			}
			if delivered[id] > 1 {
				fail("transient-twice", fmt.Sprintf("entity %s was delivered %d times", id, delivered[id]))
			}
		}
	}
	// an entity is only ever reported after the sink refused it on its own (a call carrying nothing else)
	for _, id := range ids {
		if reported[id] > 0 && fs.rejectedAlone[id] == 0 {
			fail("reported-without-own-rejection", fmt.Sprintf("entity %s was handed to the failing-entity handler although the sink never refused a call that carried only it (delivered=%v reported=%v)", id, fs.delivered, rec.reported))
		}
	}
	outcome = fmt.Sprintf("delivered=%d reported=%d error=%v", len(fs.delivered), len(rec.reported), res.LastError != "")
	return
}

// C17Two: one job with two triggers of the same job type, each with its own onError list; the triggers fire one after
// the other (never overlapping) on the job objects the hub holds. Every run must follow the handlers of the trigger
// that fired.
type C17Two struct {
	B        int    `json:"b"`
	F        []int  `json:"f"`
	M        [2]int `json:"m"`     // maxItems of the log handler of trigger 0 / 1; -1 = the trigger has no log handler
	Order    []int  `json:"order"` // which trigger fires, in this order
	Pipeline string `json:"pipeline"`
	Restart  bool   `json:"restart,omitempty"` // the hub is restarted between AddJob and the first firing
}

func (c C17Two) String() string {
	return fmt.Sprintf("twoTriggers batch=%d entities=%d rejected=%v maxItems=%v firing=%v pipeline=%s restart=%v", c.B, 2*c.B, c.F, c.M, c.Order, c.Pipeline, c.Restart)
}

func c17TwoRun(cfg C17Two) (viol []engine.Violation, outcome string, herr string) {
	jw := jWorld()
	h := jw.W.NewHist()
	fail := func(clause, what string) {
		viol = append(viol, engine.Violation{Key: "C17:two:" + clause + "|" + cfg.String(), What: cfg.String() + ": " + what})
	}
	defer func() {
		if r := recover(); r != nil {
			fail("harness-panic", fmt.Sprintf("panic: %v", r))
			jWorkerWorld = nil
		}
	}()
	if err := h.EnsureDatasets("S", "Z"); err != nil {
		return nil, "", err.Error()
	}
	pool := model.Pool(0)
	n := 2 * cfg.B
	var ids []string
	var ents []server.VEnt
	for i := 0; i < n; i++ {
		ids = append(ids, fmt.Sprintf("e%d", i))
		ents = append(ents, server.VEnt{ID: ids[i], C: model.PoolIndex(pool, "v1")})
	}
	if err := h.ApplyWrite(server.VOp{K: "batch", DS: "S", Ents: ents}); err != nil {
		return nil, "", err.Error()
	}
	on := func(m int) []map[string]interface{} {
		if m < 0 {
			return nil
		}
		return []map[string]interface{}{{"errorHandler": "log", "maxItems": m}}
	}
	sp := JobSpec{Sources: []string{"S"}, Sink: "Z", JobType: cfg.Pipeline, BatchSize: cfg.B, OnError: on(cfg.M[0]), Same: true, OnError2: on(cfg.M[1]), Live: true}
	_, jc, err := jw.newJob(h, sp)
	if err != nil {
		return nil, "", "newJob: " + err.Error()
	}
	if cfg.Restart {
		jw.Restart()
	}
	held := jw.heldJobs(jc.ID)
	if len(held) != 2 {
		return nil, "", fmt.Sprintf("the hub's cron holds %d job objects for a job with two triggers", len(held))
	}
	F := map[string]bool{}
	for _, i := range cfg.F {
		F[ids[i]] = true
	}
	sorted := append([]int{}, cfg.F...)
	sort.Ints(sorted)
	fs := &failSink{inner: held[0].pipeline.spec().sink, h: h, F: F}
	recs := [2]*recHandler{}
	for t, jb := range held {
		if _, already := jb.pipeline.spec().sink.(*failSink); !already {
			jb.pipeline.spec().sink = fs
		}
		for _, eh := range jb.errorHandlers {
			if eh.Type == ErrorHandlerLog {
				if eh.failingEntityHandler == nil {
					fail("handler-missing", fmt.Sprintf("trigger %d has a log error handler configured but the job object the hub holds carries none", t))
					return viol, "no-handler", ""
				}
				recs[t] = &recHandler{inner: eh.failingEntityHandler, h: h}
				eh.failingEntityHandler = recs[t]
			}
		}
		if (recs[t] != nil) != (cfg.M[t] >= 0) {
			return nil, "", fmt.Sprintf("trigger %d: log handler configured=%v attached=%v", t, cfg.M[t] >= 0, recs[t] != nil)
		}
	}
	for k, t := range cfg.Order {
		fs.delivered, fs.calls = nil, 0
		fs.rejectedAlone = nil
		for _, r := range recs {
			if r != nil {
				r.reported = nil
			}
		}
		if cfg.Pipeline == "incremental" {
			_ = jw.Sched.ResetJob(jc.ID, "")
		}
		where := fmt.Sprintf("firing %d (trigger %d, maxItems %d)", k+1, t, cfg.M[t])
		if p := runJob(held[t]); p != "" {
			fail("run-panics", where+" panics: "+p)
			return viol, "panic", ""
		}
		res := jw.lastResult(jc.ID)
		delivered := map[string]int{}
		for _, id := range fs.delivered {
			delivered[id]++
		}
		other := recs[1-t]
		if other != nil && len(other.reported) > 0 {
			fail("reported-to-other-trigger", fmt.Sprintf("%s: the handler of the other trigger was handed %v", where, other.reported))
		}
		if len(cfg.F) > 0 && res.LastError == "" {
			fail("outcome-error", where+": entities were rejected but the recorded run result carries no error")
		}
		if len(cfg.F) == 0 && res.LastError != "" {
			fail("outcome-clean", where+": nothing was rejected but the recorded run result carries the error "+res.LastError)
		}
		if cfg.M[t] < 0 {
			// no log handler: the first refused batch ends the run; nothing of it or after it is delivered
			if len(sorted) > 0 {
				firstBad := sorted[0] / cfg.B * cfg.B
				for i, id := range ids {
					if i >= firstBad && delivered[id] != 0 {
						fail("plain-delivers-after-failure", fmt.Sprintf("%s: the trigger has no log handler, the batch starting at e%d is refused, yet %s was delivered (delivered=%v)", where, firstBad, id, fs.delivered))
					}
					if i < firstBad && delivered[id] != 1 {
						fail("others-delivered", fmt.Sprintf("%s: entity %s precedes the refused batch but was delivered %d times", where, id, delivered[id]))
					}
				}
			} else {
				for _, id := range ids {
					if delivered[id] != 1 {
						fail("others-delivered", fmt.Sprintf("%s: nothing is rejected but %s was delivered %d times", where, id, delivered[id]))
					}
				}
			}
			continue
		}
		reported := map[string]int{}
		for _, id := range recs[t].reported {
			reported[id]++
		}
		stopIdx, stopped := n, false
		if cfg.M[t] > 0 && len(sorted) >= cfg.M[t] {
			stopIdx, stopped = sorted[cfg.M[t]-1], true
		}
		for i, id := range ids {
			switch {
			case F[id]:
				if delivered[id] != 0 {
					fail("rejected-delivered", where+": rejected entity "+id+" was delivered")
				}
				if i <= stopIdx && reported[id] != 1 {
					fail("reported-once", fmt.Sprintf("%s: rejected entity %s was reported to the trigger's handler %d times (want exactly once); reported=%v", where, id, reported[id], recs[t].reported))
				}
				if i > stopIdx && reported[id] > 0 {
					fail("reported-after-stop", fmt.Sprintf("%s: entity %s was reported although the run had to stop at the %d-th rejection", where, id, cfg.M[t]))
				}
			case i < stopIdx:
				if delivered[id] != 1 {
					fail("others-delivered", fmt.Sprintf("%s: entity %s is not rejected and lies before the stopping point but was delivered %d times; delivered=%v reported=%v", where, id, delivered[id], fs.delivered, recs[t].reported))
				}
			case i > stopIdx && stopped:
				if delivered[id] != 0 {
					fail("delivered-after-stop", fmt.Sprintf("%s: entity %s was delivered after the run had to stop at the %d-th rejection (%s)", where, id, cfg.M[t], ids[stopIdx]))
				}
			}
		}
		outcome += fmt.Sprintf("t%d:delivered=%d reported=%d error=%v ", t, len(fs.delivered), len(recs[t].reported), res.LastError != "")
	}
	return
}

// C17Rerun: one reRun configuration: outcomes of consecutive attempts.
type C17Rerun struct {
	MaxRetries int      `json:"max_retries"`
	Delay      int      `json:"delay"`
	Attempts   []string `json:"attempts"` // fail | ok | kill, outcome of attempt k (last one repeats)
	WithLog    bool     `json:"with_log"`
	// Triggers: number of triggers that fire one after the other before any re-run timer does (0 = 1)
	Triggers int    `json:"triggers,omitempty"`
	Pipeline string `json:"pipeline,omitempty"` // "" = incremental
	// Restarts: the hub is stopped and started this many times between adding the job and its first trigger
	Restarts int `json:"restarts,omitempty"`
}

func (c C17Rerun) String() string {
	s := fmt.Sprintf("reRun maxRetries=%d retryDelay=%ds attempts=%v log=%v", c.MaxRetries, c.Delay, c.Attempts, c.WithLog)
	if c.Triggers > 1 {
		s += fmt.Sprintf(" triggersBeforeTimers=%d", c.Triggers)
	}
	if c.Pipeline != "" {
		s += " pipeline=" + c.Pipeline
	}
	if c.Restarts > 0 {
		s += fmt.Sprintf(" hubRestartsAfterAddJob=%d", c.Restarts)
	}
	return s
}

func c17RerunRun(cfg C17Rerun) (viol []engine.Violation, outcome string, herr string) {
	jw := jWorld()
	h := jw.W.NewHist()
	fail := func(clause, what string) {
		viol = append(viol, engine.Violation{Key: "C17:" + clause + "|" + cfg.String(), What: cfg.String() + ": " + what})
	}
	if err := h.EnsureDatasets("S", "Z"); err != nil {
		return nil, "", err.Error()
	}
	pool := model.Pool(0)
	if err := h.ApplyWrite(server.VOp{K: "batch", DS: "S", Ents: []server.VEnt{{ID: "e0", C: model.PoolIndex(pool, "v1")}, {ID: "e1", C: model.PoolIndex(pool, "v1")}, {ID: "e2", C: model.PoolIndex(pool, "v1")}}}); err != nil {
		return nil, "", err.Error()
	}
	on := []map[string]interface{}{{"errorHandler": "reRun", "maxRetries": cfg.MaxRetries, "retryDelay": cfg.Delay}}
	if cfg.WithLog {
		on = append(on, map[string]interface{}{"errorHandler": "log"})
	}
	jt := cfg.Pipeline
	if jt == "" {
		jt = "incremental"
	}
	jb, jc, err := jw.newJob(h, JobSpec{Sources: []string{"S"}, Sink: "Z", JobType: jt, BatchSize: 1, OnError: on})
	if err != nil {
		return nil, "", "newJob: " + err.Error()
	}
	for i := 0; i < cfg.Restarts; i++ {
		jw.Restart()
		jb, err = jw.reloadJob(jc.ID)
		if err != nil {
			fail("job-lost", "after a restart the job cannot be loaded: "+err.Error())
			return viol, "lost", ""
		}
	}
	attempt := 0
	callsBefore := 0 // sink calls made by earlier attempts
	inner := jb.pipeline.spec().sink
	fs := &failSink{inner: inner, h: h}
	fs.onCall = func(call int) error {
		kind := cfg.Attempts[len(cfg.Attempts)-1]
		if attempt-1 < len(cfg.Attempts) {
			kind = cfg.Attempts[attempt-1]
		}
		switch kind {
		case "fail":
			return errors.New("sink: down")
		case "kill":
			jw.Runner.killJob(jc.ID)
		case "rejkill":
			// the sink refuses the first entity of the run (a log handler, if there is one, takes it), and the job is
			// killed while the sink handles the second; a third is still to be read
			switch call - callsBefore {
			case 1:
				return errors.New("sink: cannot store this one")
			case 2:
				jw.Runner.killJob(jc.ID)
			}
		}
		return nil
	}
	jb.pipeline.spec().sink = fs
	cp := &countingPipeline{inner: jb.pipeline, onRun: func() { attempt++; callsBefore = fs.calls }}
	jb.pipeline = cp
	s := vsync.NewSched(nil, 4000)
	var panicked string
	triggers := cfg.Triggers
	if triggers < 1 {
		triggers = 1
	}
	body := func() {
		for i := 0; i < triggers && panicked == ""; i++ {
			panicked = runJob(jb)
		}
	}
	timedOut := s.Run([]func(){body}, []string{"trigger"}, 30*time.Second)
	if timedOut || s.Deadlock || s.HorizonHit {
		fail("rerun-hang", fmt.Sprintf("the job and its re-runs did not finish (deadlock=%v %s)", s.Deadlock, s.DeadlockInfo))
		jWorkerWorld = nil
		return viol, "hang", ""
	}
	if panicked != "" || len(s.Panics) > 0 {
		fail("rerun-panic", fmt.Sprintf("panic: %s %v", panicked, s.Panics))
		return viol, "panic", ""
	}
	totalRuns := cp.runs
	// model
	eff := cfg.MaxRetries
	if eff == 0 {
		eff = 1
	}
	// the triggers run one after the other, then the armed timers fire; every failed run arms one re-run while the
	// budget lasts (the budget belongs to the job's handler, not to a single chain of runs)
	want := triggers
	budget := eff
	pending := 0
	for k := 0; k < len(cp.outcomes); k++ {
		if k >= want {
			break
		}
		if k >= triggers {
			pending--
		}
		if cp.outcomes[k] == "fail" && budget > 0 {
			budget--
			pending++
			want++
		}
	}
	if totalRuns != want {
		fail("rerun-count", fmt.Sprintf("the job ran %d times with outcomes %v, want %d runs (one run plus a re-run after each failed run, at most %d re-runs, none after success or kill)", totalRuns, cp.outcomes, want, eff))
	}
	delay := cfg.Delay
	if delay == 0 {
		delay = 30
	}
	for _, d := range s.TimerDurations {
		if d != time.Duration(delay)*time.Second {
			fail("rerun-delay", fmt.Sprintf("a re-run was scheduled after %v, configured delay is %ds", d, delay))
		}
	}
	if len(s.TimerDurations) != totalRuns-triggers {
		fail("rerun-timers", fmt.Sprintf("%d runs but %d re-run timers", totalRuns, len(s.TimerDurations)))
	}
	return viol, fmt.Sprintf("runs=%d", totalRuns), ""
}

// countingPipeline counts the runs of a job (re-runs are started by the job itself).
type countingPipeline struct {
	inner    Pipeline
	runs     int
	onRun    func()
	outcomes []string
}

func (c *countingPipeline) sync(j *job, ctx context.Context) (int, error) {
	c.runs++
	if c.onRun != nil {
		c.onRun()
	}
	n, err := c.inner.sync(j, ctx)
	// classify the run the way its recorded outcome will: failed / killed / ok
	kind := "ok"
	if err != nil {
		kind = "fail"
		if err.Error() == "got job interrupt" {
			kind = "kill"
		}
	} else if ws, ok := c.inner.spec().sink.(*wrappedSink); ok && ws.lastError != nil {
		kind = "fail"
	}
	c.outcomes = append(c.outcomes, kind)
	return n, err
}
func (c *countingPipeline) spec() *PipelineSpec { return c.inner.spec() }
func (c *countingPipeline) isFullSync() bool    { return c.inner.isFullSync() }

func init() {
	engine.RegisterWorker("c17", func(args []string) {
		defer jDestroyWorld()
		engine.ServeWorker(func(task []byte) interface{} {
			var t struct {
				Log   []C17Config `json:"log"`
				Rerun []C17Rerun  `json:"rerun"`
				Two   []C17Two    `json:"two"`
			}
			if err := json.Unmarshal(task, &t); err != nil {
				return c10Out{HarnessEr: err.Error()}
			}
			var out c10Out
			for _, c := range t.Log {
				v, o, herr := c17Run(c)
				out.Evaluations++
				out.Viol = append(out.Viol, v...)
				out.Outcomes = append(out.Outcomes, o)
				if herr != "" {
					out.HarnessEr = herr
				}
			}
			for _, c := range t.Two {
				v, o, herr := c17TwoRun(c)
				out.Evaluations++
				out.Viol = append(out.Viol, v...)
				out.Outcomes = append(out.Outcomes, o)
				if herr != "" {
					out.HarnessEr = herr
				}
			}
			for _, c := range t.Rerun {
				v, o, herr := c17RerunRun(c)
				out.Evaluations++
				out.Viol = append(out.Viol, v...)
				out.Outcomes = append(out.Outcomes, o)
				if herr != "" {
					out.HarnessEr = herr
				}
			}
			return out
		})
	})
	_ = strings.Join
}

func subsets(n int) [][]int {
	var out [][]int
	for m := 0; m < 1<<n; m++ {
		var s []int
		for i := 0; i < n; i++ {
			if m&(1<<i) != 0 {
				s = append(s, i)
			}
		}
		out = append(out, s)
	}
	return out
}

func init() {
	engine.RegisterCheck("C17", func(r *engine.Run) {
		r.Level = "fault_enumeration"
		r.Rule = "FAULT ENUM: for every batch size b up to the bound the source holds two batches (2b entities) and EVERY subset of them is rejected (plus long runs of 12-40 batches with one rejected entity each, so that the number of bisections in one run exceeds 32) by a sink double (permanently), for every maxItems in 0..3 and both pipelines, plus transient sink failures (first r calls); real job, real wrappedSink / log handler / result recording; oracle: all other entities before the stopping point delivered exactly once, each rejected entity reported exactly once, nothing delivered or reported after the maxItems-th rejection, recorded outcome carries an error iff something was rejected. reRun: every maxRetries in 0..3 x every sequence of attempt outcomes {fail, ok, kill, one entity rejected and then a kill} up to length 4 (incremental; length 3 for fullsync jobs), timers owned by the controlled scheduler; oracle: run count, configured delay, no re-run after success or kill. Two triggers of one job type with their own onError lists (log handler with maxItems 0..2, or none; all 15 pairs), fired in 4 orders on the job objects the hub's cron holds (also after a restart), every subset of 2 or 4 entities rejected: each firing follows the handlers of the trigger that fired. distinct = distinct outcome digests"
		r.Assumptions = []string{"the sink double rejects whole calls, as a real sink does", "timers fire only when the controlled scheduler lets them (logical time)"}
		maxB := 5
		if !r.Quick() {
			maxB = 6
		}
		var logCfgs []C17Config
		for _, pl := range []string{"incremental", "fullsync"} {
			for b := 1; b <= maxB; b++ {
				if pl == "fullsync" && b > 4 && r.Quick() {
					continue
				}
				for _, f := range subsets(2 * b) {
					for _, mi := range []int{0, 1, 2, 3} {
						logCfgs = append(logCfgs, C17Config{B: b, F: f, MaxItems: mi, Pipeline: pl})
						if b <= 3 {
							// a second trigger of the same job fires while the sink handles its 2nd / 4th call
							for _, re := range []int{2, 4} {
								logCfgs = append(logCfgs, C17Config{B: b, F: f, MaxItems: mi, Pipeline: pl, Reenter: re})
							}
						}
					}
				}
				for tr := 1; tr <= 4; tr++ {
					for _, mi := range []int{0, 2} {
						logCfgs = append(logCfgs, C17Config{B: b, MaxItems: mi, Transient: tr, Pipeline: pl})
					}
				}
			}
		}
		// a sink that refuses by payload size: every entity is acceptable alone, so all are delivered and none is reported
		for _, pl := range []string{"incremental", "fullsync"} {
			for b := 2; b <= 6; b++ {
				for mb := 1; mb < b; mb++ {
					for _, f := range [][]int{nil, {0}, {b - 1}, {1, b}} {
						logCfgs = append(logCfgs, C17Config{B: b, F: f, MaxBatch: mb, Pipeline: pl})
					}
				}
			}
		}
		// long runs: many batches, each with one rejected entity (the number of bisections grows with the run)
		for _, pl := range []string{"incremental", "fullsync"} {
			for _, bb := range [][2]int{{2, 40}, {4, 20}, {8, 12}} {
				b, nb := bb[0], bb[1]
				for _, pos := range []int{0, b - 1} {
					var f []int
					for k := 0; k < nb; k++ {
						f = append(f, k*b+pos)
					}
					logCfgs = append(logCfgs, C17Config{B: b, Batches: nb, F: f, Pipeline: pl})
				}
			}
		}
		var rerun []C17Rerun
		var seqs [][]string
		var gen func(cur []string)
		gen = func(cur []string) {
			if len(cur) > 0 {
				seqs = append(seqs, append([]string{}, cur...))
			}
			if len(cur) == 4 || (len(cur) > 0 && cur[len(cur)-1] != "fail") {
				return
			}
			for _, k := range []string{"fail", "ok", "kill", "rejkill"} {
				gen(append(cur, k))
			}
		}
		gen(nil)
		for mr := 0; mr <= 3; mr++ {
			for _, sq := range seqs {
				for _, wl := range []bool{false, true} {
					rerun = append(rerun, C17Rerun{MaxRetries: mr, Delay: 7, Attempts: sq, WithLog: wl})
				}
			}
		}
		rerun = append(rerun, C17Rerun{MaxRetries: 2, Delay: 0, Attempts: []string{"fail", "fail", "fail"}})
		// the job was stored, then the hub was restarted (once, twice) before the trigger fires: same delay, same budget
		for _, rs := range []int{1, 2} {
			for _, sq := range [][]string{{"fail", "ok"}, {"fail", "fail", "fail"}} {
				rerun = append(rerun, C17Rerun{MaxRetries: 2, Delay: 7, Attempts: sq, Restarts: rs})
				rerun = append(rerun, C17Rerun{MaxRetries: 2, Delay: 0, Attempts: sq, Restarts: rs})
			}
		}
		// the same for a fullsync job
		for mr := 0; mr <= 3; mr++ {
			for _, sq := range seqs {
				if len(sq) <= 3 {
					rerun = append(rerun, C17Rerun{MaxRetries: mr, Delay: 7, Attempts: sq, Pipeline: "fullsync"})
				}
			}
		}
		// several failing triggers within one retry delay
		for mr := 1; mr <= 3; mr++ {
			for tr := 2; tr <= 3; tr++ {
				for _, sq := range [][]string{{"fail"}, {"fail", "fail", "ok"}, {"fail", "ok"}, {"ok", "fail"}} {
					rerun = append(rerun, C17Rerun{MaxRetries: mr, Delay: 7, Attempts: sq, Triggers: tr})
				}
			}
		}
		// two triggers of one job type, each with its own handlers, firing one after the other on the hub's own objects
		var two []C17Two
		for _, pl := range []string{"incremental", "fullsync"} {
			for b := 1; b <= 2; b++ {
				for _, f := range subsets(2 * b) {
					for m0 := -1; m0 <= 2; m0++ {
						for m1 := -1; m1 <= 2; m1++ {
							if m0 < 0 && m1 < 0 {
								continue
							}
							for _, ord := range [][]int{{0, 1}, {1, 0}, {0, 1, 0}, {1, 0, 1}} {
								two = append(two, C17Two{B: b, F: f, M: [2]int{m0, m1}, Order: ord, Pipeline: pl})
								if b == 1 && len(ord) == 2 {
									two = append(two, C17Two{B: b, F: f, M: [2]int{m0, m1}, Order: ord, Pipeline: pl, Restart: true})
								}
							}
						}
					}
				}
			}
		}
		var tasks []json.RawMessage
		for i := 0; i < len(two); i += 40 {
			e := i + 40
			if e > len(two) {
				e = len(two)
			}
			b, _ := json.Marshal(map[string]interface{}{"two": two[i:e]})
			tasks = append(tasks, b)
		}
		for i := 0; i < len(logCfgs); i += 60 {
			e := i + 60
			if e > len(logCfgs) {
				e = len(logCfgs)
			}
			b, _ := json.Marshal(map[string]interface{}{"log": logCfgs[i:e]})
			tasks = append(tasks, b)
		}
		for i := 0; i < len(rerun); i += 20 {
			e := i + 20
			if e > len(rerun) {
				e = len(rerun)
			}
			b, _ := json.Marshal(map[string]interface{}{"rerun": rerun[i:e]})
			tasks = append(tasks, b)
		}
		start := time.Now()
		pool := &engine.Pool{Args: []string{"worker", "c17"}, Timeout: 300 * time.Second}
		evals := 0
		results := pool.DoStop(tasks, func(i int, res engine.Result) bool { return r.ViolationCount() >= 80 })
		for i, res := range results {
			if res.Err == "skipped" {
				continue
			}
			var out c10Out
			if res.Err != "" || json.Unmarshal(res.Out, &out) != nil {
				r.AddViolation(engine.Violation{Key: fmt.Sprintf("C17:process-died|chunk %d", i), What: "the worker process died or hung while running " + string(tasks[i])[:200] + ": " + res.Err, Engine: "ENUM:c17"})
				continue
			}
			if out.HarnessEr != "" {
				r.Cap("c17: harness error: " + out.HarnessEr)
			}
			evals += out.Evaluations
			for _, v := range out.Viol {
				v.Engine = "ENUM:c17"
				r.AddViolation(v)
			}
			for _, o := range out.Outcomes {
				r.AddDistinct(o)
			}
		}
		r.Evaluations += evals
		r.AddSample(map[string]interface{}{"log_handler_configuration": logCfgs[len(logCfgs)/2]})
		r.AddSample(map[string]interface{}{"rerun_configuration": rerun[len(rerun)/2]})
		r.AddSample(map[string]interface{}{"two_trigger_configuration": two[len(two)/2]})
		r.AddPart(map[string]interface{}{"engine": "ENUM/FAULT", "name": "c17", "log_configurations": len(logCfgs), "rerun_configurations": len(rerun), "two_trigger_configurations": len(two), "evaluated": evals, "max_batch": maxB, "wall_s": time.Since(start).Seconds()})
		fmt.Fprintf(os_stderr(), "[c17] %d log-handler configurations, %d reRun configurations, %d evaluated (%.1fs)\n", len(logCfgs), len(rerun), evals, time.Since(start).Seconds())
	})
}
