package jobs

// Verification harness for package jobs, injected by go build -overlay.

import (
	"encoding/base64"
	"encoding/json"
	"fmt"
	"github.com/mimiro-io/datahub/internal/verifrt/engine"
	"os"
	"reflect"
	"strings"
	"sync"
	"time"
	"unsafe"

	"github.com/DataDog/datadog-go/v5/statsd"
	"github.com/bamzi/jobrunner"
	"go.uber.org/zap"

	"github.com/mimiro-io/datahub/internal/conf"
	"github.com/mimiro-io/datahub/internal/security"
	"github.com/mimiro-io/datahub/internal/server"
	"github.com/mimiro-io/datahub/internal/verifrt/model"
)

// JWorld is an opened store with the job machinery on top.
type JWorld struct {
	W      *server.VWorld
	Runner *Runner
	Sched  *Scheduler
	Jobs   int
	// RestartFn / StopFn: set when the components belong to a whole hub instance (stopping and starting is its business)
	RestartFn func()
	StopFn    func()
}

var jStdoutOnce sync.Once

// jSilenceStdout: the jobrunner library prints a banner to stdout, which is the worker protocol channel.
// JSilenceStdout is jSilenceStdout for harness files of other packages.
func JSilenceStdout() { jSilenceStdout() }

func jSilenceStdout() {
	jStdoutOnce.Do(func() {
		if devNull, err := os.OpenFile("/dev/null", os.O_WRONLY, 0); err == nil {
			os.Stdout = devNull
		}
	})
}

func JOpenWorld(dir string) *JWorld { return JOpenWorldBus(dir, false) }

func JOpenWorldBus(dir string, realBus bool) *JWorld {
	jSilenceStdout()
	w := server.VOpenWorldBus(dir, realBus)
	j := &JWorld{W: w}
	j.start()
	return j
}

func (j *JWorld) start() {
	env := j.W.Env
	if env.RunnerConfig == nil {
		env.RunnerConfig = &conf.RunnerConfig{PoolIncremental: 10, PoolFull: 5, Concurrent: 0}
	}
	logger := zap.NewNop().Sugar()
	pm := security.NewProviderManager(env, j.W.Store, logger)
	tps := security.NewTokenProviders(logger, pm, nil)
	j.Runner = NewRunner(env, j.W.Store, tps, j.W.Bus, &statsd.NoOpClient{})
	j.Sched = NewScheduler(env, j.W.Store, j.W.Dsm, j.Runner)
}

func (j *JWorld) Restart() {
	if j.RestartFn != nil {
		j.RestartFn()
		return
	}
	j.Runner.Stop()
	j.W.Restart()
	j.start()
}

func (j *JWorld) Destroy() {
	if j.StopFn != nil {
		j.StopFn()
		_ = os.RemoveAll(j.W.Dir)
		return
	}
	j.Runner.Stop()
	j.W.Destroy()
}

var jWorkerWorld *JWorld
var jWorldMax = 300

func jWorld() *JWorld {
	if jWorkerWorld != nil && jWorkerWorld.W.Hists >= jWorldMax {
		jWorkerWorld.Destroy()
		jWorkerWorld = nil
	}
	if jWorkerWorld == nil {
		jWorkerWorld = JOpenWorld(server.VNewScratchDir("j"))
	}
	return jWorkerWorld
}

func jDestroyWorld() {
	if jWorkerWorld != nil {
		jWorkerWorld.Destroy()
		jWorkerWorld = nil
	}
}

// JobSpec is the harness-level description of a copy job.
type JobSpec struct {
	Sources     []string `json:"sources"` // abstract dataset names; >1 = UnionDatasetSource
	Union       bool     `json:"union,omitempty"`
	LatestOnly  bool     `json:"latest_only,omitempty"`
	Sink        string   `json:"sink"`
	JobType     string   `json:"job_type"` // incremental | fullsync
	BatchSize   int      `json:"batch_size"`
	JS          string   `json:"js,omitempty"` // javascript transform code (plain text)
	Parallelism int      `json:"parallelism,omitempty"`
	// ParallelismGiven: write the option into the definition also when it is 0 or negative
	ParallelismGiven bool                     `json:"parallelism_given,omitempty"`
	OnError          []map[string]interface{} `json:"on_error,omitempty"`
	// Mixed: the job has a second trigger of the other job type (an incremental job with a periodic fullsync,
	// both sharing the job's continuation token)
	Mixed bool `json:"mixed,omitempty"`
	// Same: the job has a second trigger of the same job type, with the error handlers OnError2
	Same     bool                     `json:"same,omitempty"`
	OnError2 []map[string]interface{} `json:"on_error2,omitempty"`
	// Live: not paused, on a schedule that never fires: the runner's cron holds the job objects
	Live bool `json:"live,omitempty"`
}

// jobConfig builds the real JobConfiguration (as JSON, parsed by the scheduler's own parser).
func (j *JWorld) jobConfig(h *server.VHist, id string, sp JobSpec) (*JobConfiguration, error) {
	var src map[string]interface{}
	if sp.Union || len(sp.Sources) > 1 {
		var l []interface{}
		for _, s := range sp.Sources {
			l = append(l, map[string]interface{}{"Name": h.DsName(s), "LatestOnly": sp.LatestOnly})
		}
		src = map[string]interface{}{"Type": "UnionDatasetSource", "DatasetSources": l}
	} else {
		src = map[string]interface{}{"Type": "DatasetSource", "Name": h.DsName(sp.Sources[0]), "LatestOnly": sp.LatestOnly}
	}
	cfg := map[string]interface{}{
		"id": id, "title": id, "paused": true, "batchSize": sp.BatchSize,
		"source":   src,
		"sink":     map[string]interface{}{"Type": "DatasetSink", "Name": h.DsName(sp.Sink)},
		"triggers": []interface{}{map[string]interface{}{"triggerType": "cron", "jobType": sp.JobType, "schedule": "0 0 1 1 *", "onError": sp.OnError}},
	}
	if sp.Mixed {
		other := "fullsync"
		if sp.JobType == "fullsync" {
			other = "incremental"
		}
		cfg["triggers"] = append(cfg["triggers"].([]interface{}), map[string]interface{}{"triggerType": "cron", "jobType": other, "schedule": "0 0 2 1 *", "onError": sp.OnError})
	}
	if sp.Same {
		cfg["triggers"] = append(cfg["triggers"].([]interface{}), map[string]interface{}{"triggerType": "cron", "jobType": sp.JobType, "schedule": "0 0 2 1 *", "onError": sp.OnError2})
	}
	if sp.Live {
		cfg["paused"] = false
		for _, t := range cfg["triggers"].([]interface{}) {
			t.(map[string]interface{})["schedule"] = jNeverSchedule
		}
	}
	if sp.JS != "" {
		tr := map[string]interface{}{"Type": "JavascriptTransform", "Code": base64.StdEncoding.EncodeToString([]byte(sp.JS))}
		if sp.Parallelism > 0 || sp.ParallelismGiven {
			tr["Parallelism"] = sp.Parallelism
		}
		cfg["transform"] = tr
	}
	b, _ := json.Marshal(cfg)
	return j.Sched.Parse(b)
}

// newJob registers the job definition with the real scheduler (paused, so the cron never fires it)
// and returns the job object the trigger would run.
func (j *JWorld) newJob(h *server.VHist, sp JobSpec) (*job, *JobConfiguration, error) {
	j.Jobs++
	id := fmt.Sprintf("job-%s-%d", h.Tag, j.Jobs)
	cfg, err := j.jobConfig(h, id, sp)
	if err != nil {
		return nil, nil, err
	}
	if err := j.Sched.AddJob(cfg); err != nil {
		return nil, cfg, err
	}
	jobs, err := j.Sched.toTriggeredJobs(cfg)
	if err != nil || len(jobs) == 0 {
		return nil, cfg, fmt.Errorf("toTriggeredJobs: %v", err)
	}
	return jobs[0], cfg, nil
}

// otherJob returns the job object of the second trigger of a Mixed job.
func (j *JWorld) otherJob(id string) (*job, error) {
	cfg, err := j.Sched.LoadJob(id)
	if err != nil || cfg.ID == "" {
		return nil, fmt.Errorf("job %s not found: %v", id, err)
	}
	jobs, err := j.Sched.toTriggeredJobs(cfg)
	if err != nil || len(jobs) < 2 {
		return nil, fmt.Errorf("toTriggeredJobs: %v (%d jobs)", err, len(jobs))
	}
	return jobs[1], nil
}

// reloadJob rebuilds the job object from the stored definition (after a restart).
func (j *JWorld) reloadJob(id string) (*job, error) {
	cfg, err := j.Sched.LoadJob(id)
	if err != nil || cfg.ID == "" {
		return nil, fmt.Errorf("job %s not found after restart: %v", id, err)
	}
	// what Scheduler.Start does with every stored job: add it again (verifies, initialises handlers, stores it)
	if err := j.Sched.AddJob(cfg); err != nil {
		return nil, fmt.Errorf("AddJob of the stored definition: %v", err)
	}
	jobs, err := j.Sched.toTriggeredJobs(cfg)
	if err != nil || len(jobs) == 0 {
		return nil, fmt.Errorf("toTriggeredJobs: %v", err)
	}
	return jobs[0], nil
}

// jNeverSchedule is a cron expression that parses and never fires (30 February).
const jNeverSchedule = "0 0 30 2 *"

// heldJobs returns the job objects the runner's cron holds for a job id: what a firing trigger runs.
func (j *JWorld) heldJobs(id string) []*job {
	var out []*job
	for _, eid := range j.Runner.scheduledJobs[id] {
		e := jobrunner.MainCron.Entry(eid)
		jr, ok := e.Job.(*jobrunner.Job)
		if !ok {
			continue
		}
		f := reflect.ValueOf(jr).Elem().FieldByName("inner")
		v := reflect.NewAt(f.Type(), unsafe.Pointer(f.UnsafeAddr())).Elem().Interface()
		if jb, ok := v.(*job); ok {
			out = append(out, jb)
		}
	}
	return out
}

func (j *JWorld) lastResult(id string) *jobResult {
	r := &jobResult{}
	_ = j.W.Store.GetObject(server.JobResultIndex, id, r)
	return r
}

func (j *JWorld) token(id string) string {
	st := &SyncJobState{}
	_ = j.W.Store.GetObject(server.JobDataIndex, id, st)
	return st.ContinuationToken
}

// runJob runs the job synchronously the way its trigger would and reports a panic as an error string.
func runJob(jb *job) (panicked string) {
	defer func() {
		if r := recover(); r != nil {
			panicked = fmt.Sprint(r)
		}
	}()
	jb.Run()
	return ""
}

var _ = model.NewWorld

func os_stderr() *os.File { return os.Stderr }

// jPeerPart runs the HTTP-peer enumeration (worker "http-peer", registered by the web harness) and adds the
// violations that belong to the given property.
func jPeerPart(r *engine.Run, prop string) {
	pl := &engine.Pool{N: 1, Args: []string{"worker", "http-peer"}, Timeout: 600 * time.Second}
	out := pl.Do([]json.RawMessage{json.RawMessage(`{}`)}, nil)
	var pr struct {
		Cases int                `json:"cases"`
		Viol  []engine.Violation `json:"viol"`
		Err   string             `json:"err"`
	}
	if out[0].Err != "" || json.Unmarshal(out[0].Out, &pr) != nil || pr.Err != "" {
		r.Cap("http-peer: " + out[0].Err + " " + pr.Err)
		return
	}
	for _, v := range pr.Viol {
		if strings.HasPrefix(v.Key, prop+":") {
			v.Replay = map[string]interface{}{"worker": []string{"worker", "http-peer"}}
			r.AddViolation(v)
		}
	}
	r.Evaluations += pr.Cases
	r.Traces += pr.Cases
	r.AddPart(map[string]interface{}{"engine": "ENUM", "name": "http-peer", "cases": pr.Cases})
}
