package server

import (
	"bytes"
	"encoding/binary"
	"fmt"
	"github.com/mimiro-io/datahub/internal/verifrt/model"

	"github.com/dgraph-io/badger/v4"
)

// VInjectDuplicate appends a legacy duplicate: a version of entity id in dataset ds that is identical in
// content to its current latest version. The write path refuses duplicates, so (like the repository's own
// compaction tests) a toggled version is stored, then the original again, and the toggled version's raw
// keys (version record, change entry, reference keys) are removed.
func (h *VHist) VInjectDuplicate(absDS, absID string) error {
	ds := h.W.Dsm.GetDataset(h.DsName(absDS))
	if ds == nil {
		return fmt.Errorf("no dataset %s", absDS)
	}
	md := h.M.Datasets[absDS]
	if md == nil || md.Latest(absID) == nil {
		return fmt.Errorf("nothing to duplicate")
	}
	cur := md.Latest(absID).C
	toggled := cur.Clone()
	toggled.Deleted = !toggled.Deleted
	if err := ds.StoreEntities([]*Entity{h.Entity(absID, toggled)}); err != nil {
		return err
	}
	orig := h.Entity(absID, cur)
	if err := ds.StoreEntities([]*Entity{orig}); err != nil {
		return err
	}
	rid := orig.InternalID
	// the toggled version is the second newest version record of (rid, ds)
	var versionKeys [][]byte
	err := h.W.Store.database.View(func(txn *badger.Txn) error {
		p := make([]byte, 14)
		binary.BigEndian.PutUint16(p, EntityIDToJSONIndexID)
		binary.BigEndian.PutUint64(p[2:], rid)
		binary.BigEndian.PutUint32(p[10:], ds.InternalID)
		opts := badger.DefaultIteratorOptions
		opts.PrefetchValues = false
		opts.Prefix = p
		it := txn.NewIterator(opts)
		defer it.Close()
		for it.Seek(p); it.ValidForPrefix(p); it.Next() {
			versionKeys = append(versionKeys, it.Item().KeyCopy(nil))
		}
		return nil
	})
	if err != nil || len(versionKeys) < 2 {
		return fmt.Errorf("harness: cannot find the toggled version (%v)", err)
	}
	tKey := versionKeys[len(versionKeys)-2]
	tTime := binary.BigEndian.Uint64(tKey[14:])
	var del [][]byte
	del = append(del, tKey)
	_ = h.W.Store.database.View(func(txn *badger.Txn) error {
		// change entry naming tKey
		p := make([]byte, 6)
		binary.BigEndian.PutUint16(p, DatasetEntityChangeLog)
		binary.BigEndian.PutUint32(p[2:], ds.InternalID)
		it := txn.NewIterator(badger.IteratorOptions{Prefix: p, PrefetchValues: true, PrefetchSize: 10})
		for it.Seek(p); it.ValidForPrefix(p); it.Next() {
			v, _ := it.Item().ValueCopy(nil)
			if bytes.Equal(v, tKey) {
				del = append(del, it.Item().KeyCopy(nil))
			}
		}
		it.Close()
		// reference keys written at the toggled version's time by this entity in this dataset
		for _, idx := range []uint16{OutgoingRefIndex, IncomingRefIndex} {
			p := make([]byte, 2)
			binary.BigEndian.PutUint16(p, idx)
			it := txn.NewIterator(badger.IteratorOptions{Prefix: p})
			for it.Seek(p); it.ValidForPrefix(p); it.Next() {
				k := it.Item().KeyCopy(nil)
				if binary.BigEndian.Uint32(k[36:]) != ds.InternalID {
					continue
				}
				var src, t uint64
				if idx == OutgoingRefIndex {
					src, t = binary.BigEndian.Uint64(k[2:]), binary.BigEndian.Uint64(k[10:])
				} else {
					src, t = binary.BigEndian.Uint64(k[10:]), binary.BigEndian.Uint64(k[18:])
				}
				if src == rid && t == tTime {
					del = append(del, k)
				}
			}
			it.Close()
		}
		return nil
	})
	err = h.W.Store.database.Update(func(txn *badger.Txn) error {
		for _, k := range del {
			if err := txn.Delete(k); err != nil {
				return err
			}
		}
		return nil
	})
	if err != nil {
		return err
	}
	h.M.ForceDup(absDS, absID)
	return nil
}

// VInjectDuplicateInBatch leaves a legacy duplicate of the latest version that shares its batch (its transaction time)
// with a further, different version of the same entity: one batch [toggled, current, next] is stored and the toggled
// version is removed raw. Only for contents without references (reference keys carry the time but not the position in
// the batch, so the toggled version's keys could not be told apart).
func (h *VHist) VInjectDuplicateInBatch(absDS, absID string, next model.Content) error {
	ds := h.W.Dsm.GetDataset(h.DsName(absDS))
	if ds == nil {
		return fmt.Errorf("no dataset %s", absDS)
	}
	md := h.M.Datasets[absDS]
	if md == nil || md.Latest(absID) == nil {
		return fmt.Errorf("nothing to duplicate")
	}
	cur := md.Latest(absID).C
	if len(cur.Refs) > 0 || len(next.Refs) > 0 || next.Equal(cur) {
		return fmt.Errorf("harness: contents with references or equal contents cannot be used here")
	}
	toggled := cur.Clone()
	toggled.Deleted = !toggled.Deleted
	orig := h.Entity(absID, cur)
	if err := ds.StoreEntities([]*Entity{h.Entity(absID, toggled), orig, h.Entity(absID, next)}); err != nil {
		return err
	}
	rid := orig.InternalID
	var versionKeys [][]byte
	err := h.W.Store.database.View(func(txn *badger.Txn) error {
		p := make([]byte, 14)
		binary.BigEndian.PutUint16(p, EntityIDToJSONIndexID)
		binary.BigEndian.PutUint64(p[2:], rid)
		binary.BigEndian.PutUint32(p[10:], ds.InternalID)
		opts := badger.DefaultIteratorOptions
		opts.PrefetchValues = false
		opts.Prefix = p
		it := txn.NewIterator(opts)
		defer it.Close()
		for it.Seek(p); it.ValidForPrefix(p); it.Next() {
			versionKeys = append(versionKeys, it.Item().KeyCopy(nil))
		}
		return nil
	})
	if err != nil || len(versionKeys) < 3 {
		return fmt.Errorf("harness: cannot find the toggled version (%v, %d versions)", err, len(versionKeys))
	}
	tKey := versionKeys[len(versionKeys)-3]
	del := [][]byte{tKey}
	_ = h.W.Store.database.View(func(txn *badger.Txn) error {
		p := make([]byte, 6)
		binary.BigEndian.PutUint16(p, DatasetEntityChangeLog)
		binary.BigEndian.PutUint32(p[2:], ds.InternalID)
		it := txn.NewIterator(badger.IteratorOptions{Prefix: p, PrefetchValues: true, PrefetchSize: 10})
		defer it.Close()
		for it.Seek(p); it.ValidForPrefix(p); it.Next() {
			v, _ := it.Item().ValueCopy(nil)
			if bytes.Equal(v, tKey) {
				del = append(del, it.Item().KeyCopy(nil))
			}
		}
		return nil
	})
	if len(del) != 2 {
		return fmt.Errorf("harness: change entry of the toggled version not found")
	}
	if err := h.W.Store.database.Update(func(txn *badger.Txn) error {
		for _, k := range del {
			if err := txn.Delete(k); err != nil {
				return err
			}
		}
		return nil
	}); err != nil {
		return err
	}
	h.M.ForceDup(absDS, absID)
	_, _ = h.M.Batch(absDS, []model.Ent{{ID: absID, C: next}})
	return nil
}
