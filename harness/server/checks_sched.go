package server

import (
	"os"
	"strings"

	"github.com/mimiro-io/datahub/internal/verifrt/engine"
	"github.com/mimiro-io/datahub/internal/verifrt/model"
)

func c05Scenarios() []SchedScenario {
	pool := model.Pool(0)
	pi := func(n string) int { return model.PoolIndex(pool, n) }
	b := func(ds string, es ...VEnt) VOp { return VOp{K: "batch", DS: ds, Ents: es} }
	e := func(id, c string) VEnt { return VEnt{ID: id, C: pi(c)} }
	txn := func(parts map[string][]VEnt) VOp { return VOp{K: "txn", Parts: parts} }
	return []SchedScenario{
		{Name: "S1-two-batches-same-ids", Datasets: vDS, IDs: vIDs,
			Threads: [][]VOp{{b("A", e("e1", "v1"), e("e2", "v1"))}, {b("A", e("e2", "v2"), e("e1", "v2"))}}},
		{Name: "S2-two-txns-same-datasets", Datasets: vDS, IDs: vIDs,
			Threads: [][]VOp{{txn(map[string][]VEnt{"A": {e("e1", "v1")}, "B": {e("e2", "v1")}})}, {txn(map[string][]VEnt{"B": {e("e2", "v2")}, "A": {e("e1", "v2")}})}}},
		{Name: "S7-txn-vs-reader", Datasets: vDS, IDs: vIDs, Pre: []VOp{b("A", e("e1", "s"))},
			Threads: [][]VOp{{txn(map[string][]VEnt{"A": {e("e1", "v1"), e("e2", "v1")}, "B": {e("e1", "r2")}})},
				{{K: "get", Ents: []VEnt{e("e1", "v1")}}, {K: "feed", DS: "A"}, {K: "list", DS: "A"}}}},
		{Name: "S8-new-uris-shared-id-txn", Datasets: vDS, IDs: vIDs,
			Threads: [][]VOp{{b("A", e("e1", "r23"))}, {b("B", e("e2", "r1")), b("B", e("e3", "v1"))}}},
		{Name: "S4-batch-vs-delete-vs-reader", Datasets: vDS, IDs: vIDs, Pre: []VOp{b("A", e("e1", "v1")), b("B", e("e1", "v2"))}, MapPoints: true,
			Threads: [][]VOp{{b("A", e("e1", "s"))}, {{K: "delete", DS: "A"}}, {{K: "get", Ents: []VEnt{e("e1", "v1")}}}}},
		{Name: "S5-batch-vs-create", Datasets: vDS, IDs: vIDs, MapPoints: true,
			Threads: [][]VOp{{b("A", e("e1", "v1"))}, {{K: "create", DS: "C"}, b("C", e("e1", "v2"))}}},
		{Name: "S6-rename-vs-batch", Datasets: vDS, IDs: vIDs, Pre: []VOp{b("A", e("e1", "v1"))}, MapPoints: true,
			Threads: [][]VOp{{{K: "rename", DS: "A", To: "A2"}}, {b("A", e("e1", "v2"))}}},
		// error paths: a transaction that names a dataset which does not exist (any more) must fail as a whole
		// and must leave nothing behind that blocks later writers
		{Name: "S10-txn-missing-dataset-then-writers", Datasets: vDS, IDs: vIDs,
			Threads: [][]VOp{{txn(map[string][]VEnt{"A": {e("e1", "v1")}, "Z": {e("e2", "v1")}}), b("A", e("e1", "v2"))}, {b("A", e("e2", "v2")), {K: "rename", DS: "A", To: "A2"}}}},
		{Name: "S11-txn-vs-delete-then-writer", Datasets: vDS, IDs: vIDs, MapPoints: true,
			Threads: [][]VOp{{txn(map[string][]VEnt{"A": {e("e1", "v1")}, "B": {e("e2", "v1")}}), b("A", e("e1", "v2"))}, {{K: "delete", DS: "B"}}}},
		{Name: "S12-rejected-batch-vs-writers-of-new-ids", Datasets: vDS, IDs: []string{"e1", "e2", "e3", "e4"},
			Threads: [][]VOp{{{K: "badbatch", DS: "B", Ents: []VEnt{e("e4", "v1")}}, {K: "get", Ents: []VEnt{e("e4", "v1")}}}, {b("A", e("e1", "r23")), {K: "get", Ents: []VEnt{e("e1", "v1")}}}}},
		{Name: "S13-public-namespaces-written-to-core.Dataset-vs-writer-of-new-ids", Datasets: vDS, IDs: vIDs,
			Threads: [][]VOp{{{K: "setns", DS: "A", N: 1}, {K: "setns", DS: "A", N: 2}}, {b("A", e("e1", "v1")), b("A", e("e2", "r1"))}}},
		{Name: "S14-create-twice-vs-writer-by-name", Datasets: vDS, IDs: vIDs, MapPoints: true,
			Threads: [][]VOp{{{K: "create", DS: "C"}, b("C", e("e1", "v1"))}, {{K: "create", DS: "C"}, {K: "getin", DS: "C", Ents: []VEnt{e("e1", "v1")}}}}},
		// a latest-only feed page (GET changes?latestOnly=true, GetDatasetChanges, LatestOnly job sources) next to a
		// batch that rewrites two of its entities: the page shows both old or both new versions
		{Name: "S17-latest-only-page-vs-batch", Datasets: vDS, IDs: vIDs, Pre: []VOp{b("A", e("e1", "v1"), e("e2", "v1"), e("e3", "v1"))},
			Threads: [][]VOp{{b("A", e("e1", "v2"), e("e2", "v2"))}, {{K: "feedlo", DS: "A"}}}},
		{Name: "S15-txn-waiting-for-a-lock-vs-batch-on-the-same-entity", Datasets: vDS, IDs: vIDs, Pre: []VOp{b("A", e("e1", "v1")), b("B", e("e1", "v1"))},
			Threads: [][]VOp{{txn(map[string][]VEnt{"A": {e("e1", "v2r2")}, "B": {e("e1", "r23")}})}, {b("B", e("e1", "s")), {K: "get", Ents: []VEnt{e("e1", "v1")}}}}},
		// a batch beyond the 16-bit boundary of the in-batch sequence number next to a reader that counts what one
		// listing call and one feed page show: nothing or everything. Only badger snapshots and commits are
		// scheduling points here (a snapshot read can only tell apart positions between commits)
		{Name: "S16-huge-batch-vs-counting-reader", Datasets: []string{"A"}, IDs: []string{"e1"}, CoarseBadger: true,
			Threads: [][]VOp{{{K: "batch", DS: "A", Ents: []VEnt{e("e1", "v1")}, N: 65600}}, {{K: "countlist", DS: "A"}, {K: "countfeed", DS: "A"}}}},
		{Name: "S9-three-writers", Datasets: vDS, IDs: vIDs,
			Threads: [][]VOp{{b("A", e("e1", "v1"))}, {b("B", e("e1", "v2"))}, {b("A", e("e1", "dv1"))}}},
	}
}

func init() {
	engine.RegisterCheck("C05", func(r *engine.Run) {
		r.Rule = "SCHED: for every scenario (2-3 client goroutines on colliding ids/datasets) every interleaving of the scheduling points (lock acquisitions, sync.Map operations, badger snapshot/commit, named hook points) with at most the stated number of preemptions is executed on the real code under a cooperative scheduler; each execution must finish (deadlock = no enabled thread), must not panic, and its results and final state must be explained by a total order of the operations consistent with each client's order (single reads must equal a prefix state); distinct = distinct final observations"
		r.Assumptions = []string{"badger transactions are linearizable; each badger call is one atomic step", "scheduling points at synchronisation operations and named points; data races elsewhere are outside (free-running -race pass not part of this check)"}
		for _, sc := range c05Scenarios() {
			if only := os.Getenv("VERIF_ONLY_SCENARIO"); only != "" && !strings.HasPrefix(sc.Name, only) {
				continue // development aid: run a single scenario
			}
			if sc.CoarseBadger && r.Quick() {
				continue // minutes of CPU: thorough tier only (the same mechanism is under C04's kill enumeration in both tiers)
			}
			bound := 2
			if len(sc.Threads) > 2 || sc.CoarseBadger {
				bound = 1
			}
			budget := 60
			if !r.Quick() {
				if !sc.CoarseBadger {
					bound++ // a coarse execution stores 65 601 entities: bound 1 is what fits
				}
				budget = 600
			}
			engine.RunSched(r, engine.SchedSpec{Name: sc.Name, WorkerArgs: []string{"worker", "sched-store"}, Scenario: sc, Bound: bound, Horizon: 1500, BudgetS: budget})
		}
		// writers next to a full sync that is being completed (requests as the HTTP handler receives them; the worker
		// is C09's): termination only - a writer and the completion must not wait for each other
		for _, fsc := range []map[string]interface{}{
			{"name": "S18-batch-vs-fullsync-completion", "allowed": []string{"*"}, "threads": [][]map[string]interface{}{
				{{"k": "start", "id": "x", "ents": []string{"e1"}}, {"k": "end", "id": "x"}}, {{"k": "batch", "ents": []string{"e2"}}}}},
			{"name": "S19-transaction-vs-fullsync-completion", "allowed": []string{"*"}, "threads": [][]map[string]interface{}{
				{{"k": "start", "id": "x", "ents": []string{"e1"}}, {"k": "end", "id": "x"}}, {{"k": "txn", "ents": []string{"e2"}}}}},
		} {
			bound, budget := 1, 60
			if !r.Quick() {
				bound, budget = 2, 150 // about half a million executions each
			}
			engine.RunSched(r, engine.SchedSpec{Name: fsc["name"].(string), WorkerArgs: []string{"worker", "sched-fullsync"}, Scenario: fsc, Bound: bound, Horizon: 2500, BudgetS: budget})
		}
	})
}
