package server

// C20 — a backup contains everything committed before it ran.
//
// SEQ: explicit-state BFS over histories of writes / dataset management / backup runs / hub restarts on
// the real store and the real BackupManager (constructed directly: its constructor needs the global
// cron; Run() is the function the cron would call). After every history that ends in a backup run the
// backup location is restored into an empty directory the documented way (native: badger Load of
// datahub-backup.kv; rsync: a copy of the mirrored tree), the hub is opened on it and every read API
// is compared with the reference model of the history prefix that was committed when the run started.
//
// ENUM: foreign backup locations (id file of another store, with and without backup data, near-miss
// ids) x mode x restart: Run must not change a single byte under the location.

import (
	"crypto/sha1"
	"encoding/hex"
	"encoding/json"
	"fmt"
	"io"
	"os"
	"os/exec"
	"path/filepath"
	"sort"
	"strings"
	"time"

	"github.com/dgraph-io/badger/v4"
	"go.uber.org/zap"

	"github.com/mimiro-io/datahub/internal/conf"
	"github.com/mimiro-io/datahub/internal/verifrt/engine"
	"github.com/mimiro-io/datahub/internal/verifrt/model"
	"github.com/mimiro-io/datahub/internal/verifrt/vsync"
)

type BackupParams struct {
	Mode string `json:"mode"` // native | rsync
	// Unsettled: rsync mode without time passing between operations (see vSettle); every mismatch of such a
	// run is reported under the single key of the recorded known finding
	Unsettled bool     `json:"unsettled,omitempty"`
	IDs       []string `json:"ids"`
}

func vNewBackupManager(w *VWorld, location string, rsync bool) *BackupManager {
	bm := &BackupManager{}
	bm.backupLocation = location
	bm.backupSourceLocation = w.Env.StoreLocation
	bm.useRsync = rsync
	bm.store = w.Store
	bm.logger = zap.NewNop().Sugar()
	// as NewBackupManager does
	lastID, _ := bm.LoadLastID()
	bm.lastID = lastID
	return bm
}

// vRunBackup calls Run the way the cron wrapper would; a panic is caught and reported as text.
func vRunBackup(bm *BackupManager) (panicked string) {
	defer func() {
		if r := recover(); r != nil {
			panicked = fmt.Sprint(r)
		}
	}()
	bm.Run()
	return ""
}

// vRestore restores the backup location into dir the documented way and opens a hub on it.
func vRestore(location, dir string, rsync bool) (*VWorld, error) {
	storeDir := filepath.Join(dir, "store")
	if rsync {
		src := filepath.Join(location, "store")
		if _, err := os.Stat(src); err != nil {
			return nil, fmt.Errorf("no mirrored store directory at the backup location: %v", err)
		}
		if out, err := exec.Command("cp", "-a", "--sparse=always", src, storeDir).CombinedOutput(); err != nil {
			return nil, fmt.Errorf("copying the mirrored tree failed: %v %s", err, out)
		}
	} else {
		f, err := os.Open(filepath.Join(location, "datahub-backup.kv"))
		if err != nil {
			return nil, fmt.Errorf("no backup file at the backup location: %v", err)
		}
		defer f.Close()
		opts := badger.DefaultOptions(storeDir)
		opts.Logger = nil
		db, err := badger.Open(opts)
		if err != nil {
			return nil, err
		}
		if err := db.Load(f, 16); err != nil {
			_ = db.Close()
			return nil, fmt.Errorf("badger Load of the backup file failed: %v", err)
		}
		if err := db.Close(); err != nil {
			return nil, err
		}
	}
	return VOpenWorld(dir), nil
}

func vNsDigest(w *VWorld) string {
	m := w.Store.NamespaceManager.GetPrefixToExpansionMap()
	var l []string
	for k, v := range m {
		l = append(l, k+"="+v)
	}
	sort.Strings(l)
	return strings.Join(l, ";")
}

// VReplayBackup replays one C20 history on a store of its own.
func VReplayBackup(task engine.SeqTask) (res engine.SeqResult) {
	var p BackupParams
	_ = json.Unmarshal(task.Params, &p)
	dir := VNewScratchDir("bk")
	if p.Mode == "rsync" {
		// rsync decides by size+mtime; tmpfs does not stamp mmap writes at all, so rsync mode runs on a real disk
		_ = os.Remove(dir)
		dir = vDiskScratchDir("bk")
	}
	defer os.RemoveAll(dir)
	var w *VWorld
	defer func() {
		if r := recover(); r != nil {
			res.Viol = append(res.Viol, engine.Violation{Key: "panic|" + fmt.Sprint(r), What: fmt.Sprintf("panic while replaying history: %v", r)})
			return
		}
		if w != nil {
			w.Close()
		}
	}()
	w = VOpenWorldOpt(dir, p.Mode == "rsync")
	h := w.NewHist()
	if err := h.EnsureDatasets("A", "B"); err != nil {
		res.HarnessEr = err.Error()
		return
	}
	location := filepath.Join(dir, "backup")
	rs := p.Mode == "rsync"
	bm := vNewBackupManager(w, location, rs)
	chk := &VCheck{H: h, SkipKnownC03: true}
	var ops []VOp
	lastBackup := -1 // index of the last completed backup op
	backupCanon := "none"
	backupNs := ""
	restartedSince := false
	for i, raw := range task.Hist {
		var op VOp
		if err := json.Unmarshal(raw, &op); err != nil {
			res.HarnessEr = err.Error()
			return
		}
		ops = append(ops, op)
		last := i == len(task.Hist)-1
		if last {
			chk.Last = op.String()
		}
		_, exists := h.M.Datasets[op.DS]
		switch op.K {
		case "batch":
			if !exists {
				res.Skip, res.Key = true, "skip"
				return
			}
			if err := h.ApplyWrite(op); err != nil {
				res.HarnessEr = "write rejected: " + err.Error()
				return
			}
		case "create":
			if exists {
				res.Skip, res.Key = true, "skip"
				return
			}
			if _, err := w.Dsm.CreateDataset(h.DsName(op.DS), nil); err != nil {
				res.HarnessEr = "create rejected: " + err.Error()
				return
			}
			h.M.Create(op.DS)
		case "delete":
			if !exists {
				res.Skip, res.Key = true, "skip"
				return
			}
			if err := w.Dsm.DeleteDataset(h.DsName(op.DS)); err != nil {
				res.HarnessEr = "delete rejected: " + err.Error()
				return
			}
			h.M.Delete(op.DS)
		case "restart":
			w.Restart()
			bm = vNewBackupManager(w, location, rs)
			restartedSince = true
		case "wipe":
			// DELETE /datasets: the store is dropped and opened empty; the hub is then restarted (the dataset
			// manager only re-creates core.Dataset at start) and the two datasets are created again
			if err := w.Store.Delete(); err != nil {
				res.HarnessEr = "Store.Delete: " + err.Error()
				return
			}
			w.Restart()
			bm = vNewBackupManager(w, location, rs)
			restartedSince = true
			h.M = model.NewWorld()
			if err := h.EnsureDatasets("A", "B"); err != nil {
				res.HarnessEr = err.Error()
				return
			}
		case "backup":
			canonAtStart := h.Canon(append(append([]string{}, p.IDs...), "e4"), []string{"A", "B"}, "")
			nsAtStart := vNsDigest(w)
			if os.Getenv("VERIF_C20_DEBUG") != "" && rs {
				out, _ := exec.Command("sh", "-c", "stat -c '%n %s %y' "+w.Env.StoreLocation+"/* "+location+"/store/* 2>&1; rsync -avzni --delete "+w.Env.StoreLocation+" "+location).CombinedOutput()
				fmt.Fprintf(os.Stderr, "---- before backup op %d\n%s\n", i, out)
			}
			foreign := vLocationForeign(w.Env.StoreLocation, location)
			if pn := vRunBackup(bm); pn != "" {
				if last && !foreign {
					chk.fail("C20:backup-run-panicked", "a backup run into the store's own backup location panicked: "+pn, nil)
				}
				if last && foreign && lastBackup >= 0 {
					// refused because the location carries the id of the store dropped by the wipe: the location must
					// still restore to the source as it was when the last completed run started
					vCheckRestore(chk, h, ops[:lastBackup], location, dir, rs, backupNs)
				}
				// not completed: the previous completed backup stays the reference. A panic that leaves Run ends the hub
				// process (the cron wrapper re-panics): whatever runs a backup next is a new process with a new backup
				// manager - the old object would answer every later Run with a silent return (its isRunning flag stays set)
				bm = vNewBackupManager(w, location, rs)
				restartedSince = true
				continue
			}
			if os.Getenv("VERIF_C20_DEBUG2") != "" && rs {
				out, _ := exec.Command("sh", "-c", "stat -c '%n %s %y' "+w.Env.StoreLocation+"/* "+location+"/store/* 2>&1; cmp "+w.Env.StoreLocation+"/00001.mem "+location+"/store/00001.mem; cmp "+w.Env.StoreLocation+"/000001.vlog "+location+"/store/000001.vlog").CombinedOutput()
				fmt.Fprintf(os.Stderr, "---- after backup op %d\n%s\n", i, out)
			}
			lastBackup = i
			backupCanon = canonAtStart
			backupNs = nsAtStart
			restartedSince = false
			if last {
				vCheckRestore(chk, h, ops[:i], location, dir, rs, backupNs)
			}
		default:
			res.HarnessEr = "unknown op " + op.K
			return
		}
		if rs && !p.Unsettled {
			vSettle(w.Env.StoreLocation, location)
		}
	}
	_ = lastBackup
	cur := h.Canon(append(append([]string{}, p.IDs...), "e4"), []string{"A", "B"}, "")
	var maxV uint64
	maxV = w.Store.database.MaxVersion()
	extra := fmt.Sprintf("|bk=%s|zero=%v|cur=%v|rs=%v", backupCanon, bm.lastID == 0, bm.lastID == maxV, restartedSince)
	if n := len(ops); n > 0 && (ops[n-1].K == "restart" || ops[n-1].K == "wipe") {
		// what a close / open does to the files is not part of the key: the state right behind one is kept apart,
		// so that the search continues behind a restart that changes nothing visible
		extra += "|just-restarted"
	}
	sum := sha1.Sum([]byte(cur + extra))
	res.Key = hex.EncodeToString(sum[:])
	res.Viol = chk.Viol
	if p.Unsettled && len(chk.Viol) > 0 {
		res.Viol = []engine.Violation{{Key: "C20:KF-rsync-unsettled|" + vOpsString(ops),
			What: "rsync mode, operations issued back to back: " + chk.Viol[0].What, Detail: len(chk.Viol)}}
	}
	res.Checks = chk.Checks
	res.Outcome = fmt.Sprintf("bk=%v/same=%v", backupCanon != "none", backupCanon == cur)
	return
}

// vCheckRestore restores the backup and compares every read API with the model of the prefix.
func vCheckRestore(chk *VCheck, h *VHist, prefix []VOp, location, dir string, rsync bool, nsAtStart string) {
	rdir, err := os.MkdirTemp(dir, "restore-")
	if err != nil {
		panic(err)
	}
	defer os.RemoveAll(rdir)
	chk.Checks++
	rw, err := vRestore(location, rdir, rsync)
	if err != nil {
		chk.fail("C20:restore-failed", "restoring the backup location failed: "+err.Error(), nil)
		return
	}
	defer rw.Close()
	hr := &VHist{W: rw, Tag: h.Tag, M: model.NewWorld()}
	hr.M.Create("A")
	hr.M.Create("B")
	for _, op := range prefix {
		if op.K == "wipe" {
			hr.M = model.NewWorld()
			hr.M.Create("A")
			hr.M.Create("B")
			continue
		}
		hr.ModelApply(op)
	}
	rc := &VCheck{H: hr, SkipKnownC03: true, Last: chk.Last}
	// dataset list
	live := map[string]bool{}
	for _, n := range rw.Dsm.GetDatasetNames() {
		if strings.HasSuffix(n.Name, "."+hr.Tag) {
			live[hr.AbsDs(n.Name)] = true
		}
	}
	for _, n := range []string{"A", "B"} {
		_, inModel := hr.M.Datasets[n]
		if live[n] != inModel {
			rc.fail("C20:dataset-list:"+n, fmt.Sprintf("restored hub lists dataset %s = %v, the source hub had it = %v when the backup started", n, live[n], inModel), nil)
		}
	}
	ids := []string{"e1", "e2", "e3"}
	rc.CheckLatest(ids)
	rc.CheckFeed()
	var liveNames []string
	for _, d := range hr.M.LiveInOrder() {
		liveNames = append(liveNames, d.Name)
	}
	scopes := [][]string{nil}
	for _, n := range liveNames {
		scopes = append(scopes, []string{n})
	}
	rc.CheckRelations(ids, scopes)
	if ns := vNsDigest(rw); ns != nsAtStart {
		rc.fail("C20:namespaces", fmt.Sprintf("restored hub has namespaces %q, the source had %q when the backup started", ns, nsAtStart), nil)
	}
	chk.Checks += rc.Checks
	for _, v := range rc.Viol {
		v.Key = "C20:restored:" + v.Key
		v.What = "restored backup differs from the source at the start of the last completed backup run: " + v.What
		chk.Viol = append(chk.Viol, v)
	}
}

// vLocationForeign: the location carries a storage id and it is not the store's.
func vLocationForeign(store, location string) bool {
	a, err1 := os.ReadFile(filepath.Join(store, StorageIDFileName))
	b, err2 := os.ReadFile(filepath.Join(location, StorageIDFileName))
	return err1 == nil && err2 == nil && string(a) != string(b)
}

// vDiskScratchDir returns a scratch directory on a disk-backed file system (outside /repo and /verif).
func vDiskScratchDir(tag string) string {
	base := os.Getenv("VERIF_DISK_SCRATCH")
	if base == "" {
		base = os.TempDir()
	}
	dir, err := os.MkdirTemp(base, "verif-"+tag+"-")
	if err != nil {
		panic(err)
	}
	return dir
}

// vSettle models time passing between two operations of an rsync-mode history (operations are taken
// to be seconds apart, as cron-scheduled backups and client writes are): (1) the operating system's
// periodic write-back has run — every file of the store directory is fsynced, so that the next store
// into a memory-mapped badger file faults and is stamped with a new mtime; (2) two seconds have
// passed — the mtime of every file of the store and of the backup location is moved two seconds into
// the past (rsync's quick check compares size and whole-second mtime). Without this the verdict
// would depend on how fast the harness issues operations; the window it closes (a write within the
// same second / the same dirty-page interval as the previous backup run is missed by the next run)
// is reported separately by the "unsettled" scenario.
func vSettle(store, location string) {
	if os.Getenv("VERIF_C20_NOSETTLE") != "" {
		return
	}
	if ents, err := os.ReadDir(store); err == nil {
		for _, e := range ents {
			if e.IsDir() {
				continue
			}
			if f, err := os.OpenFile(filepath.Join(store, e.Name()), os.O_RDWR, 0); err == nil {
				_ = f.Sync()
				_ = f.Close()
			}
		}
	}
	for _, d := range []string{store, location} {
		_ = filepath.Walk(d, func(p string, info os.FileInfo, err error) error {
			if err != nil || info.IsDir() {
				return nil
			}
			mt := info.ModTime().Add(-2 * time.Second)
			_ = os.Chtimes(p, mt, mt)
			return nil
		})
	}
}

// ---- SCHED: a backup run next to a writer -----------------------------------------------------

// vRunSchedBackup: client threads of "backup" and write ops under the controlled scheduler (DB.Backup, DB.MaxVersion,
// commits and locks are scheduling points); afterwards one quiescent backup run, a restore, and the comparison of
// the restored hub with the model of all writes (one writer thread, so their order is fixed).
func vRunSchedBackup(w *VWorld, sc *SchedScenario, prefix []int, horizon int) *vsync.Execution {
	h := w.NewHist()
	for _, n := range sc.Datasets {
		if _, err := w.Dsm.CreateDataset(h.DsName(n), nil); err != nil {
			return &vsync.Execution{HarnessErr: err.Error()}
		}
		h.M.Create(n)
	}
	location := filepath.Join(w.Dir, "backup")
	if w.Bm == nil {
		w.Bm = vNewBackupManager(w, location, false)
	}
	apply := func(op VOp) error {
		if op.K == "backup" {
			if pn := vRunBackup(w.Bm); pn != "" {
				return fmt.Errorf("backup run panicked: %s", pn)
			}
			return nil
		}
		if err := h.vApplyImpl(op); err != nil {
			return err
		}
		h.ModelApply(op)
		return nil
	}
	for _, op := range sc.Pre {
		if err := apply(op); err != nil {
			return &vsync.Execution{HarnessErr: "pre: " + err.Error()}
		}
	}
	s := vsync.NewSched(prefix, horizon)
	for _, n := range append([]string{datasetCore}, sc.Datasets...) {
		if ds := w.Dsm.GetDataset(h.DsName(n)); ds != nil {
			s.NameLock(&ds.WriteLock, "WriteLock:"+n)
		}
	}
	errs := make([]string, len(sc.Threads))
	var bodies []func()
	var names []string
	for ti, th := range sc.Threads {
		ti, th := ti, th
		names = append(names, fmt.Sprintf("client%d", ti))
		bodies = append(bodies, func() {
			for _, op := range th {
				if err := apply(op); err != nil {
					errs[ti] = err.Error()
				}
			}
		})
	}
	timedOut := s.Run(bodies, names, 30*time.Second)
	x := vsync.Collect(s, timedOut)
	if x.Fatal() || len(x.Panics) > 0 {
		return x
	}
	for _, e := range errs {
		if e != "" {
			x.Viol = append(x.Viol, "operation failed: "+e)
		}
	}
	// one more run with nothing else going on, then restore
	if pn := vRunBackup(w.Bm); pn != "" {
		x.Viol = append(x.Viol, "the quiescent backup run panicked: "+pn)
		return x
	}
	rdir, err := os.MkdirTemp(VScratchBase(), "verif-restore-")
	if err != nil {
		return &vsync.Execution{HarnessErr: err.Error()}
	}
	defer os.RemoveAll(rdir)
	rw, err := vRestore(location, rdir, false)
	if err != nil {
		x.Viol = append(x.Viol, "restoring the backup failed: "+err.Error())
		return x
	}
	defer rw.Close()
	hr := &VHist{W: rw, Tag: h.Tag, M: h.M}
	rc := &VCheck{H: hr, SkipKnownC03: true, ScopedOnly: true}
	rc.CheckLatest(sc.IDs)
	rc.CheckFeed()
	for _, v := range rc.Viol {
		clause := v.Key
		if i := strings.Index(clause, "|"); i >= 0 {
			clause = clause[:i]
		}
		x.Viol = append(x.Viol, "C20:restored-after-concurrent-run:"+clause+"::after a backup run next to a writer and one more quiescent run, the restored hub differs from the source: "+v.What)
	}
	x.Outcome = fmt.Sprintf("restored-ok=%v", len(rc.Viol) == 0)
	return x
}

// ---- foreign locations ----------------------------------------------------

func vDirDigest(dir string) string {
	var l []string
	_ = filepath.Walk(dir, func(p string, info os.FileInfo, err error) error {
		if err != nil {
			return nil
		}
		rel, _ := filepath.Rel(dir, p)
		if info.IsDir() {
			l = append(l, "d "+rel)
			return nil
		}
		f, err := os.Open(p)
		if err != nil {
			l = append(l, "? "+rel)
			return nil
		}
		hsh := sha1.New()
		_, _ = io.Copy(hsh, f)
		f.Close()
		l = append(l, fmt.Sprintf("f %s %d %s", rel, info.Size(), hex.EncodeToString(hsh.Sum(nil))))
		return nil
	})
	sort.Strings(l)
	return strings.Join(l, "\n")
}

type ForeignCase struct {
	Mode      string `json:"mode"`      // native | rsync
	Other     string `json:"other"`     // other-store-backup | id-only | near:+0 | near:-1 | near:flip | near:nl
	Restarted bool   `json:"restarted"` // own hub restarted before the run
	Runs      int    `json:"runs"`      // number of Run calls
	OwnFirst  bool   `json:"own_first"` // the hub first backed up to a location of its own
}

type ForeignResult struct {
	Case    ForeignCase `json:"case"`
	Changed bool        `json:"changed"`
	Diff    string      `json:"diff,omitempty"`
	Err     string      `json:"err,omitempty"`
	// positive control: a location carrying the hub's own id must be accepted and written
	ControlWritten bool `json:"control_written"`
}

func vForeignCase(c ForeignCase) (fr ForeignResult) {
	fr.Case = c
	dir := VNewScratchDir("fgn")
	defer os.RemoveAll(dir)
	defer func() {
		if r := recover(); r != nil {
			fr.Err = fmt.Sprint(r)
		}
	}()
	rs := c.Mode == "rsync"
	pool := model.Pool(0)
	v1 := model.PoolIndex(pool, "v1")
	v2 := model.PoolIndex(pool, "v2")
	// the other store and its backup
	location := filepath.Join(dir, "location")
	o := VOpenWorldOpt(filepath.Join(dir, "other"), rs)
	oh := o.NewHist()
	_ = oh.EnsureDatasets("A", "B")
	_ = oh.ApplyWrite(VOp{K: "batch", DS: "A", Ents: []VEnt{{"e1", v1}}})
	otherID, _ := os.ReadFile(filepath.Join(o.Env.StoreLocation, StorageIDFileName))
	if c.Other == "other-store-backup" {
		obm := vNewBackupManager(o, location, rs)
		if pn := vRunBackup(obm); pn != "" {
			fr.Err = "setup: backup of the other store panicked: " + pn
			o.Close()
			return
		}
	}
	o.Close()
	// our own store
	w := VOpenWorldOpt(filepath.Join(dir, "own"), rs)
	defer func() { w.Close() }()
	h := w.NewHist()
	_ = h.EnsureDatasets("A", "B")
	_ = h.ApplyWrite(VOp{K: "batch", DS: "A", Ents: []VEnt{{"e2", v2}}})
	ownID, _ := os.ReadFile(filepath.Join(w.Env.StoreLocation, StorageIDFileName))
	if string(ownID) == string(otherID) {
		fr.Err = "setup: both stores got the same storage id"
		return
	}
	if c.Other != "other-store-backup" {
		_ = os.MkdirAll(location, 0o700)
		id := string(otherID)
		switch c.Other {
		case "id-only":
		case "near:+0":
			id = string(ownID) + "0"
		case "near:-1":
			id = string(ownID)[:len(ownID)-1]
		case "near:flip":
			b := []byte(string(ownID))
			if b[len(b)-1] == '9' {
				b[len(b)-1] = '8'
			} else {
				b[len(b)-1]++
			}
			id = string(b)
		case "near:nl":
			id = string(ownID) + "\n"
		}
		_ = os.WriteFile(filepath.Join(location, StorageIDFileName), []byte(id), 0o644)
		_ = os.WriteFile(filepath.Join(location, "datahub-backup.kv"), []byte("foreign backup bytes"), 0o644)
	}
	if c.OwnFirst {
		own := vNewBackupManager(w, filepath.Join(dir, "ownlocation"), rs)
		_ = vRunBackup(own)
	}
	if c.Restarted {
		w.Restart()
	}
	before := vDirDigest(location)
	bm := vNewBackupManager(w, location, rs)
	if c.OwnFirst {
		// the manager of a hub that already backed up elsewhere carries a cursor
		bm.lastID = w.Store.database.MaxVersion()
	}
	for i := 0; i < c.Runs; i++ {
		_ = vRunBackup(bm)
		_ = h.ApplyWrite(VOp{K: "batch", DS: "A", Ents: []VEnt{{"e1", v1 + i%2}}})
	}
	after := vDirDigest(location)
	if before != after {
		fr.Changed = true
		fr.Diff = "before:\n" + before + "\nafter:\n" + after
	}
	// positive control
	ctl := filepath.Join(dir, "control")
	_ = os.MkdirAll(ctl, 0o700)
	_ = os.WriteFile(filepath.Join(ctl, StorageIDFileName), ownID, 0o644)
	cb := vDirDigest(ctl)
	_ = vRunBackup(vNewBackupManager(w, ctl, rs))
	fr.ControlWritten = cb != vDirDigest(ctl)
	return
}

// VOpenWorldOpt opens a world; small keeps badger's value-log pre-allocation small (rsync copies it).
func VOpenWorldOpt(dir string, small bool) *VWorld {
	if !small {
		return VOpenWorld(dir)
	}
	w := &VWorld{Dir: dir}
	w.Env = &conf.Config{Logger: zap.NewNop().Sugar(), StoreLocation: filepath.Join(dir, "store"), ValueLogFileSize: 1 << 20}
	w.open()
	return w
}

func init() {
	engine.RegisterWorker("backup", func(args []string) {
		engine.ServeWorker(func(task []byte) interface{} {
			var t engine.SeqTask
			if err := json.Unmarshal(task, &t); err != nil {
				return engine.SeqResult{HarnessEr: err.Error()}
			}
			return VReplayBackup(t)
		})
	})
	engine.RegisterWorker("replay-backup", func(args []string) {
		b, err := os.ReadFile(args[0])
		if err != nil {
			fmt.Println(err)
			os.Exit(2)
		}
		var v struct {
			Replay struct {
				Hist   []json.RawMessage `json:"hist"`
				Params json.RawMessage   `json:"params"`
			} `json:"replay"`
		}
		_ = json.Unmarshal(b, &v)
		res := VReplayBackup(engine.SeqTask{Hist: v.Replay.Hist, Params: v.Replay.Params})
		out, _ := json.MarshalIndent(res, "", " ")
		fmt.Println(string(out))
		if len(res.Viol) > 0 {
			os.Exit(1)
		}
	})
	engine.RegisterWorker("sched-backup", func(args []string) {
		defer func() {
			if vWorkerWorld != nil {
				vWorkerWorld.Destroy()
			}
		}()
		vWorldMaxHists = 150 // the backup file and the restore grow with every execution on the same world
		engine.ServeWorker(vSchedWorker(vRunSchedBackup))
	})
	engine.RegisterWorker("backup-foreign", func(args []string) {
		engine.ServeWorker(func(task []byte) interface{} {
			var c ForeignCase
			if err := json.Unmarshal(task, &c); err != nil {
				return ForeignResult{Err: err.Error()}
			}
			return vForeignCase(c)
		})
	})

	engine.RegisterCheck("C20", func(r *engine.Run) {
		r.Rule = "SEQ: every history up to the stated depth over {write A (contents cycle v1,v2,deleted,ref), write B, delete dataset B, create dataset B, backup run, hub restart} on a store of its own with the real BackupManager, plus a narrower alphabet {write A, backup run, restart, delete dataset B, wipe the store (Store.Delete as DELETE /datasets does, then restart and re-create)} one level deeper (a run refused because the wipe made the location foreign must leave the location restoring to the last completed run); after every history ending in a backup run the location is restored into an empty directory (native: badger Load; rsync: copy of the mirror), a hub is opened on it and dataset list, latest views, change feeds with tokens, relationship queries and namespaces are compared with the reference model of the prefix committed when that run started; states deduplicated by canonical raw-key scan of the source + canonical source state at the last backup + cursor flags. SCHED: a backup run next to a writer thread (DB.Backup, DB.MaxVersion, commits and locks as scheduling points, preemption bounded), then one quiescent run, restore, comparison with all committed writes. ENUM: every foreign-location case (other store's backup / id file only / four near-miss ids) x mode x restarted x 1-2 runs x cursor carried: byte-identical location before and after; distinct = distinct canonical states + foreign cases"
		r.Assumptions = []string{"badger Backup/Load are trusted to round-trip the entries they are given", "the restore procedure is the documented one: badger Load of datahub-backup.kv into an empty store (native) or a copy of the mirrored directory (rsync)", "a backup run that panics is not a completed run"}
		pool := model.Pool(0)
		ix := func(n string) int { return model.PoolIndex(pool, n) }
		alpha := []VOp{
			{K: "backup"},
			{K: "batch", DS: "A", Ents: []VEnt{{"e1", ix("v1")}}},
			{K: "batch", DS: "A", Ents: []VEnt{{"e1", ix("v2")}}},
			{K: "batch", DS: "A", Ents: []VEnt{{"e1", ix("dv1")}}},
			{K: "batch", DS: "B", Ents: []VEnt{{"e2", ix("r1")}}},
			{K: "restart"},
			{K: "delete", DS: "B"},
			{K: "create", DS: "B"},
		}
		modes := []string{"native"}
		if _, err := exec.LookPath("rsync"); err == nil {
			modes = append(modes, "rsync")
		} else {
			r.Assumptions = append(r.Assumptions, "rsync binary not found: rsync mode not explored")
		}
		for _, mode := range modes {
			params, _ := json.Marshal(BackupParams{Mode: mode, IDs: []string{"e1", "e2", "e3"}})
			depth, budget := 4, 100*time.Second
			if mode == "rsync" {
				depth, budget = 3, 60*time.Second
			}
			if !r.Quick() {
				depth, budget = 6, 40*time.Minute
				if mode == "rsync" {
					depth, budget = 5, 30*time.Minute
				}
			}
			engine.RunSeq(r, engine.SeqSpec{Name: "c20-" + mode, WorkerArgs: []string{"worker", "backup"}, Alphabet: vOpsJSON(alpha), Params: params, Depth: depth, Budget: budget})
		}
		// a narrower alphabet, one level deeper, with the store wipe (DELETE /datasets) as an operation
		{
			params, _ := json.Marshal(BackupParams{Mode: "native", IDs: []string{"e1", "e2", "e3"}})
			narrow := []VOp{alpha[0], alpha[1], alpha[5], alpha[6], {K: "wipe"}}
			depth, budget := 5, 100*time.Second
			if !r.Quick() {
				depth, budget = 7, 40*time.Minute
			}
			engine.RunSeq(r, engine.SeqSpec{Name: "c20-native-wipe", WorkerArgs: []string{"worker", "backup"}, Alphabet: vOpsJSON(narrow), Params: params, Depth: depth, Budget: budget})
		}
		if len(modes) > 1 {
			// the window vSettle closes, shown on its own: one history, operations back to back
			params, _ := json.Marshal(BackupParams{Mode: "rsync", IDs: []string{"e1", "e2", "e3"}, Unsettled: true})
			engine.RunSeq(r, engine.SeqSpec{Name: "c20-rsync-unsettled", WorkerArgs: []string{"worker", "backup"},
				Alphabet: vOpsJSON([]VOp{alpha[0], alpha[1]}), Params: params, Depth: 3, Budget: 60 * time.Second})
		}
		// SCHED: a native backup run next to a writer, then a quiescent run: nothing the writer committed may be missing
		{
			ix2 := func(n string) int { return model.PoolIndex(pool, n) }
			sc := SchedScenario{Name: "B1-backup-run-vs-writer", Datasets: []string{"A"}, IDs: []string{"e1", "e2", "e3"},
				Pre:     []VOp{{K: "batch", DS: "A", Ents: []VEnt{{"e1", ix2("v1")}}}, {K: "backup"}},
				Threads: [][]VOp{{{K: "backup"}}, {{K: "batch", DS: "A", Ents: []VEnt{{"e1", ix2("v2")}}}, {K: "batch", DS: "A", Ents: []VEnt{{"e2", ix2("r1")}}}}}}
			bound, budget := 1, 60
			if !r.Quick() {
				bound, budget = 3, 900
			}
			engine.RunSched(r, engine.SchedSpec{Name: sc.Name, WorkerArgs: []string{"worker", "sched-backup"}, Scenario: sc, Bound: bound, Horizon: 1500, BudgetS: budget})
		}
		// foreign locations
		var cases []ForeignCase
		for _, mode := range modes {
			for _, other := range []string{"other-store-backup", "id-only", "near:+0", "near:-1", "near:flip", "near:nl"} {
				for _, restarted := range []bool{false, true} {
					for _, runs := range []int{1, 2} {
						for _, ownFirst := range []bool{false, true} {
							cases = append(cases, ForeignCase{Mode: mode, Other: other, Restarted: restarted, Runs: runs, OwnFirst: ownFirst})
						}
					}
				}
			}
		}
		var tasks []json.RawMessage
		for _, c := range cases {
			b, _ := json.Marshal(c)
			tasks = append(tasks, b)
		}
		pl := &engine.Pool{Args: []string{"worker", "backup-foreign"}, Timeout: 120 * time.Second}
		results := pl.Do(tasks, nil)
		controls := 0
		for i, rr := range results {
			if rr.Err != "" {
				r.Cap(fmt.Sprintf("foreign case %v: worker problem %s", cases[i], rr.Err))
				continue
			}
			var fr ForeignResult
			if err := json.Unmarshal(rr.Out, &fr); err != nil {
				r.Cap("foreign case: undecodable result")
				continue
			}
			if fr.Err != "" {
				r.Cap(fmt.Sprintf("foreign case %v: harness problem %s", cases[i], fr.Err))
				continue
			}
			r.AddDistinct(fmt.Sprintf("foreign:%v", cases[i]))
			if fr.ControlWritten {
				controls++
			}
			if fr.Changed {
				cb, _ := json.Marshal(cases[i])
				r.AddViolation(engine.Violation{Key: "C20:foreign-location-modified|" + string(cb),
					What:   fmt.Sprintf("a backup run into a location that carries another store's %s modified that location (case %s)", StorageIDFileName, cb),
					Engine: "ENUM:foreign", Replay: map[string]interface{}{"worker": []string{"worker", "backup-foreign"}, "case": cases[i]}, Detail: fr.Diff})
			}
		}
		r.AddPart(map[string]interface{}{"engine": "ENUM", "search": "c20-foreign", "cases": len(cases), "positive_controls_written": controls})
		r.AddSample(map[string]interface{}{"foreign_case": cases[0]})
		r.Evaluations += len(cases)
		r.Traces += len(cases)
	})
}
