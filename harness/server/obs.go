package server

import (
	"encoding/binary"
	"fmt"
	"reflect"
	"sort"
	"strings"
	"time"

	"github.com/dgraph-io/badger/v4"

	"github.com/mimiro-io/datahub/internal/verifrt/engine"
	"github.com/mimiro-io/datahub/internal/verifrt/model"
)

// VCheck accumulates oracle comparisons for one replayed history.
type VCheck struct {
	H      *VHist
	Prop   string
	Last   string // description of the last op (part of the violation key)
	Viol   []engine.Violation
	Checks int
	// SkipKnownC03: mismatches of the input class of the recorded C03 known finding are not
	// recorded at all (used by checks of other properties that reuse the C03 observation)
	SkipKnownC03 bool
	// ScopedOnly: leave out unscoped lookups (the harness keeps a dataset the model does not know)
	ScopedOnly bool
	listCap    int // number of entities of the largest model dataset (bounds the page count of a listing)
}

func (c *VCheck) fail(clause string, what string, detail interface{}) {
	if c.SkipKnownC03 && strings.HasPrefix(clause, "C03:KF-") {
		return
	}
	key := clause + "|" + c.Last
	for _, v := range c.Viol {
		if v.Key == key {
			return
		}
	}
	c.Viol = append(c.Viol, engine.Violation{Property: c.Prop, Key: key, What: what, Detail: detail})
}

func contentEq(a, b model.Content) bool { return a.Equal(b) }

func emptyContent(c model.Content) bool { return len(c.Props) == 0 && len(c.Refs) == 0 }

// ---------------------------------------------------------------- C01

// listAll pages through GetEntities with the given page size.
func (c *VCheck) listAll(ds *Dataset, count int) ([]*Entity, int, error) {
	var out []*Entity
	from := ""
	pages := 0
	for {
		res, err := ds.GetEntities(from, count)
		if err != nil {
			return out, pages, err
		}
		pages++
		if len(res.Entities) == 0 {
			return out, pages, nil
		}
		out = append(out, res.Entities...)
		if count <= 0 {
			// one call returns everything; verify that the token then yields nothing
			res2, err := ds.GetEntities(res.ContinuationToken, count)
			if err != nil {
				return out, pages, err
			}
			if len(res2.Entities) != 0 {
				out = append(out, res2.Entities...)
			}
			return out, pages, nil
		}
		if count > 0 && len(res.Entities) > count {
			return out, pages, fmt.Errorf("page of %d entities for count %d", len(res.Entities), count)
		}
		from = res.ContinuationToken
		if pages > 40+c.listCap {
			return out, pages, fmt.Errorf("listing does not terminate (more than %d pages for at most %d entities)", 40+c.listCap, 4+c.listCap)
		}
	}
}

// CheckLatest is the C01 oracle on the current state.
func (c *VCheck) CheckLatest(ids []string) {
	h := c.H
	for _, md := range h.M.LiveInOrder() {
		if n := len(md.Versions); n > c.listCap {
			c.listCap = n
		}
	}
	for _, md := range h.M.LiveInOrder() {
		ds := h.W.Dsm.GetDataset(h.DsName(md.Name))
		if ds == nil {
			c.fail("C01:dataset-missing:"+md.Name, "dataset "+md.Name+" missing in implementation", nil)
			continue
		}
		want := md.LatestView()
		var firstOrder []string
		for _, count := range []int{-1, 1, 2, 3} {
			c.Checks++
			ents, _, err := c.listAll(ds, count)
			if err != nil {
				c.fail(fmt.Sprintf("C01:list-error:%s:count=%d", md.Name, count), "listing failed: "+err.Error(), nil)
				continue
			}
			seen := map[string]int{}
			order := []string{}
			for _, e := range ents {
				id := h.AbsID(e.ID)
				seen[id]++
				order = append(order, id)
				w, ok := want[id]
				if !ok {
					c.fail(fmt.Sprintf("C01:list-extra:%s", md.Name), fmt.Sprintf("listing of %s (page size %d) returns %s which the model does not have", md.Name, count, id), nil)
					continue
				}
				got := h.AbsContent(e)
				if !contentEq(got, w) {
					c.fail(fmt.Sprintf("C01:list-content:%s:%s", md.Name, id),
						fmt.Sprintf("listing of %s (page size %d): %s is %s, last stored version is %s", md.Name, count, id, got, w), nil)
				}
			}
			for id := range want {
				if seen[id] != 1 {
					c.fail(fmt.Sprintf("C01:list-once:%s:%s:count=%d", md.Name, id, count),
						fmt.Sprintf("listing of %s with page size %d returns %s %d times (want exactly once); order %v", md.Name, count, id, seen[id], order), nil)
				}
			}
			if firstOrder == nil {
				firstOrder = order
			}
		}
		// scoped lookups
		for _, id := range ids {
			c.Checks++
			e, err := h.W.Store.GetEntity(h.URI(id), []string{h.DsName(md.Name)}, true)
			if err != nil {
				c.fail(fmt.Sprintf("C01:lookup-error:%s:%s", md.Name, id), "scoped lookup failed: "+err.Error(), nil)
				continue
			}
			w, has := want[id]
			switch {
			case !has:
				if e != nil && (!emptyContent(h.AbsContent(e)) || e.IsDeleted) {
					c.fail(fmt.Sprintf("C01:lookup-phantom:%s:%s", md.Name, id),
						fmt.Sprintf("scoped lookup of %s in %s returns %s but nothing was ever written there", id, md.Name, h.AbsContent(e)), nil)
				}
			case e == nil:
				c.fail(fmt.Sprintf("C01:lookup-missing:%s:%s", md.Name, id), fmt.Sprintf("scoped lookup of %s in %s returns nothing; last stored version is %s", id, md.Name, w), nil)
			case w.Deleted:
				got := h.AbsContent(e)
				// a deleted latest version: flag must be set; content either the version's or the empty skeleton
				if !got.Deleted || !(emptyContent(got) || contentEq(got, w)) {
					c.fail(fmt.Sprintf("C01:lookup-deleted:%s:%s", md.Name, id),
						fmt.Sprintf("scoped lookup of %s in %s returns %s; last stored version is the deleted %s", id, md.Name, got, w), nil)
				}
			default:
				got := h.AbsContent(e)
				if !contentEq(got, w) {
					c.fail(fmt.Sprintf("C01:lookup-content:%s:%s", md.Name, id),
						fmt.Sprintf("scoped lookup of %s in %s returns %s; last stored version is %s", id, md.Name, got, w), nil)
				}
			}
		}
	}
	// lookups scoped to several datasets, named in creation order and in the opposite order: the same merge
	var liveNames []string
	for _, md := range h.M.LiveInOrder() {
		liveNames = append(liveNames, md.Name)
	}
	if len(liveNames) >= 2 {
		rev := make([]string, len(liveNames))
		for i, n := range liveNames {
			rev[len(liveNames)-1-i] = n
		}
		for _, order := range [][]string{liveNames, rev} {
			var real []string
			for _, n := range order {
				real = append(real, h.DsName(n))
			}
			for _, id := range ids {
				c.Checks++
				e, err := h.W.Store.GetEntity(h.URI(id), real, true)
				if err != nil {
					c.fail(fmt.Sprintf("C01:multi-scope-error:%v:%s", order, id), "lookup scoped to several datasets failed: "+err.Error(), nil)
					continue
				}
				want, parts, _ := h.M.Merged(id, order, -1)
				if parts == 0 {
					continue // nothing live in the scope: covered by the single-dataset lookups
				}
				if e == nil {
					c.fail(fmt.Sprintf("C01:multi-scope-missing:%v:%s", order, id), fmt.Sprintf("lookup of %s scoped to %v returns nothing; want merge %s", id, order, want), nil)
					continue
				}
				if got := h.AbsContent(e); !contentEq(got, want) {
					c.fail(fmt.Sprintf("C01:multi-scope-merge:%v:%s", order, id), fmt.Sprintf("lookup of %s scoped to %v returns %s; merge of the latest non-deleted versions in those datasets is %s", id, order, got, want), nil)
				}
			}
		}
	}
	// unscoped lookups: merge of per-dataset latest non-deleted versions
	for _, id := range ids {
		if c.ScopedOnly {
			break
		}
		c.Checks++
		e, err := h.W.Store.GetEntity(h.URI(id), nil, true)
		if err != nil {
			c.fail("C01:unscoped-error:"+id, "unscoped lookup failed: "+err.Error(), nil)
			continue
		}
		want, parts, anyDel := h.M.Merged(id, nil, -1)
		if parts == 0 {
			if e != nil {
				got := h.AbsContent(e)
				if !emptyContent(got) || got.Deleted != anyDel {
					c.fail("C01:unscoped-none:"+id, fmt.Sprintf("unscoped lookup of %s returns %s; model has no live version (anyDeleted=%v)", id, got, anyDel), nil)
				}
			} else if anyDel {
				c.fail("C01:unscoped-nil:"+id, fmt.Sprintf("unscoped lookup of %s returns nothing although versions exist", id), nil)
			}
			continue
		}
		if e == nil {
			c.fail("C01:unscoped-missing:"+id, fmt.Sprintf("unscoped lookup of %s returns nothing; want merge %s", id, want), nil)
			continue
		}
		got := h.AbsContent(e)
		if !contentEq(got, want) {
			c.fail("C01:unscoped-merge:"+id, fmt.Sprintf("unscoped lookup of %s returns %s; merge of per-dataset latest non-deleted versions is %s", id, got, want), nil)
		}
		// merge=false: one partial per contributing dataset
		c.Checks++
		e2, err := h.W.Store.GetEntity(h.URI(id), nil, false)
		if err != nil || e2 == nil {
			c.fail("C01:unscoped-partials-error:"+id, fmt.Sprintf("unmerged lookup failed: %v", err), nil)
			continue
		}
		pl, _ := e2.Properties["http://data.mimiro.io/core/partials"].([]interface{})
		if len(pl) != parts {
			c.fail("C01:unscoped-partials:"+id, fmt.Sprintf("unmerged lookup of %s has %d partials, model %d", id, len(pl), parts), nil)
		}
	}
}

// ---------------------------------------------------------------- C02

// changePositions returns the raw change-log positions of a dataset (harness-only raw scan).
func (h *VHist) changePositions(ds *Dataset) []uint64 {
	var out []uint64
	_ = h.W.Store.database.View(func(txn *badger.Txn) error {
		prefix := make([]byte, 6)
		binary.BigEndian.PutUint16(prefix, DatasetEntityChangeLog)
		binary.BigEndian.PutUint32(prefix[2:], ds.InternalID)
		opts := badger.DefaultIteratorOptions
		opts.PrefetchValues = false
		opts.Prefix = prefix
		it := txn.NewIterator(opts)
		defer it.Close()
		for it.Seek(prefix); it.ValidForPrefix(prefix); it.Next() {
			out = append(out, binary.BigEndian.Uint64(it.Item().Key()[6:14]))
		}
		return nil
	})
	return out
}

func (c *VCheck) feedEq(got []*Entity, want []*model.Version) (bool, string) {
	h := c.H
	gs := []string{}
	for _, e := range got {
		gs = append(gs, h.AbsID(e.ID)+"="+h.AbsContent(e).String())
	}
	ws := model.FeedStrings(want)
	if len(got) != len(want) {
		return false, fmt.Sprintf("got %v want %v", gs, ws)
	}
	for i := range got {
		if h.AbsID(got[i].ID) != want[i].ID || !contentEq(h.AbsContent(got[i]), want[i].C) {
			return false, fmt.Sprintf("got %v want %v", gs, ws)
		}
	}
	return true, ""
}

// CheckFeed is the C02 oracle on the current state of every live dataset.
func (c *VCheck) CheckFeed() {
	h := c.H
	for _, md := range h.M.LiveInOrder() {
		ds := h.W.Dsm.GetDataset(h.DsName(md.Name))
		if ds == nil {
			continue
		}
		c.Checks++
		full, err := ds.GetChanges(0, 0, false)
		if err != nil {
			c.fail("C02:full-error:"+md.Name, "GetChanges failed: "+err.Error(), nil)
			continue
		}
		if ok, msg := c.feedEq(full.Entities, md.Feed); !ok {
			c.fail("C02:full:"+md.Name, fmt.Sprintf("full change feed of %s differs from one-entry-per-stored-version: %s", md.Name, msg), nil)
			continue
		}
		pos := h.changePositions(ds)
		if len(pos) != len(md.Feed) {
			c.fail("C02:rawcount:"+md.Name, fmt.Sprintf("raw change log of %s has %d entries, feed has %d", md.Name, len(pos), len(md.Feed)), nil)
			continue
		}
		for i := 1; i < len(pos); i++ {
			if pos[i] <= pos[i-1] {
				c.fail("C02:positions:"+md.Name, "change positions not strictly increasing", nil)
			}
		}
		end := full.NextToken
		// token at the end returns nothing and is stable; since beyond the end likewise
		for _, since := range []uint64{end, end + 1, end + 5} {
			for _, lo := range []bool{false, true} {
				c.Checks++
				r, err := ds.GetChanges(since, 0, lo)
				if err != nil {
					c.fail("C02:end-error:"+md.Name, "GetChanges at end failed: "+err.Error(), nil)
					continue
				}
				if len(r.Entities) != 0 || r.NextToken != since {
					c.fail(fmt.Sprintf("C02:end:%s:+%d", md.Name, since-end),
						fmt.Sprintf("reading %s at since=end+%d (latestOnly=%v) returns %d entries and token end+%d (want nothing and the same token)", md.Name, since-end, lo, len(r.Entities), int64(r.NextToken)-int64(end)), nil)
				}
			}
		}
		// paged reads with every limit
		for _, lo := range []bool{false, true} {
			want := md.Feed
			if lo {
				want = md.LatestOnlyFeed()
			}
			for _, limit := range []int{0, 1, 2, 3} {
				c.Checks++
				var got []*Entity
				since := uint64(0)
				pages := 0
				bad := false
				for {
					r, err := ds.GetChanges(since, limit, lo)
					if err != nil {
						c.fail("C02:page-error:"+md.Name, "GetChanges failed: "+err.Error(), nil)
						bad = true
						break
					}
					pages++
					if len(r.Entities) == 0 {
						if r.NextToken != since && !lo {
							c.fail("C02:page-empty-token:"+md.Name, "empty page moved the token", nil)
						}
						break
					}
					if limit > 0 && len(r.Entities) > limit {
						c.fail(fmt.Sprintf("C02:page-size:%s:%d", md.Name, limit), fmt.Sprintf("page with %d entries for limit %d", len(r.Entities), limit), nil)
					}
					got = append(got, r.Entities...)
					if r.NextToken <= since {
						c.fail("C02:page-token:"+md.Name, "token did not advance after a non-empty page", nil)
						bad = true
						break
					}
					since = r.NextToken
					if pages > len(want)+10 {
						c.fail("C02:page-loop:"+md.Name, "paging does not terminate", nil)
						bad = true
						break
					}
				}
				if bad {
					continue
				}
				if ok, msg := c.feedEq(got, want); !ok {
					c.fail(fmt.Sprintf("C02:paged:%s:lo=%v:limit=%d", md.Name, lo, limit),
						fmt.Sprintf("reading %s with limit %d latestOnly=%v and following tokens: %s", md.Name, limit, lo, msg), nil)
				}
			}
		}
	}
}

// VReader is a token-carrying reader cursor (harness state for C02).
type VReader struct {
	DS    string
	Token uint64
	Got   []*Entity // everything this reader received (non latest-only readers)
	LO    bool
}

// ReaderStep performs one page read of reader r and checks it against the model.
func (c *VCheck) ReaderStep(r *VReader, limit int) {
	h := c.H
	md := h.M.Datasets[r.DS]
	ds := h.W.Dsm.GetDataset(h.DsName(r.DS))
	if md == nil || ds == nil {
		return
	}
	c.Checks++
	pos := h.changePositions(ds)
	idx := 0
	for idx < len(pos) && pos[idx] < r.Token {
		idx++
	}
	res, err := ds.GetChanges(r.Token, limit, r.LO)
	if err != nil {
		c.fail("C02:reader-error", "GetChanges failed: "+err.Error(), nil)
		return
	}
	var want []*model.Version
	nextIdx := idx
	if len(pos) != len(md.Feed) {
		return // reported by CheckFeed
	}
	if !r.LO {
		end := len(md.Feed)
		if limit > 0 && idx+limit < end {
			end = idx + limit
		}
		want = md.Feed[idx:end]
		nextIdx = end
	} else {
		nextIdx = len(md.Feed)
		for i := idx; i < len(md.Feed); i++ {
			if md.Latest(md.Feed[i].ID) == md.Feed[i] {
				want = append(want, md.Feed[i])
				if limit > 0 && len(want) == limit {
					nextIdx = i + 1
					break
				}
			}
		}
	}
	if ok, msg := c.feedEq(res.Entities, want); !ok {
		c.fail(fmt.Sprintf("C02:reader-page:lo=%v:limit=%d", r.LO, limit),
			fmt.Sprintf("reader on %s at feed index %d with limit %d latestOnly=%v: %s", r.DS, idx, limit, r.LO, msg), nil)
	}
	// the new token must denote nextIdx (or be unchanged when nothing was scanned)
	tIdx := 0
	for tIdx < len(pos) && pos[tIdx] < res.NextToken {
		tIdx++
	}
	if idx == len(pos) {
		if res.NextToken != r.Token {
			c.fail("C02:reader-end-token", fmt.Sprintf("reader at the end of %s got a different token back (%d -> %d)", r.DS, r.Token, res.NextToken), nil)
		}
	} else if tIdx != nextIdx {
		c.fail(fmt.Sprintf("C02:reader-token:lo=%v:limit=%d", r.LO, limit),
			fmt.Sprintf("reader on %s: token after the page denotes feed index %d, want %d (skips or repeats)", r.DS, tIdx, nextIdx), nil)
	}
	r.Token = res.NextToken
}

// ---------------------------------------------------------------- C03

type relQuery struct {
	Start   string
	Pred    string // abstract predicate or *
	Inverse bool
	Scope   []string // abstract dataset names
}

func (q relQuery) String() string {
	d := "out"
	if q.Inverse {
		d = "in"
	}
	return fmt.Sprintf("%s/%s/%s/%v", q.Start, q.Pred, d, q.Scope)
}

// expectedRel computes the model answer: set of "pred>related".
func (h *VHist) expectedRel(q relQuery, commit int) map[string]bool {
	g := h.M.Graph(q.Scope, commit)
	out := map[string]bool{}
	for e := range g {
		if q.Pred != "*" && e.Pred != q.Pred {
			continue
		}
		if !q.Inverse && e.Src == q.Start {
			out[e.Pred+">"+e.Dst] = true
		}
		if q.Inverse && e.Dst == q.Start {
			out[e.Pred+">"+e.Src] = true
		}
	}
	return out
}

func (h *VHist) relSet(rels []RelatedEntityResult) (map[string]int, []string) {
	out := map[string]int{}
	var l []string
	for _, r := range rels {
		k := h.AbsKey(r.PredicateURI) + ">" + h.AbsID(r.RelatedEntity.ID)
		out[k]++
		l = append(l, k)
	}
	sort.Strings(l)
	return out, l
}

func setKeys(m map[string]bool) []string {
	l := []string{}
	for k := range m {
		l = append(l, k)
	}
	sort.Strings(l)
	return l
}

func (h *VHist) scopeNames(scope []string) []string {
	var out []string
	for _, s := range scope {
		out = append(out, h.DsName(s))
	}
	return out
}

// runRel evaluates a relationship query at time at (0 = now) with the given limit, following continuations.
func (c *VCheck) runRel(q relQuery, at int64, limit int) (map[string]int, []string, error) {
	h := c.H
	pred := q.Pred
	if pred != "*" {
		pred = h.KeyURI(pred)
	}
	if at == 0 {
		at = time.Now().UnixNano()
	}
	from, err := h.W.Store.ToRelatedFrom([]string{h.URI(q.Start)}, pred, q.Inverse, h.scopeNames(q.Scope), at)
	if err != nil {
		return nil, nil, err
	}
	var all []RelatedEntityResult
	pages := 0
	for {
		res, err := h.W.Store.GetManyRelatedEntitiesAtTime(from, limit, true)
		if err != nil {
			return nil, nil, err
		}
		pages++
		all = append(all, res.Relations...)
		if len(res.Cont) == 0 {
			break
		}
		from = res.Cont
		if pages > 200 {
			return nil, nil, fmt.Errorf("continuation chain does not terminate")
		}
	}
	m, l := h.relSet(all)
	return m, l, nil
}

func (c *VCheck) relQueries(ids []string, preds []string, scopes [][]string) []relQuery {
	var qs []relQuery
	for _, s := range ids {
		for _, p := range preds {
			for _, inv := range []bool{false, true} {
				for _, sc := range scopes {
					qs = append(qs, relQuery{s, p, inv, sc})
				}
			}
		}
	}
	return qs
}

// onlyMultiPredSources reports whether every mismatching entry (missing or
// extra "pred>src") of a wildcard incoming query concerns a source entity that,
// in the in-scope datasets, has at some time carried two or more different
// predicates to the query's start entity. This is the input class of the
// recorded known finding; any other mismatch is reported normally.
func (h *VHist) onlyMultiPredSources(q relQuery, got map[string]int, want map[string]bool) bool {
	// the (target, source) pair is what the implementation keys its deleted flag on: all versions of the source in all
	// datasets of the scope count (q removed in A while B still carries p shows the same defect)
	multi := map[string]bool{}
	predsOf := map[string]map[string]bool{}
	for _, d := range h.M.LiveInOrder() {
		if len(q.Scope) > 0 && !containsStr(q.Scope, d.Name) {
			continue
		}
		for id, vs := range d.Versions {
			if predsOf[id] == nil {
				predsOf[id] = map[string]bool{}
			}
			for _, v := range vs {
				for p, ts := range v.C.RefTargets() {
					for _, t := range ts {
						if t == q.Start {
							predsOf[id][p] = true
						}
					}
				}
			}
		}
	}
	for id, preds := range predsOf {
		if len(preds) >= 2 {
			multi[id] = true
		}
	}
	src := func(k string) string { return k[strings.Index(k, ">")+1:] }
	any := false
	for k := range want {
		if got[k] == 0 {
			any = true
			if !multi[src(k)] {
				return false
			}
		}
	}
	for k := range got {
		if !want[k] {
			any = true
			if !multi[src(k)] {
				return false
			}
		}
	}
	return any
}

func containsStr(l []string, s string) bool {
	for _, x := range l {
		if x == s {
			return true
		}
	}
	return false
}

// CheckRelations is the C03 oracle on the current state.
func (c *VCheck) CheckRelations(ids []string, scopes [][]string) {
	h := c.H
	for _, q := range c.relQueries(ids, []string{"p", "q", "*"}, scopes) {
		want := h.expectedRel(q, -1)
		for _, limit := range []int{0, 1, 2} {
			c.Checks++
			got, gl, err := c.runRel(q, 0, limit)
			if err != nil {
				if len(want) == 0 && (strings.Contains(err.Error(), "could not load predicate") || strings.Contains(err.Error(), "invalid query startpoint")) {
					continue // unknown predicate / start: nothing can be related
				}
				c.fail(fmt.Sprintf("C03:error:%s:limit=%d", q, limit), fmt.Sprintf("relationship query %s limit %d failed: %v (model expects %v)", q, limit, err, setKeys(want)), nil)
				continue
			}
			dup := false
			for _, n := range got {
				if n > 1 {
					dup = true
				}
			}
			same := len(got) == len(want)
			for k := range want {
				if got[k] == 0 {
					same = false
				}
			}
			if !same || dup {
				clause := "C03:set"
				if limit > 0 {
					clause = "C03:paged"
				}
				if q.Inverse && q.Pred == "*" && !dup && h.onlyMultiPredSources(q, got, want) {
					// known finding: see known_findings.json (wildcard incoming query, source with several predicates to the target)
					clause = "C03:KF-incoming-wildcard-multipred:" + clause[4:]
				}
				c.fail(fmt.Sprintf("%s:%s:limit=%d", clause, q, limit),
					fmt.Sprintf("relationship query %s limit %d returns %v, graph of latest versions gives %v", q, limit, gl, setKeys(want)), nil)
			}
		}
	}
	// multi-start accounting (unscoped: left out when the harness keeps a dataset the model does not know)
	if len(ids) >= 2 && !c.ScopedOnly {
		for _, inv := range []bool{false, true} {
			for _, limit := range []int{0, 1, 2} {
				c.Checks++
				want := map[string]bool{}
				for _, s := range ids[:2] {
					for k := range h.expectedRel(relQuery{s, "*", inv, nil}, -1) {
						want[s+":"+k] = true
					}
				}
				from, err := h.W.Store.ToRelatedFrom([]string{h.URI(ids[0]), h.URI(ids[1])}, "*", inv, nil, time.Now().UnixNano())
				if err != nil || from == nil {
					if len(want) != 0 {
						// a start point unknown to the store yields no query at all; only a violation if the model expects results from the known one
						known := true
						for _, s := range ids[:2] {
							if e, _ := h.W.Store.GetEntity(h.URI(s), nil, true); e == nil {
								known = false
							}
						}
						if known {
							c.fail(fmt.Sprintf("C03:multi-error:inv=%v", inv), fmt.Sprintf("multi-start query failed: %v", err), nil)
						}
					}
					continue
				}
				got := map[string]int{}
				pages := 0
				for {
					res, err := h.W.Store.GetManyRelatedEntitiesAtTime(from, limit, true)
					if err != nil {
						c.fail("C03:multi-error2", err.Error(), nil)
						break
					}
					for _, r := range res.Relations {
						got[h.AbsID(r.StartURI)+":"+h.AbsKey(r.PredicateURI)+">"+h.AbsID(r.RelatedEntity.ID)]++
					}
					pages++
					if len(res.Cont) == 0 || pages > 200 {
						break
					}
					from = res.Cont
				}
				same := len(got) == len(want)
				for k := range want {
					if got[k] != 1 {
						same = false
					}
				}
				if !same {
					clause := fmt.Sprintf("C03:multi:inv=%v:limit=%d", inv, limit)
					if inv {
						// attribute to the known finding only if every mismatch concerns a multi-predicate source of its start
						kf := true
						for _, s := range ids[:2] {
							g1 := map[string]int{}
							w1 := map[string]bool{}
							for k, n := range got {
								if strings.HasPrefix(k, s+":") {
									g1[k[len(s)+1:]] = n
								}
							}
							for k := range want {
								if strings.HasPrefix(k, s+":") {
									w1[k[len(s)+1:]] = true
								}
							}
							differs := len(g1) != len(w1)
							for k := range w1 {
								if g1[k] != 1 {
									differs = true
								}
							}
							if differs && !h.onlyMultiPredSources(relQuery{s, "*", true, nil}, g1, w1) {
								kf = false
							}
							for _, n := range g1 {
								if n > 1 {
									kf = false
								}
							}
						}
						if kf {
							clause = "C03:KF-incoming-wildcard-multipred:" + clause[4:]
						}
					}
					c.fail(clause, fmt.Sprintf("multi-start query limit %d returns %v want %v", limit, got, setKeys(want)), nil)
				}
			}
		}
	}
}

// ---------------------------------------------------------------- C06

// VInstant is a recorded instant with the truth that was current then.
type VInstant struct {
	T      int64
	Label  string
	Commit int // model commit index current at T
	Ent    map[string]model.Content
	EntNil map[string]bool
	Rel    map[string][]string
}

func lookupKey(id string, scope []string, merge bool) string {
	return fmt.Sprintf("%s/%v/%v", id, scope, merge)
}

// snapshotNow evaluates the current-state queries (the truth for "now").
func (c *VCheck) snapshotAt(ids []string, scopes [][]string, at int64, current bool) *VInstant {
	h := c.H
	in := &VInstant{T: at, Ent: map[string]model.Content{}, EntNil: map[string]bool{}, Rel: map[string][]string{}}
	for _, id := range ids {
		txn := h.W.Store.database.NewTransaction(false)
		rid, exists, _ := h.W.Store.getIDForURI(txn, h.Curie(id))
		txn.Discard()
		for _, sc := range scopes {
			for _, merge := range []bool{true} {
				k := lookupKey(id, sc, merge)
				if !exists {
					in.EntNil[k] = true
					continue
				}
				var e *Entity
				var err error
				scope := h.W.Store.DatasetsToInternalIDs(h.scopeNames(sc))
				if current {
					e, err = h.W.Store.GetEntityWithInternalID(rid, scope, merge)
				} else {
					e, err = h.W.Store.GetEntityAtPointInTimeWithInternalID(rid, at, scope, merge)
				}
				if err != nil || e == nil {
					in.EntNil[k] = true
					continue
				}
				in.Ent[k] = h.AbsContent(e)
			}
		}
	}
	for _, q := range c.relQueries(ids, []string{"p", "*"}, scopes) {
		for _, limit := range []int{0, 1, 2} {
			qat := at
			if current {
				qat = 0
			}
			_, l, err := c.runRel(q, qat, limit)
			k := fmt.Sprintf("%s/limit=%d", q, limit)
			if err != nil {
				in.Rel[k] = []string{"error"}
				if strings.Contains(err.Error(), "could not load predicate") || strings.Contains(err.Error(), "invalid query startpoint") {
					in.Rel[k] = nil
				}
				continue
			}
			in.Rel[k] = l
		}
	}
	return in
}

// kfWildcardIncoming: the input class of the recorded C03 known finding, for point-in-time queries: a wildcard
// incoming query (key "<start>/*/in/...") whose differing entries all concern sources that have at some time
// carried two or more predicates to the start entity.
func (h *VHist) kfWildcardIncoming(key string, a, b []string) bool {
	f := strings.Split(key, "/")
	if len(f) < 3 || f[1] != "*" || f[2] != "in" {
		return false
	}
	am, bm := map[string]int{}, map[string]bool{}
	for _, x := range a {
		am[x]++
	}
	for _, x := range b {
		bm[x] = true
	}
	return h.onlyMultiPredSources(relQuery{Start: f[0], Pred: "*", Inverse: true}, am, bm)
}

// CompareInstant compares a point-in-time evaluation with the recorded truth.
func (c *VCheck) CompareInstant(truth, got *VInstant) {
	c.Checks++
	for k, w := range truth.Ent {
		g, ok := got.Ent[k]
		if !ok {
			c.fail("C06:entity-missing:"+truth.Label+":"+k, fmt.Sprintf("lookup %s as of instant %s returns nothing; at that instant the current-state lookup returned %s", k, truth.Label, w), nil)
			continue
		}
		if !contentEq(g, w) {
			c.fail("C06:entity:"+truth.Label+":"+k, fmt.Sprintf("lookup %s as of instant %s returns %s; at that instant the current-state lookup returned %s", k, truth.Label, g, w), nil)
		}
	}
	for k := range truth.EntNil {
		if g, ok := got.Ent[k]; ok && (!emptyContent(g) || g.Deleted) {
			c.fail("C06:entity-phantom:"+truth.Label+":"+k, fmt.Sprintf("lookup %s as of instant %s returns %s; at that instant it returned nothing", k, truth.Label, g), nil)
		}
	}
	for k, w := range truth.Rel {
		g := got.Rel[k]
		if i := strings.Index(k, "/limit="); i >= 0 && !strings.HasSuffix(k, "/limit=0") {
			// "a paged query continued through its continuation tokens returns the result set as of t":
			// the pages together against the unpaged truth of that instant (as sets)
			full, ok := truth.Rel[k[:i]+"/limit=0"]
			if ok && !(len(full) == 1 && full[0] == "error") && !(len(g) == 1 && g[0] == "error") {
				gs, fs := map[string]bool{}, map[string]bool{}
				for _, x := range g {
					gs[x] = true
				}
				for _, x := range full {
					fs[x] = true
				}
				if !reflect.DeepEqual(gs, fs) && c.H.kfWildcardIncoming(k, setKeys(gs), setKeys(fs)) {
					c.fail("C06:KF-incoming-wildcard-multipred:"+truth.Label+":"+k, fmt.Sprintf("paged wildcard incoming query %s as of instant %s returns the set %v; the result set of that instant was %v", k, truth.Label, setKeys(gs), setKeys(fs)), nil)
				} else if !reflect.DeepEqual(gs, fs) {
					c.fail("C06:rel-paged-set:"+truth.Label+":"+k, fmt.Sprintf("paged relationship query %s as of instant %s returns the set %v; the result set of that instant was %v", k, truth.Label, setKeys(gs), setKeys(fs)), nil)
				}
			}
		}
		if len(w) == 0 && len(g) == 0 {
			continue
		}
		if !reflect.DeepEqual(g, w) && c.H.kfWildcardIncoming(k, g, w) {
			c.fail("C06:KF-incoming-wildcard-multipred:"+truth.Label+":"+k, fmt.Sprintf("wildcard incoming query %s as of instant %s returns %v; at that instant the current-state query returned %v", k, truth.Label, g, w), nil)
		} else if !reflect.DeepEqual(g, w) {
			c.fail("C06:rel:"+truth.Label+":"+k, fmt.Sprintf("relationship query %s as of instant %s returns %v; at that instant the current-state query returned %v", k, truth.Label, g, w), nil)
		}
	}
}

// ChangePositions exposes the raw change-log positions to harnesses of other packages.
func (h *VHist) ChangePositions(ds *Dataset) []uint64 { return h.changePositions(ds) }

// SnapshotAt / CompareInstant exported for harnesses of other packages.
func (c *VCheck) SnapshotAt(ids []string, scopes [][]string, at int64, current bool) *VInstant {
	return c.snapshotAt(ids, scopes, at, current)
}

func (c *VCheck) Fail(clause, what string) { c.fail(clause, what, nil) }

func VScopes(dss []string) [][]string { return vScopes(dss) }

// KFWildcardIncoming exposes the input-class test of the recorded C03 known finding to harnesses of other packages.
func (h *VHist) KFWildcardIncoming(start string, scope []string, got map[string]int, want map[string]bool) bool {
	return h.onlyMultiPredSources(relQuery{Start: start, Pred: "*", Inverse: true, Scope: scope}, got, want)
}
