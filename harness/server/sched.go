package server

import (
	"encoding/json"
	"fmt"
	"os"
	"reflect"
	"runtime"
	"sort"
	"strings"
	"time"

	"github.com/dgraph-io/badger/v4"

	"github.com/mimiro-io/datahub/internal/verifhook"
	"github.com/mimiro-io/datahub/internal/verifrt/engine"
	"github.com/mimiro-io/datahub/internal/verifrt/model"
	"github.com/mimiro-io/datahub/internal/verifrt/vsync"
)

// SchedScenario is a closed multi-threaded driver over the store API.
type SchedScenario struct {
	Name      string   `json:"name"`
	Datasets  []string `json:"datasets"`
	IDs       []string `json:"ids"`
	Pre       []VOp    `json:"pre"`
	Threads   [][]VOp  `json:"threads"`
	MapPoints bool     `json:"map_points,omitempty"`
	// TxnOrder: insertion order of the datasets into the transaction map, per thread index (environment answer)
	Oracle string `json:"oracle,omitempty"` // "" = linearizable final state + atomic reads
	// CoarseBadger: only badger snapshot/commit events (and operations that block) are scheduling points
	CoarseBadger bool `json:"coarse_badger,omitempty"`
}

// VInstallHooks routes the passive hooks into the active scheduler.
func VInstallHooks() {
	badger.VerifHook = func(ev int) {
		if s := vsync.Active(); s != nil {
			switch ev {
			case badger.VerifSnapshot:
				s.Point("badger:snapshot")
			case badger.VerifBeforeCommit:
				s.Point("badger:commit")
			case badger.VerifBackupStart:
				s.Point("badger:backup-start")
			case badger.VerifBackupDone:
				s.Point("badger:backup-done")
			case badger.VerifMaxVersion:
				s.Point("badger:max-version")
			}
		}
	}
	verifhook.Handler = func(name string) {
		if s := vsync.Active(); s != nil {
			s.Point(name)
		}
	}
	verifhook.AccessHandler = func(obj interface{}, field string, write bool) {
		if s := vsync.Active(); s != nil {
			s.AccessPoint(field+"@"+VIdentity(obj), write, vCaller())
		}
	}
}

// VIdentity returns the identity of the object behind a hook argument (maps and pointers by address).
func VIdentity(obj interface{}) string {
	v := reflect.ValueOf(obj)
	switch v.Kind() {
	case reflect.Map, reflect.Ptr, reflect.Slice, reflect.Chan, reflect.Func, reflect.UnsafePointer:
		return fmt.Sprintf("%x", v.Pointer())
	}
	return fmt.Sprintf("%v", obj)
}

func vCaller() string {
	for skip := 3; skip < 8; skip++ {
		_, file, line, ok := runtime.Caller(skip)
		if !ok {
			break
		}
		if strings.Contains(file, "verifhook") || strings.Contains(file, "zz_verif_sched") {
			continue
		}
		if i := strings.LastIndex(file, "/internal/"); i >= 0 {
			file = file[i+1:]
		}
		return fmt.Sprintf("%s:%d", file, line)
	}
	return "?"
}

type opResult struct {
	OK   bool   `json:"ok"`
	Err  string `json:"err,omitempty"`
	Read string `json:"read,omitempty"`
}

// readOp evaluates a single-call read and returns its digest.
func (h *VHist) readOp(op VOp) (string, error) {
	switch op.K {
	case "get": // unscoped merged lookup
		e, err := h.W.Store.GetEntity(h.URI(op.Ents[0].ID), nil, true)
		if err != nil {
			return "", err
		}
		if e == nil {
			return "nil", nil
		}
		return h.AbsContent(e).String(), nil
	case "getin": // scoped lookup
		e, err := h.W.Store.GetEntity(h.URI(op.Ents[0].ID), []string{h.DsName(op.DS)}, true)
		if err != nil {
			return "", err
		}
		if e == nil {
			return "nil", nil
		}
		return h.AbsContent(e).String(), nil
	case "feed":
		ds := h.W.Dsm.GetDataset(h.DsName(op.DS))
		if ds == nil {
			return "nodataset", nil
		}
		ch, err := ds.GetChanges(0, 0, false)
		if err != nil {
			return "", err
		}
		return h.entsDigest(ch.Entities), nil
	case "feedlo": // ONE latest-only feed page
		ds := h.W.Dsm.GetDataset(h.DsName(op.DS))
		if ds == nil {
			return "nodataset", nil
		}
		ch, err := ds.GetChanges(0, 0, true)
		if err != nil {
			return "", err
		}
		return h.entsDigest(ch.Entities), nil
	case "countlist": // number of entities ONE listing call returns
		ds := h.W.Dsm.GetDataset(h.DsName(op.DS))
		if ds == nil {
			return "nodataset", nil
		}
		n := 0
		if _, err := ds.MapEntitiesRaw("", -1, func([]byte) error { n++; return nil }); err != nil {
			return "", err
		}
		return fmt.Sprint(n), nil
	case "countfeed": // number of entries ONE feed page returns
		ds := h.W.Dsm.GetDataset(h.DsName(op.DS))
		if ds == nil {
			return "nodataset", nil
		}
		c := 0
		if _, err := ds.ProcessChangesRaw(0, -1, false, func([]byte) error { c++; return nil }); err != nil {
			return "", err
		}
		return fmt.Sprint(c), nil
	case "list":
		ds := h.W.Dsm.GetDataset(h.DsName(op.DS))
		if ds == nil {
			return "nodataset", nil
		}
		r, err := ds.GetEntities("", -1)
		if err != nil {
			return "", err
		}
		l := []string{}
		for _, e := range r.Entities {
			l = append(l, h.AbsID(e.ID)+"="+h.AbsContent(e).String())
		}
		sort.Strings(l)
		return strings.Join(l, " "), nil
	}
	return "", fmt.Errorf("not a read op %s", op.K)
}

func (h *VHist) entsDigest(es []*Entity) string {
	l := []string{}
	for _, e := range es {
		l = append(l, h.AbsID(e.ID)+"="+h.AbsContent(e).String())
	}
	return strings.Join(l, " ")
}

func isRead(k string) bool {
	return k == "get" || k == "getin" || k == "feed" || k == "feedlo" || k == "list" || k == "countlist" || k == "countfeed"
}

// modelRead is the model-side digest of a read op.
func (h *VHist) modelRead(m *model.World, op VOp) string {
	switch op.K {
	case "get":
		c, parts, anyDel := m.Merged(op.Ents[0].ID, nil, -1)
		if parts == 0 {
			if !anyDel && !modelKnows(m, op.Ents[0].ID) {
				return "nil|" + model.Content{Props: map[string]interface{}{}, Refs: map[string]interface{}{}}.String()
			}
			return model.Content{Props: map[string]interface{}{}, Refs: map[string]interface{}{}, Deleted: anyDel}.String()
		}
		return c.String()
	case "getin":
		c, parts, anyDel := m.Merged(op.Ents[0].ID, []string{op.DS}, -1)
		if parts == 0 {
			if !anyDel && !modelKnows(m, op.Ents[0].ID) {
				return "nil|" + model.Content{Props: map[string]interface{}{}, Refs: map[string]interface{}{}}.String()
			}
			return model.Content{Props: map[string]interface{}{}, Refs: map[string]interface{}{}, Deleted: anyDel}.String()
		}
		return c.String()
	case "countlist":
		d := m.Datasets[op.DS]
		if d == nil {
			return "nodataset"
		}
		return fmt.Sprint(len(d.Versions))
	case "countfeed":
		d := m.Datasets[op.DS]
		if d == nil {
			return "nodataset"
		}
		return fmt.Sprint(len(d.Feed))
	case "feed":
		d := m.Datasets[op.DS]
		if d == nil {
			return "nodataset"
		}
		return strings.Join(model.FeedStrings(d.Feed), " ")
	case "feedlo":
		d := m.Datasets[op.DS]
		if d == nil {
			return "nodataset"
		}
		return strings.Join(model.FeedStrings(d.LatestOnlyFeed()), " ")
	case "list":
		d := m.Datasets[op.DS]
		if d == nil {
			return "nodataset"
		}
		l := []string{}
		for id, c := range d.LatestView() {
			l = append(l, id+"="+c.String())
		}
		sort.Strings(l)
		return strings.Join(l, " ")
	}
	return "?"
}

func modelKnows(m *model.World, id string) bool {
	for _, d := range m.Datasets {
		if len(d.Versions[id]) > 0 {
			return true
		}
	}
	for _, d := range m.Dead {
		if len(d.Versions[id]) > 0 {
			return true
		}
	}
	return false
}

func readMatches(got, want string) bool {
	for _, w := range strings.Split(want, "|") {
		if got == w {
			return true
		}
	}
	return false
}

// modelApplyR applies an op to a model and reports whether the model accepts it.
func (h *VHist) modelApplyR(m *model.World, op VOp) bool {
	switch op.K {
	case "batch":
		if m.Datasets[op.DS] == nil {
			return false
		}
		_, ms := h.ents(op.allEnts())
		_, _ = m.Batch(op.DS, ms)
		return true
	case "txn":
		mp := map[string][]model.Ent{}
		for n, l := range op.Parts {
			if m.Datasets[n] == nil {
				return false
			}
			_, ms := h.ents(l)
			mp[n] = ms
		}
		_ = m.Txn(mp)
		return true
	case "badbatch":
		return false // rejected as a whole: nothing of it may be visible
	case "create":
		m.Create(op.DS)
		return true
	case "delete":
		return m.Delete(op.DS)
	case "rename":
		return m.Rename(op.DS, op.To)
	}
	return true
}

// finalDigest: dataset names + per dataset feed + unscoped lookups.
func (h *VHist) finalDigestImpl(names []string, ids []string) string {
	var parts []string
	for _, n := range names {
		ds := h.W.Dsm.GetDataset(h.DsName(n))
		if ds == nil {
			parts = append(parts, n+":-")
			continue
		}
		ch, err := ds.GetChanges(0, 0, false)
		if err != nil {
			parts = append(parts, n+":error "+err.Error())
			continue
		}
		parts = append(parts, n+":["+h.entsDigest(ch.Entities)+"]")
	}
	for _, id := range ids {
		e, err := h.W.Store.GetEntity(h.URI(id), nil, true)
		switch {
		case err != nil:
			parts = append(parts, id+"=error")
		case e == nil:
			parts = append(parts, id+"="+model.Content{Props: map[string]interface{}{}, Refs: map[string]interface{}{}}.String())
		default:
			parts = append(parts, id+"="+h.AbsContent(e).String())
		}
	}
	return strings.Join(parts, " ; ")
}

func (h *VHist) finalDigestModel(m *model.World, names []string, ids []string) string {
	var parts []string
	for _, n := range names {
		d := m.Datasets[n]
		if d == nil {
			parts = append(parts, n+":-")
			continue
		}
		parts = append(parts, n+":["+strings.Join(model.FeedStrings(d.Feed), " ")+"]")
	}
	for _, id := range ids {
		c, parts2, anyDel := m.Merged(id, nil, -1)
		if parts2 == 0 {
			c = model.Content{Props: map[string]interface{}{}, Refs: map[string]interface{}{}, Deleted: anyDel}
		}
		parts = append(parts, id+"="+c.String())
	}
	return strings.Join(parts, " ; ")
}

// allDatasetNames lists every dataset name a scenario can touch.
func (sc *SchedScenario) allNames() []string {
	seen := map[string]bool{}
	var out []string
	add := func(n string) {
		if n != "" && !seen[n] {
			seen[n] = true
			out = append(out, n)
		}
	}
	for _, d := range sc.Datasets {
		add(d)
	}
	for _, th := range sc.Threads {
		for _, op := range th {
			add(op.DS)
			add(op.To)
			for n := range op.Parts {
				add(n)
			}
		}
	}
	sort.Strings(out)
	return out
}

// vRunSched executes the scenario once under the scheduler with the given choice prefix.
func vRunSched(w *VWorld, sc *SchedScenario, prefix []int, horizon int) *vsync.Execution {
	h := w.NewHist()
	for _, n := range sc.Datasets {
		if _, err := w.Dsm.CreateDataset(h.DsName(n), nil); err != nil {
			return &vsync.Execution{HarnessErr: err.Error()}
		}
		h.M.Create(n)
	}
	for _, op := range sc.Pre {
		if err := h.vApplyImpl(op); err != nil {
			return &vsync.Execution{HarnessErr: "pre: " + err.Error()}
		}
		h.ModelApply(op)
	}
	s := vsync.NewSched(prefix, horizon)
	s.MapPoints = sc.MapPoints
	if sc.CoarseBadger {
		s.Coarse = func(label string) bool { return strings.HasPrefix(label, "badger:") }
	}
	for _, n := range append([]string{datasetCore}, sc.Datasets...) {
		if ds := w.Dsm.GetDataset(h.DsName(n)); ds != nil {
			s.NameLock(&ds.WriteLock, "WriteLock:"+n)
		}
	}
	s.NameLock(&w.Dsm.lock, "DsManager.lock")
	s.NameLock(w.Store.idmux, "Store.idmux")
	s.NameLock(&w.Store.NamespaceManager.lock, "NamespaceManager.lock")
	results := make([][]opResult, len(sc.Threads))
	// token-carrying feed readers (op "tokread"): per thread the token it holds and everything it has received
	tokens := make([]uint64, len(sc.Threads))
	received := make([][]string, len(sc.Threads))
	tokDS := make([]string, len(sc.Threads))
	// instants taken by reader threads (op "snap"): the as-of-t answers recorded when t was now
	var snaps []*VInstant
	snapChk := &VCheck{H: h, SkipKnownC03: true}
	var bodies []func()
	var names []string
	for ti, th := range sc.Threads {
		ti, th := ti, th
		results[ti] = make([]opResult, len(th))
		names = append(names, fmt.Sprintf("client%d", ti))
		bodies = append(bodies, func() {
			for oi, op := range th {
				if op.K == "snap" {
					// an instant t = now, and what the point-in-time APIs answer for it right away
					results[ti][oi] = opResult{OK: true}
					t := time.Now().UnixNano()
					in := snapChk.snapshotAt(sc.IDs[:1], [][]string{nil}, t, false) // the first id, unscoped: few scheduling points
					in.Label = fmt.Sprintf("snap-%d-%d", ti, oi)
					snaps = append(snaps, in)
					continue
				}
				if op.K == "tokread" {
					results[ti][oi] = opResult{OK: true}
					tokDS[ti] = op.DS
					if ds := w.Dsm.GetDataset(h.DsName(op.DS)); ds != nil {
						if ch, err := ds.GetChanges(tokens[ti], op.L, false); err == nil {
							for _, e := range ch.Entities {
								received[ti] = append(received[ti], h.AbsID(e.ID)+"="+h.AbsContent(e).String())
							}
							tokens[ti] = ch.NextToken
						} else {
							results[ti][oi] = opResult{Err: err.Error()}
						}
					}
					continue
				}
				if isRead(op.K) {
					d, err := h.readOp(op)
					if err != nil {
						results[ti][oi] = opResult{Err: err.Error()}
					} else {
						results[ti][oi] = opResult{OK: true, Read: d}
					}
					continue
				}
				if err := h.vApplyImpl(op); err != nil {
					results[ti][oi] = opResult{Err: err.Error()}
				} else {
					results[ti][oi] = opResult{OK: true}
				}
			}
		})
	}
	timedOut := s.Run(bodies, names, 20*time.Second)
	x := vsync.Collect(s, timedOut)
	if x.Fatal() || len(x.Panics) > 0 {
		return x
	}
	// ---- oracle: some total order consistent with program order explains everything ----
	allNames := sc.allNames()
	impl := h.finalDigestImpl(allNames, sc.IDs)
	x.Outcome = impl
	type pos struct{ t, i int }
	var explain func(m *model.World, idx []int) bool
	total := 0
	for _, th := range sc.Threads {
		total += len(th)
	}
	cloneWorld := func(ops []pos) *model.World {
		m := model.NewWorld()
		for _, n := range sc.Datasets {
			m.Create(n)
		}
		hh := &VHist{W: w, Tag: h.Tag, M: m}
		for _, op := range sc.Pre {
			hh.ModelApply(op)
		}
		for _, p := range ops {
			h.modelApplyR(m, sc.Threads[p.t][p.i])
		}
		return m
	}
	var order []pos
	var why string
	explain = func(_ *model.World, idx []int) bool {
		if len(order) == total {
			m := cloneWorld(order)
			want := h.finalDigestModel(m, allNames, sc.IDs)
			if want == impl {
				return true
			}
			if why == "" {
				why = "e.g. order " + fmt.Sprint(order) + " gives " + want
			}
			return false
		}
		for t := range sc.Threads {
			i := idx[t]
			if i >= len(sc.Threads[t]) {
				continue
			}
			op := sc.Threads[t][i]
			res := results[t][i]
			m := cloneWorld(order)
			okStep := true
			if isRead(op.K) {
				if !res.OK || !readMatches(res.Read, h.modelRead(m, op)) {
					okStep = false
				}
			} else {
				accepted := h.modelApplyR(m, op)
				if accepted != res.OK {
					okStep = false
				}
			}
			if !okStep {
				continue
			}
			order = append(order, pos{t, i})
			idx[t]++
			if explain(nil, idx) {
				return true
			}
			idx[t]--
			order = order[:len(order)-1]
		}
		return false
	}
	if !explain(nil, make([]int, len(sc.Threads))) {
		rs, _ := json.Marshal(results)
		x.Viol = append(x.Viol, fmt.Sprintf("no total order of the operations consistent with each client's order explains the results %s and the final state %s (%s)", rs, impl, why))
	} else if sc.Oracle == "instants" {
		// C06: an answer pinned to an instant does not change afterwards, whatever was in flight at that instant
		for _, in := range snaps {
			again := snapChk.snapshotAt(sc.IDs[:1], [][]string{nil}, in.T, false)
			before := len(snapChk.Viol)
			snapChk.CompareInstant(in, again)
			for _, v := range snapChk.Viol[before:] {
				clause := v.Key
				if i := strings.Index(clause, "|"); i >= 0 {
					clause = clause[:i]
				}
				clause = strings.Replace(clause, in.Label, "snap", 1)
				x.Viol = append(x.Viol, clause+"::an instant taken while a writer was in flight: "+v.What)
			}
		}
	} else if sc.Oracle == "tokens" {
		// C02: a reader that follows its tokens, and finally reads to the end, has received the whole feed: nothing
		// skipped, nothing twice, whatever the writers did in between
		for ti := range sc.Threads {
			if tokDS[ti] == "" {
				continue
			}
			ds := w.Dsm.GetDataset(h.DsName(tokDS[ti]))
			if ds == nil {
				continue
			}
			rest, err1 := ds.GetChanges(tokens[ti], 0, false)
			full, err2 := ds.GetChanges(0, 0, false)
			if err1 != nil || err2 != nil {
				x.Viol = append(x.Viol, fmt.Sprintf("C02:token-reader-error::%v %v", err1, err2))
				continue
			}
			got := append([]string{}, received[ti]...)
			for _, e := range rest.Entities {
				got = append(got, h.AbsID(e.ID)+"="+h.AbsContent(e).String())
			}
			var want []string
			for _, e := range full.Entities {
				want = append(want, h.AbsID(e.ID)+"="+h.AbsContent(e).String())
			}
			if strings.Join(got, " ") != strings.Join(want, " ") {
				x.Viol = append(x.Viol, fmt.Sprintf("C02:token-reader-misses-or-repeats::a reader of %s that followed its tokens while writers were active, and then read to the end, received %v; the feed from the start is %v", tokDS[ti], got, want))
			}
		}
	} else if sc.Oracle == "cat" {
		// C19: at the quiescent end the catalogue must agree with the datasets; distinct-id counts do not depend on the order
		m := cloneWorld(order)
		hh := &VHist{W: w, Tag: h.Tag, M: m}
		chk := &VCheck{H: hh}
		chk.checkCatalogue(allNames, map[string]int{}, map[string][]string{})
		for _, v := range chk.Viol {
			clause := v.Key
			if i := strings.Index(clause, "|"); i >= 0 {
				clause = clause[:i]
			}
			x.Viol = append(x.Viol, clause+"::"+v.What)
		}
	}
	return x
}

// SchedTask is one unit of work for a sched worker: explore the subtree below Prefix.
type SchedTask struct {
	Scenario SchedScenario `json:"scenario"`
	Prefix   []int         `json:"prefix"`
	Want     []string      `json:"want,omitempty"`
	Root     bool          `json:"root,omitempty"`
	Bound    int           `json:"bound"`
	Horizon  int           `json:"horizon"`
	MaxExec  int           `json:"max_exec"`
	BudgetS  int           `json:"budget_s"`
	NotAfter int64         `json:"not_after,omitempty"`
	Single   bool          `json:"single,omitempty"` // run exactly this schedule (replay)
}

type SchedResult struct {
	Stats     *vsync.Stats `json:"stats"`
	Tasks     [][]int      `json:"tasks,omitempty"`
	RootLabel []string     `json:"root_labels,omitempty"`
	Fatal     bool         `json:"fatal"`
	HarnessEr string       `json:"harness_error,omitempty"`
}

func vSchedWorker(runOnce func(w *VWorld, sc *SchedScenario, prefix []int, horizon int) *vsync.Execution) func(task []byte) interface{} {
	return func(task []byte) interface{} {
		var t SchedTask
		if err := json.Unmarshal(task, &t); err != nil {
			return SchedResult{HarnessEr: err.Error()}
		}
		VInstallHooks()
		ex := &vsync.Explorer{Bound: t.Bound, MaxExec: t.MaxExec, Stats: vsync.NewStats()}
		if t.BudgetS > 0 {
			ex.Deadline = time.Now().Add(time.Duration(t.BudgetS) * time.Second)
		}
		if t.NotAfter > 0 {
			if d := time.Unix(t.NotAfter, 0); ex.Deadline.IsZero() || d.Before(ex.Deadline) {
				ex.Deadline = d
			}
		}
		var herr string
		ex.Run = func(prefix []int) *vsync.Execution {
			w := vWorld()
			x := runOnce(w, &t.Scenario, prefix, t.Horizon)
			if x.HarnessErr != "" && herr == "" {
				herr = x.HarnessErr
			}
			if x.Fatal() || len(x.Panics) > 0 {
				// threads may be parked holding locks: abandon this world (the process exits after this task)
				vWorkerWorld = nil
			}
			return x
		}
		res := SchedResult{Stats: ex.Stats}
		switch {
		case t.Single:
			x := ex.Run(t.Prefix)
			ex.Stats.Record(x)
			if x.Fatal() {
				ex.FatalSeen = true
			}
		case t.Root:
			x, tasks := ex.RootTasks()
			res.Tasks = tasks
			res.RootLabel = x.Labels()
		default:
			ex.Explore(t.Prefix, t.Want)
		}
		res.Fatal = ex.FatalSeen
		res.HarnessEr = herr
		if ex.FatalSeen {
			// leaked parked goroutines: finish this task's answer, then let the process be replaced
			defer func() { go func() { time.Sleep(200 * time.Millisecond); os.Exit(0) }() }()
		}
		return res
	}
}

func init() {
	engine.RegisterWorker("sched-store", func(args []string) {
		defer func() {
			if vWorkerWorld != nil {
				vWorkerWorld.Destroy()
			}
		}()
		engine.ServeWorker(vSchedWorker(vRunSched))
	})
}

// VSchedWorker exposes the generic sched worker loop to harnesses of other packages.
func VSchedWorker(runOnce func(w *VWorld, sc *SchedScenario, prefix []int, horizon int) *vsync.Execution) func(task []byte) interface{} {
	return vSchedWorker(runOnce)
}

func VWorkerWorldDestroy() {
	if vWorkerWorld != nil {
		vWorkerWorld.Destroy()
		vWorkerWorld = nil
	}
}

// FinalDigestImpl / FinalDigestModel exported.
func (h *VHist) FinalDigestImpl(names, ids []string) string { return h.finalDigestImpl(names, ids) }
func (h *VHist) FinalDigestModel(m *model.World, names, ids []string) string {
	return h.finalDigestModel(m, names, ids)
}
