package server

// Free-running complement of SCHED (DESIGN 2.3): the same scenario bodies are run as ordinary goroutines, without
// the cooperative scheduler, in a binary built with -race. The cooperative scheduler's hand-offs are happens-before
// edges that blind the race detector, and a lock that is simply missing creates no scheduling point; this pass is
// what notices an unsynchronised access. It samples schedules (it is not the deciding step of any property); a race
// it reports inside datahub code is reported with both stacks.

import (
	"encoding/json"
	"fmt"
	"os"
	"sync"

	"github.com/mimiro-io/datahub/internal/verifrt/engine"
)

func vRunFree(w *VWorld, sc *SchedScenario) error {
	h := w.NewHist()
	for _, n := range sc.Datasets {
		if _, err := w.Dsm.CreateDataset(h.DsName(n), nil); err != nil {
			return err
		}
	}
	for _, op := range sc.Pre {
		if err := h.vApplyImpl(op); err != nil {
			return fmt.Errorf("pre: %v", err)
		}
	}
	var wg sync.WaitGroup
	start := make(chan struct{})
	for _, th := range sc.Threads {
		th := th
		wg.Add(1)
		go func() {
			defer wg.Done()
			defer func() { _ = recover() }()
			<-start
			for _, op := range th {
				if op.K == "tokread" || op.K == "snap" {
					continue
				}
				if isRead(op.K) {
					_, _ = h.readOp(op)
					continue
				}
				_ = h.vApplyImpl(op)
			}
		}()
	}
	close(start)
	wg.Wait()
	return nil
}

type RaceTask struct {
	Scenario SchedScenario `json:"scenario"`
	N        int           `json:"n"`
}

func init() {
	engine.RegisterWorker("race-store", func(args []string) {
		defer func() {
			if vWorkerWorld != nil {
				vWorkerWorld.Destroy()
			}
		}()
		engine.ServeWorker(func(task []byte) interface{} {
			var t RaceTask
			if err := json.Unmarshal(task, &t); err != nil {
				return map[string]interface{}{"error": err.Error()}
			}
			for i := 0; i < t.N; i++ {
				if err := vRunFree(vWorld(), &t.Scenario); err != nil {
					return map[string]interface{}{"error": err.Error()}
				}
			}
			return map[string]interface{}{"runs": t.N, "pid": os.Getpid()}
		})
	})
}
