package server

import (
	"encoding/binary"
	"encoding/json"
	"fmt"
	"strings"

	"github.com/dgraph-io/badger/v4"

	"github.com/mimiro-io/datahub/internal/verifrt/engine"
	"github.com/mimiro-io/datahub/internal/verifrt/model"
)

// datasetIDsInUse scans all raw keys of the per-dataset families and returns the dataset ids they carry.
func (h *VHist) datasetIDsInUse() map[uint32]bool {
	out := map[uint32]bool{}
	_ = h.W.Store.database.View(func(txn *badger.Txn) error {
		scan := func(idx uint16, at int) {
			p := make([]byte, 2)
			binary.BigEndian.PutUint16(p, idx)
			opts := badger.DefaultIteratorOptions
			opts.PrefetchValues = false
			opts.Prefix = p
			it := txn.NewIterator(opts)
			defer it.Close()
			for it.Seek(p); it.ValidForPrefix(p); it.Next() {
				k := it.Item().Key()
				if len(k) >= at+4 {
					out[binary.BigEndian.Uint32(k[at:])] = true
				}
			}
		}
		scan(DatasetEntityChangeLog, 2)
		scan(DatasetLatestEntities, 2)
		scan(EntityIDToJSONIndexID, 10)
		scan(OutgoingRefIndex, 36)
		scan(IncomingRefIndex, 36)
		return nil
	})
	return out
}

// vInspectDsm judges a store recovered from a kill inside dataset management (C07):
// the in-flight operation is observably either not done or done; the survivor is
// unaffected; a dataset created afterwards gets a fresh internal id.
func vInspectDsm(w *VWorld, h *VHist, spec CrashSpec, acked int, res *CrashResult) {
	allNames := map[string]bool{}
	for _, d := range spec.Datasets {
		allNames[d] = true
	}
	for _, op := range append(append([]VOp{}, spec.Pre...), spec.Hist...) {
		if op.DS != "" {
			allNames[op.DS] = true
		}
		if op.To != "" {
			allNames[op.To] = true
		}
	}
	var names []string
	for n := range allNames {
		names = append(names, n)
	}
	build := func(n int) *VHist {
		hh := &VHist{W: w, Tag: h.Tag, M: model.NewWorld()}
		for _, d := range spec.Datasets {
			hh.M.Create(d)
		}
		for _, op := range spec.Pre {
			hh.ModelApply(op)
		}
		for i := 0; i < n && i < len(spec.Hist); i++ {
			hh.ModelApply(spec.Hist[i])
		}
		return hh
	}
	killDesc := fmt.Sprintf("commit=%d point=%s#%d", spec.Kill.Commit, spec.Kill.Point, spec.Kill.N)
	histDesc := vOpsString(spec.Hist)
	prop := "C07"
	if spec.Prop != "" {
		prop = spec.Prop
	}
	defer func() {
		if prop != "C07" {
			for i := range res.Viol {
				res.Viol[i].Key = prop + strings.TrimPrefix(res.Viol[i].Key, "C07")
			}
		}
	}()
	p := DsmParams{IDs: spec.IDs}
	var best *VCheck
	res.Matched = -1
	cands := []int{acked}
	if acked < len(spec.Hist) {
		cands = append(cands, acked+1)
	}
	for _, n := range cands {
		hh := build(n)
		chk := &VCheck{H: hh, Last: "crash", SkipKnownC03: true}
		chk.checkDsm(p, &dsmState{incIDs: map[int]uint32{}}, names)
		res.Checks += chk.Checks
		if len(chk.Viol) == 0 {
			res.Matched = n
			h.M = hh.M
			best = chk
			break
		}
		if best == nil || len(chk.Viol) < len(best.Viol) {
			best = chk
		}
	}
	if res.Matched < 0 {
		whats := []string{}
		for i, v := range best.Viol {
			if i < 3 {
				whats = append(whats, v.What)
			}
		}
		res.Viol = append(res.Viol, engine.Violation{
			Key:  "C07:crash-half-done|" + histDesc + "|" + killDesc,
			What: fmt.Sprintf("after a kill at %s during %s with %d acknowledged ops the recovered state is neither 'operation not done' nor 'operation done': %s", killDesc, histDesc, acked, strings.Join(whats, " / ")),
		})
		return
	}
	res.Key = h.Canon(append(append([]string{}, spec.IDs...), "e4"), vLiveNames(h), strings.Join(vLiveNames(h), ","))
	// a dataset created after recovery gets a fresh internal id and is empty
	inUse := h.datasetIDsInUse()
	ds, err := w.Dsm.CreateDataset(h.DsName("N"), nil)
	if err != nil || ds == nil {
		res.Viol = append(res.Viol, engine.Violation{Key: "C07:crash-create-rejected|" + histDesc + "|" + killDesc, What: fmt.Sprintf("after recovery creating a dataset fails: %v", err)})
		return
	}
	h.M.Create("N")
	if inUse[ds.InternalID] {
		res.Viol = append(res.Viol, engine.Violation{Key: "C07:crash-dataset-id-reused|" + histDesc + "|" + killDesc,
			What: fmt.Sprintf("after a kill at %s during %s a newly created dataset got internal id %d, which existing keys already carry", killDesc, histDesc, ds.InternalID)})
	}
	chk := &VCheck{H: h, Last: "crash-suffix", SkipKnownC03: true}
	chk.checkDsm(p, &dsmState{incIDs: map[int]uint32{}}, append(names, "N"))
	res.Checks += chk.Checks
	for _, v := range chk.Viol {
		res.Viol = append(res.Viol, engine.Violation{Key: "C07:crash-suffix|" + v.Key + "|" + histDesc + "|" + killDesc, What: "after recovery and creating a new dataset: " + v.What})
	}
}

func init() {
	engine.RegisterWorker("crash-dsm", func(args []string) {
		engine.ServeWorker(func(task []byte) interface{} {
			var spec CrashSpec
			if err := json.Unmarshal(task, &spec); err != nil {
				return CrashResult{HarnessEr: err.Error()}
			}
			return vRunCrashTask(spec, vInspectDsm)
		})
	})

	engine.RegisterCheck("C07", func(r *engine.Run) {
		r.Rule = "SEQ: every sequence up to the stated depth over {create (plain / as a proxy dataset), delete, rename, re-create, batch (ids and references shared with the survivor dataset S), garbage collection, restart, a write through a Dataset object obtained before its dataset was deleted, a paged relationship query started before and continued after a delete} on names A,B next to a preloaded survivor; after every history the dataset list, latest views, feeds, unscoped and point-in-time lookups, relationship queries are compared with a reference model that only knows live dataset incarnations; raw key scans check that GC removes exactly the deleted datasets' keys and that dataset ids are never reused. CRASH: real SIGKILL at every durable commit and every named point inside create/rename/delete/GC; the recovered store must be observably 'not done' or 'done'"
		r.Assumptions = []string{"badger transactions are linearizable and commits atomic w.r.t. process kill", "the meta-entities in core.Dataset are outside this property (C19)"}
		pool := model.Pool(0)
		pi := func(n string) int { return model.PoolIndex(pool, n) }
		alpha := []VOp{
			{K: "create", DS: "A"}, {K: "delete", DS: "A"}, {K: "rename", DS: "A", To: "B"},
			{K: "rename", DS: "A", To: "S"}, // onto the survivor's name: has to be refused
			{K: "create", DS: "B"}, {K: "delete", DS: "B"},
			{K: "batch", DS: "A", Ents: []VEnt{{"e1", pi("v2r2")}}},
			{K: "batch", DS: "A", Ents: []VEnt{{"e2", pi("r1")}, {"e3", pi("v1")}}},
			{K: "batch", DS: "B", Ents: []VEnt{{"e1", pi("dv1")}}},
			{K: "batch", DS: "S", Ents: []VEnt{{"e1", pi("v2")}}},
			{K: "gc"}, {K: "restart"},
			// handles obtained before a delete and used after it
			{K: "batch", DS: "A", Ents: []VEnt{{"e1", pi("r23")}}},
			{K: "stalebatch", DS: "A", Ents: []VEnt{{"e1", pi("s")}, {"e4", pi("v1")}}},
			{K: "qstart", DS: "A"}, {K: "qcont"},
		}
		params, _ := json.Marshal(DsmParams{Obs: []string{"c07"}, Names: []string{"A", "B"}, IDs: vIDs})
		depth, budget := 6, 120
		if !r.Quick() {
			depth, budget = 8, 2400
		}
		engine.RunSeq(r, engine.SeqSpec{Name: "c07-seq", WorkerArgs: []string{"worker", "dsm"}, Alphabet: vOpsJSON(alpha), Params: params, Depth: depth, Budget: secs(budget)})
		// proxy and virtual datasets: the store-level write paths (transactions, job sinks) still write into them locally,
		// so deleting one has to hide and collect that data like any other
		{
			pa := []VOp{
				{K: "create", DS: "A", N: 2}, {K: "create", DS: "A", N: 3}, {K: "delete", DS: "A"},
				{K: "batch", DS: "A", Ents: []VEnt{{"e1", pi("v2r2")}}},
				{K: "batch", DS: "A", Ents: []VEnt{{"e2", pi("r1")}, {"e3", pi("v1")}}},
				{K: "batch", DS: "S", Ents: []VEnt{{"e1", pi("v2")}}},
				{K: "gc"}, {K: "restart"},
			}
			pd, pb := 5, 60
			if !r.Quick() {
				pd, pb = 7, 1200
			}
			engine.RunSeq(r, engine.SeqSpec{Name: "c07-proxy-virtual", WorkerArgs: []string{"worker", "dsm"}, Alphabet: vOpsJSON(pa), Params: params, Depth: pd, Budget: secs(pb)})
		}
		// one long history: a deleted dataset with more keys than the garbage collector handles in one batch (10000)
		{
			n := 10001
			if !r.Quick() {
				n = 20003
			}
			pl := &engine.Pool{N: 1, Args: []string{"worker", "gc-large"}, Timeout: secs(900)}
			out := pl.Do([]json.RawMessage{json.RawMessage(fmt.Sprintf(`{"n":%d}`, n))}, nil)
			var lr engine.SeqResult
			if out[0].Err != "" || json.Unmarshal(out[0].Out, &lr) != nil || lr.HarnessEr != "" {
				r.Cap("c07-gc-large: worker problem " + out[0].Err + lr.HarnessEr)
			} else {
				for _, v := range lr.Viol {
					v.Engine = "ENUM:c07-gc-large"
					v.Replay = map[string]interface{}{"worker": []string{"worker", "gc-large"}, "n": n}
					r.AddViolation(v)
				}
				r.Evaluations += lr.Checks
				r.Traces++
				r.AddPart(map[string]interface{}{"engine": "ENUM", "name": "c07-gc-large", "entities": n, "checks": lr.Checks})
			}
		}
		// SCHED: two requests create the same dataset while a writer writes to it by name and it is deleted again:
		// whatever the order, nothing of a deleted incarnation may show up anywhere
		{
			sc := SchedScenario{Name: "D1-create-twice-write-delete", Datasets: []string{"A"}, IDs: vIDs, MapPoints: true,
				Pre: []VOp{{K: "batch", DS: "A", Ents: []VEnt{{"e1", pi("v1")}}}},
				Threads: [][]VOp{{{K: "create", DS: "C"}, {K: "batch", DS: "C", Ents: []VEnt{{"e1", pi("v2r2")}}}, {K: "delete", DS: "C"}, {K: "get", Ents: []VEnt{{"e1", pi("v1")}}}},
					{{K: "create", DS: "C"}, {K: "get", Ents: []VEnt{{"e1", pi("v1")}}}}}}
			bound, sb := 2, 60
			if !r.Quick() {
				bound, sb = 3, 900
			}
			engine.RunSched(r, engine.SchedSpec{Name: sc.Name, WorkerArgs: []string{"worker", "sched-store"}, Scenario: sc, Bound: bound, Horizon: 1500, BudgetS: sb})
		}
		// CRASH part
		pre := []VOp{
			{K: "batch", DS: "S", Ents: []VEnt{{"e1", pi("v1r2")}, {"e2", pi("r1")}}},
			{K: "batch", DS: "A", Ents: []VEnt{{"e1", pi("v2r2")}, {"e3", pi("r1")}}},
		}
		hists := [][]VOp{
			{{K: "delete", DS: "A"}},
			{{K: "rename", DS: "A", To: "B"}},
			{{K: "create", DS: "B"}},
			{{K: "delete", DS: "A"}, {K: "create", DS: "A"}},
			{{K: "delete", DS: "A"}, {K: "gc"}},
			{{K: "rename", DS: "A", To: "B"}, {K: "delete", DS: "B"}},
		}
		if !r.Quick() {
			hists = append(hists, []VOp{{K: "create", DS: "B"}, {K: "batch", DS: "B", Ents: []VEnt{{"e1", pi("v1")}}}, {K: "delete", DS: "B"}, {K: "gc"}},
				[]VOp{{K: "delete", DS: "A"}, {K: "create", DS: "A"}, {K: "batch", DS: "A", Ents: []VEnt{{"e1", pi("s")}}}, {K: "rename", DS: "A", To: "B"}})
		}
		var bases []map[string]interface{}
		for _, hst := range hists {
			bases = append(bases, vToMap(CrashSpec{Datasets: []string{"S", "A"}, IDs: vIDs, Pre: pre, Hist: hst, Kind: "dsm"}))
		}
		engine.RunCrash(r, "c07-crash", []string{"worker", "crash-dsm"}, bases, 0)
	})
}
