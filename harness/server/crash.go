package server

import (
	"bytes"
	"encoding/binary"
	"encoding/json"
	"fmt"
	"os"
	"os/exec"
	"path/filepath"
	"sort"
	"strings"
	"syscall"
	"time"

	"github.com/dgraph-io/badger/v4"

	"github.com/mimiro-io/datahub/internal/verifhook"
	"github.com/mimiro-io/datahub/internal/verifrt/engine"
	"github.com/mimiro-io/datahub/internal/verifrt/model"
)

// CrashSpec describes one crash experiment: setup ops (not counted), the
// history, and where to kill the process.
type CrashSpec struct {
	Datasets []string `json:"datasets"`
	IDs      []string `json:"ids"`
	Pre      []VOp    `json:"pre"`
	Hist     []VOp    `json:"hist"`
	Kill     struct {
		Commit int    `json:"commit,omitempty"` // kill immediately before the k-th durable commit of the history
		Point  string `json:"point,omitempty"`  // or at the n-th hit of a named point
		N      int    `json:"n,omitempty"`
		// or: the k-th asynchronous commit (Txn.CommitWith) of the history has not reached the write-ahead log when
		// the process dies right after the operation that issued it was acknowledged
		Async int `json:"async,omitempty"`
	} `json:"kill"`
	Kind  string          `json:"kind"`           // store | dsm | ns | job ...
	Prop  string          `json:"prop,omitempty"` // property the violations are reported under when an inspector serves several
	Extra json.RawMessage `json:"extra,omitempty"`
}

type CrashCount struct {
	Commits int            `json:"commits"`
	Points  map[string]int `json:"points"`
	Acks    int            `json:"acks"`
	Async   int            `json:"async"`
}

func vDie() {
	_ = syscall.Kill(os.Getpid(), syscall.SIGKILL)
	select {}
}

// vApplyAny applies a store or dataset-management op to the implementation only.
func (h *VHist) vApplyImpl(op VOp) error {
	switch op.K {
	case "batch", "txn":
		_, err := h.applyWriteImpl(op)
		return err
	case "setns":
		// the documented way to change a dataset's public namespaces: write its meta-entity into core.Dataset
		info, _ := h.W.Store.NamespaceManager.GetDatasetNamespaceInfo()
		meta, err := h.W.Store.GetEntity(info.DatasetPrefix+":"+h.DsName(op.DS), []string{datasetCore}, true)
		if err != nil || meta == nil {
			return fmt.Errorf("meta-entity of %s not found: %v", op.DS, err)
		}
		meta.Properties[info.PublicNamespacesKey] = []string{fmt.Sprintf("http://pub%d.example/", op.N)}
		return h.W.Dsm.GetDataset(datasetCore).StoreEntities([]*Entity{meta})
	case "badbatch":
		// a batch the store has to reject as a whole: its last entity carries a null reference value
		ds := h.W.Dsm.GetDataset(h.DsName(op.DS))
		if ds == nil {
			return fmt.Errorf("no dataset %s", op.DS)
		}
		es, _ := h.ents(op.Ents)
		bad := NewEntity(h.Curie("e9"), 0)
		bad.References[h.Key("p")] = nil
		return ds.StoreEntities(append(es, bad))
	case "create":
		_, err := h.W.Dsm.CreateDataset(h.DsName(op.DS), nil)
		return err
	case "delete":
		return h.W.Dsm.DeleteDataset(h.DsName(op.DS))
	case "rename":
		_, err := h.W.Dsm.UpdateDataset(h.DsName(op.DS), &UpdateDatasetConfig{ID: h.DsName(op.To)})
		return err
	case "use":
		obs := newNsObserved()
		if err := h.nsUse(op, obs); err != nil {
			return err
		}
		b, _ := json.Marshal(obs)
		h.LastAck = string(b)
		return nil
	case "gc":
		return NewGarbageCollector(h.W.Store, h.W.Env).Cleandeleted()
	case "restart":
		h.W.Restart()
		return nil
	}
	return fmt.Errorf("harness: unknown op %s", op.K)
}

func (h *VHist) applyWriteImpl(op VOp) (int64, error) {
	switch op.K {
	case "batch":
		ds := h.W.Dsm.GetDataset(h.DsName(op.DS))
		if ds == nil {
			return 0, fmt.Errorf("no dataset %s", op.DS)
		}
		es, _ := h.ents(op.allEnts())
		if err := ds.StoreEntities(es); err != nil {
			return 0, err
		}
		return int64(es[0].Recorded), nil
	case "txn":
		t := &Transaction{DatasetEntities: map[string][]*Entity{}}
		var first *Entity
		for n, l := range op.Parts {
			es, _ := h.ents(l)
			t.DatasetEntities[h.DsName(n)] = es
			first = es[0]
		}
		if err := h.storeVia(op.Via).ExecuteTransaction(t); err != nil {
			return 0, err
		}
		return int64(first.Recorded), nil
	}
	return 0, fmt.Errorf("not a write")
}

// ModelApply applies an op to the model only (op is assumed accepted).
func (h *VHist) ModelApply(op VOp) {
	switch op.K {
	case "batch":
		_, ms := h.ents(op.allEnts())
		_, _ = h.M.Batch(op.DS, ms)
	case "txn":
		mp := map[string][]model.Ent{}
		for n, l := range op.Parts {
			_, ms := h.ents(l)
			mp[n] = ms
		}
		_ = h.M.Txn(mp)
	case "create":
		h.M.Create(op.DS)
	case "delete":
		h.M.Delete(op.DS)
	case "rename":
		h.M.Rename(op.DS, op.To)
	}
}

// CrashKind lets harnesses of other packages plug their own child setup into the crash engine.
type CrashKind struct {
	// Setup opens the system under test in dir and performs the uncounted setup; it returns
	// the function that applies one history op (returning extra acknowledgement data) and a clean shutdown.
	Setup func(dir string, spec CrashSpec) (apply func(op VOp) (string, error), shutdown func(), err error)
}

var VCrashKinds = map[string]CrashKind{}

func init() {
	storeKind := CrashKind{Setup: func(dir string, spec CrashSpec) (func(op VOp) (string, error), func(), error) {
		w := VOpenWorld(dir)
		h := w.NewHist()
		for _, n := range spec.Datasets {
			if _, err := w.Dsm.CreateDataset(h.DsName(n), nil); err != nil {
				return nil, nil, err
			}
		}
		for _, op := range spec.Pre {
			if err := h.vApplyImpl(op); err != nil {
				return nil, nil, err
			}
		}
		apply := func(op VOp) (string, error) {
			hh := &VHist{W: w, Tag: h.Tag, M: h.M} // the world may have been restarted
			err := hh.vApplyImpl(op)
			return hh.LastAck, err
		}
		return apply, func() { w.Close() }, nil
	}}
	for _, k := range []string{"", "store", "dsm", "ns"} {
		VCrashKinds[k] = storeKind
	}
}

// vCrashChild runs in its own process: setup, install kill hook, run history.
func vCrashChild(dir string, spec CrashSpec) {
	kind, ok := VCrashKinds[spec.Kind]
	if !ok {
		fmt.Fprintln(os.Stderr, "crash-child: unknown kind", spec.Kind)
		os.Exit(3)
	}
	apply, shutdown, err := kind.Setup(dir, spec)
	if err != nil {
		fmt.Fprintln(os.Stderr, "crash-child setup:", err)
		os.Exit(3)
	}
	cnt := CrashCount{Points: map[string]int{}}
	badger.VerifHook = func(ev int) {
		if ev == badger.VerifBeforeCommit {
			cnt.Commits++
			if spec.Kill.Commit == cnt.Commits {
				vDie()
			}
		}
	}
	verifhook.Handler = func(name string) {
		cnt.Points[name]++
		if spec.Kill.Point == name && spec.Kill.N == cnt.Points[name] {
			vDie()
		}
	}
	held := false
	badger.VerifAsyncHold = func() bool {
		cnt.Async++
		if spec.Kill.Async == cnt.Async {
			held = true
			// if the code waits for the commit callback the operation is never acknowledged: die anyway
			time.AfterFunc(3*time.Second, vDie)
			return true
		}
		return false
	}
	acks, err := os.OpenFile(filepath.Join(dir, "acks"), os.O_CREATE|os.O_WRONLY|os.O_APPEND, 0o644)
	if err != nil {
		os.Exit(3)
	}
	for i, op := range spec.Hist {
		extra, err := apply(op)
		if op.K == "badbatch" {
			// the expected answer to this operation is a refusal: that is its acknowledgement
			if err == nil {
				err = fmt.Errorf("the batch with a null reference was accepted")
			} else {
				err = nil
			}
		}
		if err != nil {
			fmt.Fprintf(acks, "err %d %s\n", i, strings.ReplaceAll(err.Error(), "\n", " "))
			continue
		}
		fmt.Fprintf(acks, "ack %d %s\n", i, extra)
		cnt.Acks++
		if held {
			vDie() // acknowledged, but the asynchronous commit never reached the log
		}
	}
	if spec.Kill.Commit == cnt.Commits+1 {
		vDie() // the boundary after the last commit of the history
	}
	badger.VerifHook = nil
	badger.VerifAsyncHold = nil
	verifhook.Handler = nil
	b, _ := json.Marshal(cnt)
	_ = os.WriteFile(filepath.Join(dir, "count.json"), b, 0o644)
	shutdown()
	os.Exit(0)
}

// CrashResult is what the crash task worker returns.
type CrashResult struct {
	Count     *CrashCount        `json:"count,omitempty"`
	Acked     int                `json:"acked"`
	Died      bool               `json:"died"`
	AckData   []string           `json:"-"`
	Key       string             `json:"key"`     // canonical recovered state
	Matched   int                `json:"matched"` // which model prefix matched (number of applied ops), -1 none
	Viol      []engine.Violation `json:"viol,omitempty"`
	Checks    int                `json:"checks"`
	HarnessEr string             `json:"harness_error,omitempty"`
}

// vRunCrashTask: spawn the child, wait for it, reopen the store and judge.
func vRunCrashTask(spec CrashSpec, inspect func(w *VWorld, h *VHist, spec CrashSpec, acked int, res *CrashResult)) (res CrashResult) {
	return VRunCrashTaskDir(spec, func(dir string, res *CrashResult) {
		w := VOpenWorld(dir)
		defer w.Close()
		h := w.NewHist()
		inspect(w, h, spec, res.Acked, res)
	})
}

// VRunCrashTaskDir: spawn the child, wait for its death, then let recoverFn reopen the directory and judge.
func VRunCrashTaskDir(spec CrashSpec, recoverFn func(dir string, res *CrashResult)) (res CrashResult) {
	dir := VNewScratchDir("crash")
	defer os.RemoveAll(dir)
	exe, _ := os.Executable()
	sb, _ := json.Marshal(spec)
	cmd := exec.Command(exe, "worker", "crash-child", dir, string(sb))
	var stderr bytes.Buffer
	cmd.Stderr = &stderr
	done := make(chan error, 1)
	if err := cmd.Start(); err != nil {
		res.HarnessEr = err.Error()
		return
	}
	go func() { done <- cmd.Wait() }()
	select {
	case err := <-done:
		if err != nil {
			if ee, ok := err.(*exec.ExitError); ok && ee.ProcessState != nil {
				if ws, ok := ee.ProcessState.Sys().(syscall.WaitStatus); ok && ws.Signaled() && ws.Signal() == syscall.SIGKILL {
					res.Died = true
				} else {
					res.HarnessEr = "crash child failed: " + err.Error() + " " + stderr.String()
					return
				}
			}
		}
	case <-time.After(60 * time.Second):
		_ = cmd.Process.Kill()
		res.HarnessEr = "crash child hung"
		return
	}
	if b, err := os.ReadFile(filepath.Join(dir, "acks")); err == nil {
		for _, l := range strings.Split(string(b), "\n") {
			if strings.HasPrefix(l, "ack ") {
				res.Acked++
				if f := strings.SplitN(l, " ", 3); len(f) == 3 && f[2] != "" {
					res.AckData = append(res.AckData, f[2])
				}
			}
		}
	}
	if !res.Died {
		var c CrashCount
		if b, err := os.ReadFile(filepath.Join(dir, "count.json")); err == nil {
			_ = json.Unmarshal(b, &c)
			res.Count = &c
		}
		if spec.Kill.Commit != 0 || spec.Kill.Point != "" || spec.Kill.Async != 0 {
			// the kill point was not reached in this run (history shorter than expected)
			res.Matched = -2
			return
		}
	}
	// recovery
	func() {
		defer func() {
			if r := recover(); r != nil {
				res.Viol = append(res.Viol, engine.Violation{Key: "C04:reopen-panic", What: fmt.Sprintf("reopening the store after the kill panicked: %v", r)})
			}
		}()
		recoverFn(dir, &res)
	}()
	return
}

func init() {
	engine.RegisterWorker("crash-child", func(args []string) {
		var spec CrashSpec
		if err := json.Unmarshal([]byte(args[1]), &spec); err != nil {
			fmt.Fprintln(os.Stderr, err)
			os.Exit(3)
		}
		vCrashChild(args[0], spec)
	})
	// crash-huge: histories with one very large batch (more entities than the 16-bit in-batch sequence number can
	// count): only the all-or-nothing clause is judged, by counting the generated entities in the recovered store
	engine.RegisterWorker("crash-huge", func(args []string) {
		engine.ServeWorker(func(task []byte) interface{} {
			var spec CrashSpec
			if err := json.Unmarshal(task, &spec); err != nil {
				return CrashResult{HarnessEr: err.Error()}
			}
			return VRunCrashTaskDir(spec, func(dir string, res *CrashResult) {
				w := VOpenWorld(dir)
				defer w.Close()
				h := w.NewHist()
				n := 0
				for _, op := range spec.Hist {
					if op.N > n {
						n = op.N
					}
				}
				ds := w.Dsm.GetDataset(h.DsName(spec.Datasets[0]))
				if ds == nil {
					res.Viol = append(res.Viol, engine.Violation{Key: "C04:dataset-missing", What: "dataset missing after recovery"})
					return
				}
				got := 0
				seen := map[string]bool{}
				_, err := ds.MapEntities("", -1, func(e *Entity) error {
					id := h.AbsID(e.ID)
					if strings.HasPrefix(id, "g") && !seen[id] {
						seen[id] = true
						got++
					}
					return nil
				})
				res.Checks++
				killDesc := fmt.Sprintf("commit=%d point=%s#%d", spec.Kill.Commit, spec.Kill.Point, spec.Kill.N)
				if err != nil {
					res.Viol = append(res.Viol, engine.Violation{Key: "C04:huge-listing-fails|" + killDesc, What: "listing the dataset after recovery fails: " + err.Error()})
					return
				}
				res.Matched = res.Acked
				if got == n {
					res.Matched = len(spec.Hist)
				}
				res.Key = fmt.Sprintf("present=%d/%d", got, n)
				if got != 0 && got != n {
					res.Viol = append(res.Viol, engine.Violation{Key: "C04:atomicity:huge-batch|" + killDesc,
						What: fmt.Sprintf("after a kill at %s during one batch of %d entities, %d of them are present after recovery (all or nothing expected)", killDesc, n+1, got)})
				}
				if res.Acked == len(spec.Hist) && got != n {
					res.Viol = append(res.Viol, engine.Violation{Key: "C04:durability:huge-batch|" + killDesc,
						What: fmt.Sprintf("the batch of %d entities was acknowledged but only %d are present after recovery", n+1, got)})
				}
			})
		})
	})
	engine.RegisterWorker("crash-store", func(args []string) {
		engine.ServeWorker(func(task []byte) interface{} {
			var spec CrashSpec
			if err := json.Unmarshal(task, &spec); err != nil {
				return CrashResult{HarnessEr: err.Error()}
			}
			return vRunCrashTask(spec, vInspectStore)
		})
	})
}

// vInspectStore judges a recovered store for C04: the recovered observation
// must equal the model after `acked` ops or after acked+1 ops; cross-index
// invariants must hold; the store must accept a suffix of writes with fresh
// positions and ids.
func vInspectStore(w *VWorld, h *VHist, spec CrashSpec, acked int, res *CrashResult) {
	build := func(n int) *VHist {
		hh := &VHist{W: w, Tag: h.Tag, M: model.NewWorld()}
		for _, d := range spec.Datasets {
			hh.M.Create(d)
		}
		for _, op := range spec.Pre {
			hh.ModelApply(op)
		}
		for i := 0; i < n && i < len(spec.Hist); i++ {
			hh.ModelApply(spec.Hist[i])
		}
		return hh
	}
	scopes := vScopes(spec.Datasets)
	var best *VCheck
	res.Matched = -1
	cands := []int{acked}
	if acked < len(spec.Hist) {
		cands = append(cands, acked+1)
	}
	for _, n := range cands {
		hh := build(n)
		chk := &VCheck{H: hh, Last: "crash", SkipKnownC03: true}
		chk.CheckLatest(spec.IDs)
		chk.CheckFeed()
		chk.CheckRelations(spec.IDs, scopes)
		res.Checks += chk.Checks
		if len(chk.Viol) == 0 {
			res.Matched = n
			best = chk
			h.M = hh.M
			break
		}
		if best == nil || len(chk.Viol) < len(best.Viol) {
			best = chk
		}
	}
	killDesc := fmt.Sprintf("commit=%d point=%s#%d", spec.Kill.Commit, spec.Kill.Point, spec.Kill.N)
	if spec.Kill.Async > 0 {
		killDesc = fmt.Sprintf("after the acknowledgement, asynchronous commit #%d not yet in the log", spec.Kill.Async)
	}
	histDesc := vOpsString(spec.Hist)
	if res.Matched < 0 {
		whats := []string{}
		for i, v := range best.Viol {
			if i < 3 {
				whats = append(whats, v.What)
			}
		}
		res.Viol = append(res.Viol, engine.Violation{
			Key:  "C04:atomicity|" + histDesc + "|" + killDesc,
			What: fmt.Sprintf("after a kill at %s during %s with %d acknowledged ops the recovered state equals neither the state after %d nor after %d ops: %s", killDesc, histDesc, acked, acked, acked+1, strings.Join(whats, " / ")),
		})
		return
	}
	// raw cross-index invariants
	for _, msg := range h.RawInvariants(spec.Datasets) {
		res.Viol = append(res.Viol, engine.Violation{Key: "C04:index|" + msg + "|" + histDesc + "|" + killDesc, What: fmt.Sprintf("after a kill at %s during %s: %s", killDesc, histDesc, msg)})
	}
	res.Checks++
	res.Key = h.Canon(append(append([]string{}, spec.IDs...), "e4"), spec.Datasets, "")
	// suffix: the store accepts writes, positions strictly increase, ids are fresh
	maxPos := map[string]uint64{}
	for _, d := range spec.Datasets {
		if ds := w.Dsm.GetDataset(h.DsName(d)); ds != nil {
			for _, p := range h.changePositions(ds) {
				if p > maxPos[d] {
					maxPos[d] = p
				}
			}
		}
	}
	idsBefore := h.uriIDs()
	sfxPool := model.Pool(0)
	sfx := []VOp{
		{K: "batch", DS: spec.Datasets[0], Ents: []VEnt{{"e1", model.PoolIndex(sfxPool, "s")}}},
		{K: "batch", DS: spec.Datasets[0], Ents: []VEnt{{"e4", model.PoolIndex(sfxPool, "v1r2")}}},
	}
	for _, op := range sfx {
		before := len(h.M.Datasets[op.DS].Feed)
		if err := h.ApplyWrite(op); err != nil {
			res.Viol = append(res.Viol, engine.Violation{Key: "C04:suffix-rejected|" + histDesc + "|" + killDesc, What: "after recovery a write is rejected: " + err.Error()})
			return
		}
		if ds := w.Dsm.GetDataset(h.DsName(op.DS)); ds != nil {
			pos := h.changePositions(ds)
			if len(h.M.Datasets[op.DS].Feed) > before && len(pos) > 0 {
				np := pos[len(pos)-1]
				if np <= maxPos[op.DS] && before > 0 {
					res.Viol = append(res.Viol, engine.Violation{Key: "C04:position-reuse|" + histDesc + "|" + killDesc,
						What: fmt.Sprintf("after recovery a new change got position %d which is not above the highest existing position %d", np, maxPos[op.DS])})
				}
				if np > maxPos[op.DS] {
					maxPos[op.DS] = np
				}
			}
		}
	}
	chk := &VCheck{H: h, Last: "crash-suffix"}
	chk.CheckLatest(append(append([]string{}, spec.IDs...), "e4"))
	chk.CheckFeed()
	res.Checks += chk.Checks
	for _, v := range chk.Viol {
		res.Viol = append(res.Viol, engine.Violation{Key: "C04:suffix|" + v.Key + "|" + histDesc + "|" + killDesc, What: "after recovery and two more writes: " + v.What})
	}
	idsAfter := h.uriIDs()
	if msg := idBijection(idsBefore, idsAfter); msg != "" {
		res.Viol = append(res.Viol, engine.Violation{Key: "C04:id-reuse|" + histDesc + "|" + killDesc, What: msg})
	}
	for _, msg := range h.RawInvariants(spec.Datasets) {
		res.Viol = append(res.Viol, engine.Violation{Key: "C04:index-suffix|" + msg + "|" + histDesc + "|" + killDesc, What: "after recovery and two more writes: " + msg})
	}
}

// VOpsString renders ops for messages.
func VOpsString(ops []VOp) string { return vOpsString(ops) }

func vOpsString(ops []VOp) string {
	var l []string
	pool := model.Pool(0)
	ents := func(es []VEnt) string {
		var x []string
		for _, e := range es {
			x = append(x, e.ID+"="+pool[e.C].Name)
		}
		return strings.Join(x, ",")
	}
	for _, o := range ops {
		switch o.K {
		case "batch":
			if o.N > 0 {
				l = append(l, fmt.Sprintf("batch(%s:%s + %d generated entities)", o.DS, ents(o.Ents), o.N))
			} else {
				l = append(l, fmt.Sprintf("batch(%s:%s)", o.DS, ents(o.Ents)))
			}
		case "txn":
			var ps []string
			var names []string
			for n := range o.Parts {
				names = append(names, n)
			}
			sort.Strings(names)
			for _, n := range names {
				ps = append(ps, n+":"+ents(o.Parts[n]))
			}
			l = append(l, "txn("+strings.Join(ps, ";")+")")
		case "rename":
			l = append(l, fmt.Sprintf("rename(%s->%s)", o.DS, o.To))
		default:
			l = append(l, fmt.Sprintf("%s(%s)", o.K, o.DS))
		}
	}
	return strings.Join(l, " ")
}

// uriIDs returns the persisted URI -> internal id table.
func (h *VHist) uriIDs() map[string]uint64 {
	out := map[string]uint64{}
	_ = h.W.Store.database.View(func(txn *badger.Txn) error {
		prefix := make([]byte, 2)
		binary.BigEndian.PutUint16(prefix, URIToIDIndexID)
		opts := badger.DefaultIteratorOptions
		opts.Prefix = prefix
		it := txn.NewIterator(opts)
		defer it.Close()
		for it.Seek(prefix); it.ValidForPrefix(prefix); it.Next() {
			k := it.Item().KeyCopy(nil)
			_ = it.Item().Value(func(v []byte) error {
				if len(v) == 8 {
					out[string(k[2:])] = binary.BigEndian.Uint64(v)
				}
				return nil
			})
		}
		return nil
	})
	return out
}

// idBijection checks that ids handed out earlier are unchanged and no id is bound to two URIs.
func idBijection(before, after map[string]uint64) string {
	for u, id := range before {
		if a, ok := after[u]; !ok || a != id {
			return fmt.Sprintf("identifier %s had internal id %d, now %d (present=%v)", u, id, a, ok)
		}
	}
	rev := map[uint64]string{}
	for u, id := range after {
		if o, ok := rev[id]; ok {
			return fmt.Sprintf("internal id %d is bound to both %s and %s", id, o, u)
		}
		rev[id] = u
	}
	return ""
}

// RawInvariants checks the cross-index invariants on the raw keys of the given datasets:
// change entries <-> version records one to one; latest pointer = newest version;
// outgoing and incoming reference keys are mutual transposes; every internal id has both id mappings.
func (h *VHist) RawInvariants(datasets []string) []string {
	var msgs []string
	s := h.W.Store
	add := func(f string, a ...interface{}) {
		if len(msgs) < 8 {
			msgs = append(msgs, fmt.Sprintf(f, a...))
		}
	}
	dsIDs := map[uint32]string{}
	for _, d := range datasets {
		if ds := h.W.Dsm.GetDataset(h.DsName(d)); ds != nil {
			dsIDs[ds.InternalID] = d
		}
	}
	_ = s.database.View(func(txn *badger.Txn) error {
		scan := func(idx uint16, fn func(k, v []byte)) {
			prefix := make([]byte, 2)
			binary.BigEndian.PutUint16(prefix, idx)
			opts := badger.DefaultIteratorOptions
			opts.Prefix = prefix
			it := txn.NewIterator(opts)
			defer it.Close()
			for it.Seek(prefix); it.ValidForPrefix(prefix); it.Next() {
				k := it.Item().KeyCopy(nil)
				v, _ := it.Item().ValueCopy(nil)
				fn(k, v)
			}
		}
		// version records per dataset
		versions := map[string]bool{}            // entity key
		newest := map[uint32]map[uint64]string{} // ds -> rid -> newest version key
		rids := map[uint64]bool{}
		scan(EntityIDToJSONIndexID, func(k, v []byte) {
			ds := binary.BigEndian.Uint32(k[10:])
			if _, ok := dsIDs[ds]; !ok {
				return
			}
			rid := binary.BigEndian.Uint64(k[2:])
			rids[rid] = true
			versions[string(k)] = true
			if newest[ds] == nil {
				newest[ds] = map[uint64]string{}
			}
			if cur, ok := newest[ds][rid]; !ok || bytes.Compare(k[14:24], []byte(cur)[14:24]) > 0 {
				newest[ds][rid] = string(k)
			}
			e := &Entity{}
			if err := json.Unmarshal(v, e); err != nil {
				add("version record does not parse: %v", err)
			} else if e.InternalID != rid {
				add("version record of id %d carries internalId %d", rid, e.InternalID)
			}
		})
		referenced := map[string]int{}
		scan(DatasetEntityChangeLog, func(k, v []byte) {
			ds := binary.BigEndian.Uint32(k[2:])
			if _, ok := dsIDs[ds]; !ok {
				return
			}
			if !versions[string(v)] {
				add("change entry %d of %s names a version record that does not exist", binary.BigEndian.Uint64(k[6:]), dsIDs[ds])
			}
			referenced[string(v)]++
			if len(v) >= 14 && binary.BigEndian.Uint64(v[2:]) != binary.BigEndian.Uint64(k[14:]) {
				add("change entry of %s: entity id in key and in value differ", dsIDs[ds])
			}
		})
		for vk := range versions {
			if referenced[vk] != 1 {
				k := []byte(vk)
				add("version record (dataset %s, entity %d) is named by %d change entries, want exactly 1", dsIDs[binary.BigEndian.Uint32(k[10:])], binary.BigEndian.Uint64(k[2:]), referenced[vk])
			}
		}
		latestSeen := map[uint32]map[uint64]bool{}
		scan(DatasetLatestEntities, func(k, v []byte) {
			ds := binary.BigEndian.Uint32(k[2:])
			if _, ok := dsIDs[ds]; !ok {
				return
			}
			rid := binary.BigEndian.Uint64(k[6:])
			if latestSeen[ds] == nil {
				latestSeen[ds] = map[uint64]bool{}
			}
			latestSeen[ds][rid] = true
			if newest[ds][rid] != string(v) {
				add("latest pointer of entity %d in %s does not name its newest version", rid, dsIDs[ds])
			}
		})
		for ds, m := range newest {
			for rid := range m {
				if !latestSeen[ds][rid] {
					add("entity %d has versions in %s but no latest pointer", rid, dsIDs[ds])
				}
			}
		}
		// outgoing / incoming transposes
		out := map[string]bool{}
		scan(OutgoingRefIndex, func(k, v []byte) {
			if _, ok := dsIDs[binary.BigEndian.Uint32(k[36:])]; !ok {
				return
			}
			// rid time pred related del ds
			key := fmt.Sprintf("%d|%d|%d|%d|%d|%d", binary.BigEndian.Uint64(k[2:]), binary.BigEndian.Uint64(k[10:]), binary.BigEndian.Uint64(k[18:]), binary.BigEndian.Uint64(k[26:]), binary.BigEndian.Uint16(k[34:]), binary.BigEndian.Uint32(k[36:]))
			out[key] = true
			rids[binary.BigEndian.Uint64(k[18:])] = true
			rids[binary.BigEndian.Uint64(k[26:])] = true
		})
		in := map[string]bool{}
		scan(IncomingRefIndex, func(k, v []byte) {
			if _, ok := dsIDs[binary.BigEndian.Uint32(k[36:])]; !ok {
				return
			}
			// related rid time pred del ds
			key := fmt.Sprintf("%d|%d|%d|%d|%d|%d", binary.BigEndian.Uint64(k[10:]), binary.BigEndian.Uint64(k[18:]), binary.BigEndian.Uint64(k[26:]), binary.BigEndian.Uint64(k[2:]), binary.BigEndian.Uint16(k[34:]), binary.BigEndian.Uint32(k[36:]))
			in[key] = true
		})
		for k := range out {
			if !in[k] {
				add("outgoing reference key %s has no incoming counterpart", k)
			}
		}
		for k := range in {
			if !out[k] {
				add("incoming reference key %s has no outgoing counterpart", k)
			}
		}
		// id mappings
		for rid := range rids {
			buf := make([]byte, 10)
			binary.BigEndian.PutUint16(buf, IDToURIIndexID)
			binary.BigEndian.PutUint64(buf[2:], rid)
			item, err := txn.Get(buf)
			if err != nil {
				add("internal id %d is used by index keys but has no id->URI mapping", rid)
				continue
			}
			uri, _ := item.ValueCopy(nil)
			ub := make([]byte, 2+len(uri))
			binary.BigEndian.PutUint16(ub, URIToIDIndexID)
			copy(ub[2:], uri)
			it2, err := txn.Get(ub)
			if err != nil {
				add("URI %s of internal id %d has no URI->id mapping", uri, rid)
				continue
			}
			v, _ := it2.ValueCopy(nil)
			if len(v) != 8 || binary.BigEndian.Uint64(v) != rid {
				add("URI %s maps to another id than %d", uri, rid)
			}
		}
		return nil
	})
	return msgs
}
