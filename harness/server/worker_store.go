package server

import (
	"encoding/json"
	"fmt"
	"os"
	"sort"
	"strings"
	"time"

	"github.com/mimiro-io/datahub/internal/verifrt/engine"
	"github.com/mimiro-io/datahub/internal/verifrt/model"
)

// StoreParams selects what the "store" SEQ worker observes.
type StoreParams struct {
	Obs      []string `json:"obs"` // c01 c02 c03 c06
	Datasets []string `json:"datasets"`
	IDs      []string `json:"ids"`
}

func (p StoreParams) has(o string) bool {
	for _, x := range p.Obs {
		if x == o {
			return true
		}
	}
	return false
}

var vWorkerWorld *VWorld

// vWorldMaxHists: a worker's store is replaced by a fresh one after this many histories/executions.
var vWorldMaxHists = 2000

func vWorld() *VWorld {
	if vWorkerWorld != nil && vWorkerWorld.Hists >= vWorldMaxHists {
		vWorkerWorld.Destroy()
		vWorkerWorld = nil
	}
	if vWorkerWorld == nil {
		vWorkerWorld = VOpenWorld(VNewScratchDir("w"))
	}
	return vWorkerWorld
}

func vScopes(dss []string) [][]string {
	sc := [][]string{nil}
	for _, d := range dss {
		sc = append(sc, []string{d})
	}
	if len(dss) > 1 {
		sc = append(sc, dss)
		// the same scope named in the opposite order (callers name datasets in any order)
		rev := make([]string, len(dss))
		for i, d := range dss {
			rev[len(dss)-1-i] = d
		}
		sc = append(sc, rev)
	}
	return sc
}

// VReplayStore replays one history of store ops and applies the oracles selected by p.
func VReplayStore(task engine.SeqTask) (res engine.SeqResult) {
	var p StoreParams
	_ = json.Unmarshal(task.Params, &p)
	defer func() {
		if r := recover(); r != nil {
			res.Viol = append(res.Viol, engine.Violation{Key: "panic|" + fmt.Sprint(r), What: fmt.Sprintf("panic while replaying history: %v", r)})
			// the world may be poisoned (held locks): abandon it
			vWorkerWorld = nil
		}
	}()
	w := vWorld()
	h := w.NewHist()
	if err := h.EnsureDatasets(p.Datasets...); err != nil {
		res.HarnessEr = err.Error()
		return
	}
	chk := &VCheck{H: h, Prop: ""}
	readers := map[string]*VReader{}
	scopes := vScopes(p.Datasets)
	var snaps []*VInstant
	var instants []*VInstant
	if p.has("c06") {
		snaps = append(snaps, chk.snapshotAt(p.IDs, scopes, 0, true))
		snaps[0].Commit = 0
	}
	// a paged current-state relationship query a client has started and not finished yet (ops qstart / qcont)
	var pq struct {
		cont  []*RelatedFrom
		got   map[string]int
		want  map[string]bool
		label string
	}
	for i, raw := range task.Hist {
		var op VOp
		if err := json.Unmarshal(raw, &op); err != nil {
			res.HarnessEr = err.Error()
			return
		}
		last := i == len(task.Hist)-1
		if last {
			chk.Last = op.String()
		}
		switch op.K {
		case "batch", "txn":
			t, err := h.applyWriteT(op)
			if err != nil {
				// the alphabet only contains valid writes: a rejection is a dropped write
				chk.fail("C01:write-rejected", "valid write rejected: "+err.Error(), nil)
			}
			if p.has("c06") {
				s := chk.snapshotAt(p.IDs, scopes, 0, true)
				snaps = append(snaps, s)
				if t != 0 {
					prev := snaps[len(snaps)-2]
					instants = append(instants,
						&VInstant{T: t - 1, Label: fmt.Sprintf("just-before-commit-%d", i+1), Ent: prev.Ent, EntNil: prev.EntNil, Rel: prev.Rel},
						&VInstant{T: t, Label: fmt.Sprintf("exactly-at-commit-%d", i+1), Ent: s.Ent, EntNil: s.EntNil, Rel: s.Rel},
						&VInstant{T: t + 1, Label: fmt.Sprintf("just-after-commit-%d", i+1), Ent: s.Ent, EntNil: s.EntNil, Rel: s.Rel})
				}
			}
		case "badbatch", "badtxn":
			// a write the store has to refuse as a whole (a null reference value in its last entity / in the part for the
			// second dataset): nothing of it may become visible, and what it touched in memory must not leak into later writes
			err := h.ApplyRefused(op)
			if err != nil {
				res.HarnessEr = err.Error()
				return
			}
		case "qstart":
			// the first page (limit 1) of a relationship query on e1 through the current-state entry point
			// (GetManyRelatedEntitiesBatch, what POST /query uses); LO = inverse. The client keeps the continuation.
			pred := "*"
			if op.LO {
				pred = h.KeyURI("p")
			}
			start := "e1"
			if op.LO {
				start = "e2" // the references of the content pool point at e2 and e3
			}
			r1, err := w.Store.GetManyRelatedEntitiesBatch([]string{h.URI(start)}, pred, op.LO, nil, 1, true)
			if err != nil || len(r1.Cont) == 0 {
				res.Skip, res.Key = true, "skip" // nothing to continue
				return
			}
			pq.cont, pq.label = r1.Cont, fmt.Sprintf("%s/%s/inverse=%v started after operation %d", start, map[bool]string{false: "*", true: "p"}[op.LO], op.LO, i)
			pq.got, _ = h.relSet(r1.Relations)
			pq.want = map[string]bool{}
			for e := range h.M.Graph(nil, -1) {
				if !op.LO && e.Src == start {
					pq.want[e.Pred+">"+e.Dst] = true
				}
				if op.LO && e.Dst == start && e.Pred == "p" {
					pq.want[e.Pred+">"+e.Src] = true
				}
			}
		case "qcont":
			// the client fetches the remaining pages: the query is still the one it started (its instant is pinned)
			if pq.cont == nil {
				res.Skip, res.Key = true, "skip"
				return
			}
			for n := 0; pq.cont != nil && n < 50; n++ {
				r2, err := w.Store.GetManyRelatedEntitiesAtTime(pq.cont, 1, true)
				if err != nil {
					chk.fail("C06:continued-query-error", "continuing a paged query failed: "+err.Error(), nil)
					break
				}
				g, _ := h.relSet(r2.Relations)
				for k, c := range g {
					pq.got[k] += c
				}
				pq.cont = r2.Cont
				if len(r2.Cont) == 0 {
					pq.cont = nil
				}
			}
			if last {
				chk.Checks++
				same := len(pq.got) == len(pq.want)
				for k, c := range pq.got {
					if !pq.want[k] || c != 1 {
						same = false
					}
				}
				if !same {
					var gl []string
					for k, c := range pq.got {
						gl = append(gl, fmt.Sprintf("%s x%d", k, c))
					}
					sort.Strings(gl)
					chk.fail("C06:continued-current-state-query", fmt.Sprintf("a paged relationship query (%s, limit 1) continued after later writes returned %v in total; when it was started the graph gave %v", pq.label, gl, setKeys(pq.want)), nil)
				}
			}
			pq.got, pq.want = nil, nil
		case "read":
			r := readers[op.R]
			if r == nil {
				r = &VReader{DS: op.DS, LO: op.LO}
				readers[op.R] = r
			}
			if !last {
				// earlier reads only move the cursor; their pages were checked when that prefix was the whole history
				save := chk.Viol
				chk.ReaderStep(r, op.L)
				chk.Viol = save
			} else {
				chk.ReaderStep(r, op.L)
			}
		default:
			res.HarnessEr = "unknown op " + op.K
			return
		}
	}
	if p.has("c01") {
		chk.CheckLatest(p.IDs)
	}
	if p.has("c02") {
		chk.CheckFeed()
	}
	if p.has("c03") {
		chk.CheckRelations(p.IDs, scopes)
	}
	if p.has("c06") {
		for _, in := range instants {
			got := chk.snapshotAt(p.IDs, scopes, in.T, false)
			chk.CompareInstant(in, got)
		}
		// cross-check: the truth recorded for "now" equals the model
		_ = model.NewWorld
	}
	extra := ""
	for _, n := range []string{"r1", "r2"} {
		if r := readers[n]; r != nil {
			ds := h.W.Dsm.GetDataset(h.DsName(r.DS))
			idx := 0
			if ds != nil {
				for _, ps := range h.changePositions(ds) {
					if ps < r.Token {
						idx++
					}
				}
			}
			extra += fmt.Sprintf("%s@%s:%d:%v;", n, r.DS, idx, r.LO)
		}
	}
	if pq.cont != nil {
		var gl []string
		for k := range pq.got {
			gl = append(gl, k)
		}
		sort.Strings(gl)
		extra += fmt.Sprintf("|pending-query:%s:got=%v:want=%v", pq.label[:strings.Index(pq.label, " ")], gl, setKeys(pq.want))
	}
	res.Key = h.Canon(append(append([]string{}, p.IDs...), "e4"), p.Datasets, extra)
	if n := len(task.Hist); n > 0 {
		var lo struct {
			K string `json:"k"`
		}
		_ = json.Unmarshal(task.Hist[n-1], &lo)
		if lo.K == "badbatch" || lo.K == "badtxn" {
			// a refused write is meant to change nothing: the state right behind it is kept apart, or the search would
			// never continue from there (what it leaves behind in memory is not part of the key)
			res.Key += "|just-refused"
		}
	}
	res.Viol = chk.Viol
	res.Checks = chk.Checks
	res.Outcome = res.Key[:8]
	return
}

// applyWriteT applies a write and returns the commit time the implementation stamped.
// ApplyWriteT is ApplyWrite that also returns the recorded (commit) time of the write.
func (h *VHist) ApplyWriteT(op VOp) (int64, error) { return h.applyWriteT(op) }

func (h *VHist) applyWriteT(op VOp) (int64, error) {
	switch op.K {
	case "batch":
		ds := h.W.Dsm.GetDataset(h.DsName(op.DS))
		if ds == nil {
			return 0, fmt.Errorf("harness: no dataset %s", op.DS)
		}
		es, ms := h.ents(op.Ents)
		if err := ds.StoreEntities(es); err != nil {
			return 0, err
		}
		_, _ = h.M.Batch(op.DS, ms)
		return int64(es[0].Recorded), nil
	case "txn":
		t := &Transaction{DatasetEntities: map[string][]*Entity{}}
		mp := map[string][]model.Ent{}
		var first *Entity
		for n, l := range op.Parts {
			es, ms := h.ents(l)
			t.DatasetEntities[h.DsName(n)] = es
			mp[n] = ms
			first = es[0]
		}
		if err := h.storeVia(op.Via).ExecuteTransaction(t); err != nil {
			return 0, err
		}
		_ = h.M.Txn(mp)
		return int64(first.Recorded), nil
	}
	return 0, fmt.Errorf("not a write")
}

func init() {
	engine.RegisterWorker("store", func(args []string) {
		defer func() {
			if vWorkerWorld != nil {
				vWorkerWorld.Destroy()
			}
		}()
		engine.ServeWorker(func(task []byte) interface{} {
			var t engine.SeqTask
			if err := json.Unmarshal(task, &t); err != nil {
				return engine.SeqResult{HarnessEr: err.Error()}
			}
			return VReplayStore(t)
		})
	})
	engine.RegisterWorker("replay-store", func(args []string) {
		// dhcheck worker replay-store <violation.json>
		b, err := os.ReadFile(args[0])
		if err != nil {
			fmt.Println(err)
			os.Exit(2)
		}
		var v struct {
			Replay struct {
				Hist   []json.RawMessage `json:"hist"`
				Params json.RawMessage   `json:"params"`
			} `json:"replay"`
		}
		_ = json.Unmarshal(b, &v)
		res := VReplayStore(engine.SeqTask{Hist: v.Replay.Hist, Params: v.Replay.Params})
		if vWorkerWorld != nil {
			vWorkerWorld.Destroy()
		}
		out, _ := json.MarshalIndent(res, "", " ")
		fmt.Println(string(out))
		if len(res.Viol) > 0 {
			os.Exit(1)
		}
	})
}

// ---- alphabets ---------------------------------------------------------

func vOpsJSON(ops []VOp) []json.RawMessage {
	var out []json.RawMessage
	for _, o := range ops {
		b, _ := json.Marshal(o)
		out = append(out, b)
	}
	return out
}

func poolIdx(names ...string) []int {
	pool := model.Pool(0)
	var out []int
	for _, n := range names {
		out = append(out, model.PoolIndex(pool, n))
	}
	return out
}

// vWriteAlphabet builds the write alphabet: single-entity batches over
// dss x ids x contents, same-id two-entity batches over pairs, and transactions.
func vWriteAlphabet(dss, ids []string, single, pairs []int, txn [][2]int) []VOp {
	var ops []VOp
	for _, d := range dss {
		for _, id := range ids {
			for _, c := range single {
				ops = append(ops, VOp{K: "batch", DS: d, Ents: []VEnt{{id, c}}})
			}
		}
	}
	if len(pairs) > 0 {
		for _, a := range pairs {
			for _, b := range pairs {
				ops = append(ops, VOp{K: "batch", DS: dss[0], Ents: []VEnt{{ids[0], a}, {ids[0], b}}})
			}
		}
	}
	// the same id three times in one batch: change, back, change again
	if len(pairs) > 0 && len(pairs) <= 4 {
		for _, a := range pairs {
			for _, b := range pairs {
				if a != b {
					ops = append(ops, VOp{K: "batch", DS: dss[0], Ents: []VEnt{{ids[0], a}, {ids[0], b}, {ids[0], a}}})
				}
			}
		}
	}
	if len(dss) > 1 {
		for _, t := range txn {
			ops = append(ops, VOp{K: "txn", Parts: map[string][]VEnt{dss[0]: {{ids[0], t[0]}}, dss[1]: {{ids[0], t[1]}}}})
		}
	}
	return ops
}

func storeParams(obs string, dss, ids []string) json.RawMessage {
	b, _ := json.Marshal(StoreParams{Obs: strings.Split(obs, ","), Datasets: dss, IDs: ids})
	return b
}

var _ = time.Now
