package server

import (
	"encoding/json"
	"fmt"
	"strings"
	"time"

	"github.com/mimiro-io/datahub/internal/verifrt/engine"
	"github.com/mimiro-io/datahub/internal/verifrt/model"
)

var (
	vDS  = []string{"A", "B"}
	vIDs = []string{"e1", "e2", "e3"}
)

func allPool() []int {
	var l []int
	for i := range model.Pool(0) {
		l = append(l, i)
	}
	return l
}

func narrowPool() []int {
	var l []int
	for i := 0; i < model.NarrowPool; i++ {
		l = append(l, i)
	}
	return l
}

func init() {
	engine.RegisterCheck("C01", func(r *engine.Run) {
		r.Rule = "SEQ: every sequence of write operations up to the stated depth over the stated alphabet is replayed on the real store (fresh names) and the complete latest-view observation (all page sizes, scoped/unscoped/unmerged lookups) is compared with the reference model; states are deduplicated by a canonical raw-key scan of the implementation; the alphabet also has writes the store must refuse as a whole, and a second search (the replay of C07) has datasets created and deleted between the writes; distinct = distinct canonical end states"
		r.Assumptions = []string{"badger transactions are linearizable", "alphabet: 2 datasets, ids e1,e2(,e3 as ref target), content pool incl. equal-length pairs"}
		ids2 := []string{"e1", "e2"}
		wide := vWriteAlphabet(vDS, ids2, allPool(), poolIdx("v1", "v2", "dv1", "r2", "d", "v1pad", "dv2", "psa", "pas"), [][2]int{{0, 1}, {2, 0}, {0, 2}, {3, 3}})
		narrow := vWriteAlphabet(vDS, ids2, narrowPool(), poolIdx("v1", "dv1", "v1pad"), [][2]int{{0, 2}, {2, 5}})
		// writes the store has to refuse as a whole, carrying entities the later writes re-send
		for _, c := range poolIdx("v1", "dv1") {
			narrow = append(narrow, VOp{K: "badbatch", DS: "A", Ents: []VEnt{{"e1", c}, {"e2", c}}})
			wide = append(wide, VOp{K: "badbatch", DS: "A", Ents: []VEnt{{"e1", c}, {"e2", c}}})
		}
		narrow = append(narrow, VOp{K: "badtxn", Parts: map[string][]VEnt{"A": {{"e1", poolIdx("v1")[0]}}, "B": {{"e2", poolIdx("v1")[0]}}}})
		// the latest view next to deleted (not yet collected) datasets: the replay of C07 with an alphabet of its own
		{
			pi := func(n string) int { return poolIdx(n)[0] }
			da := []VOp{
				{K: "create", DS: "A"}, {K: "create", DS: "B"}, {K: "delete", DS: "A"}, {K: "delete", DS: "B"},
				{K: "batch", DS: "A", Ents: []VEnt{{"e1", pi("v2r2")}}},
				{K: "batch", DS: "B", Ents: []VEnt{{"e1", pi("dv1")}}},
				{K: "batch", DS: "B", Ents: []VEnt{{"e1", pi("v1")}, {"e2", pi("r1")}}},
				{K: "batch", DS: "S", Ents: []VEnt{{"e1", pi("v2")}}},
			}
			dp, _ := json.Marshal(DsmParams{Obs: []string{"c07"}, Names: []string{"A", "B"}, IDs: vIDs})
			dd, db := 5, 90*time.Second
			if !r.Quick() {
				dd, db = 7, 30*time.Minute
			}
			engine.RunSeq(r, engine.SeqSpec{Name: "c01-next-to-deleted-datasets", WorkerArgs: []string{"worker", "dsm"}, Alphabet: vOpsJSON(da), Params: dp, Depth: dd, Budget: db})
		}
		params := storeParams("c01", vDS, vIDs)
		if r.Quick() {
			engine.RunSeq(r, engine.SeqSpec{Name: "c01-wide", WorkerArgs: []string{"worker", "store"}, Alphabet: vOpsJSON(wide), Params: params, Depth: 2, Budget: 60 * time.Second})
			engine.RunSeq(r, engine.SeqSpec{Name: "c01-narrow", WorkerArgs: []string{"worker", "store"}, Alphabet: vOpsJSON(narrow), Params: params, Depth: 3, Budget: 60 * time.Second})
			// writers that overlap in time: whatever the order, listing, scoped and unscoped lookup agree on one last version
			for _, sc := range c05Scenarios() {
				if sc.Name == "S1-two-batches-same-ids" || sc.Name == "S15-txn-waiting-for-a-lock-vs-batch-on-the-same-entity" || sc.Name == "S12-rejected-batch-vs-writers-of-new-ids" {
					sc.Name = "C01-" + sc.Name
					engine.RunSched(r, engine.SchedSpec{Name: sc.Name, WorkerArgs: []string{"worker", "sched-store"}, Scenario: sc, Bound: 2, Horizon: 1500, BudgetS: 60})
				}
			}
			// the same observations through GET /datasets/{ds}/entities (paged) and POST /query {entityId}
			engine.RunSeq(r, engine.SeqSpec{Name: "c01-http", WorkerArgs: []string{"worker", "http-store"}, Alphabet: vOpsJSON(narrow), Params: params, Depth: 2, Budget: 60 * time.Second})
		} else {
			engine.RunSeq(r, engine.SeqSpec{Name: "c01-http", WorkerArgs: []string{"worker", "http-store"}, Alphabet: vOpsJSON(narrow), Params: params, Depth: 3, Budget: 20 * time.Minute})
			engine.RunSeq(r, engine.SeqSpec{Name: "c01-wide", WorkerArgs: []string{"worker", "store"}, Alphabet: vOpsJSON(wide), Params: params, Depth: 3, Budget: 40 * time.Minute})
			engine.RunSeq(r, engine.SeqSpec{Name: "c01-narrow", WorkerArgs: []string{"worker", "store"}, Alphabet: vOpsJSON(narrow), Params: params, Depth: 4, Budget: 30 * time.Minute})
		}
	})

	engine.RegisterCheck("C02", func(r *engine.Run) {
		r.Rule = "SEQ: every interleaving of write operations with token-carrying readers (two cursors, every limit, latest-only or not) up to the stated depth; after every history the full feed, every paged read (limits 0..3, latest-only or not), end-of-feed and beyond-the-end tokens are compared with the reference feed (one entry per non-identical write); reader cursors are part of the state"
		r.Assumptions = []string{"badger transactions are linearizable", "change positions need not be contiguous; tokens are compared by the feed index they denote"}
		ids2 := []string{"e1", "e2"}
		writes := vWriteAlphabet([]string{"A"}, ids2, poolIdx("v1", "v2", "dv1", "r2", "dv2", "arrarr"), poolIdx("v1", "v2", "dv1", "dv2"), nil)
		writes = append(writes, VOp{K: "batch", DS: "A", Ents: []VEnt{{"e1", 0}, {"e2", 0}, {"e1", 1}}})
		writes = append(writes, VOp{K: "batch", DS: "B", Ents: []VEnt{{"e1", 0}}})
		// transactions (the other write path) and writes the store refuses as a whole
		writes = append(writes, VOp{K: "txn", Parts: map[string][]VEnt{"A": {{"e2", poolIdx("v2")[0]}}, "B": {{"e1", poolIdx("v2")[0]}}}})
		writes = append(writes, VOp{K: "badbatch", DS: "A", Ents: []VEnt{{"e1", poolIdx("v2")[0]}, {"e2", poolIdx("v1")[0]}}})
		writes = append(writes, VOp{K: "badtxn", Parts: map[string][]VEnt{"A": {{"e1", poolIdx("dv1")[0]}}, "B": {{"e1", poolIdx("v2")[0]}}}})
		var reads []VOp
		for _, l := range []int{0, 1, 2} {
			reads = append(reads, VOp{K: "read", R: "r1", DS: "A", L: l})
		}
		for _, l := range []int{1, 2} {
			reads = append(reads, VOp{K: "read", R: "r2", DS: "A", L: l, LO: true})
		}
		// over HTTP: every document of the C15 round-trip box (all value shapes, incl. nested entities and arrays) is
		// posted, then the current version of each of its entities is posted again: the feed must not grow
		{
			var tasks []json.RawMessage
			for i := 0; i < 2400; i += 200 {
				tasks = append(tasks, json.RawMessage(fmt.Sprintf(`{"kind":"repost","from":%d,"to":%d}`, i, i+200)))
			}
			pl := &engine.Pool{Args: []string{"worker", "c15"}, Timeout: 300 * time.Second}
			cases := 0
			for _, o := range pl.Do(tasks, nil) {
				var cr struct {
					Cases int                `json:"cases"`
					Viol  []engine.Violation `json:"viol"`
				}
				if o.Err != "" || json.Unmarshal(o.Out, &cr) != nil {
					r.Cap("c02-repost: worker problem " + o.Err)
					continue
				}
				cases += cr.Cases
				for _, v := range cr.Viol {
					if strings.HasPrefix(v.Key, "C02:") {
						v.Engine = "ENUM:c02-repost"
						r.AddViolation(v)
					}
				}
			}
			r.Evaluations += cases
			r.Traces += cases
			r.AddPart(map[string]interface{}{"engine": "ENUM", "name": "c02-http-repost", "documents": cases})
		}
		alpha := append(writes, reads...)
		params := storeParams("c02", vDS, vIDs)
		depth, budget := 3, 300*time.Second
		if !r.Quick() {
			depth, budget = 5, 40*time.Minute
		}
		engine.RunSeq(r, engine.SeqSpec{Name: "c02", WorkerArgs: []string{"worker", "store"}, Alphabet: vOpsJSON(alpha), Params: params, Depth: depth, Budget: budget})
		// the same feeds through GET /datasets/{ds}/changes?since=&limit=&latestOnly= (tokens followed)
		hdepth := 2
		if !r.Quick() {
			hdepth = 3
		}
		// SCHED: two writers next to a reader that follows its tokens (all interleavings up to the preemption bound)
		{
			pool := model.Pool(0)
			pi := func(n string) int { return model.PoolIndex(pool, n) }
			rd := VOp{K: "tokread", DS: "A", L: 0}
			sc := SchedScenario{Name: "R1-two-writers-vs-token-reader", Datasets: []string{"A"}, IDs: vIDs, Oracle: "tokens",
				Pre:     []VOp{{K: "batch", DS: "A", Ents: []VEnt{{"e1", pi("v1")}}}},
				Threads: [][]VOp{{{K: "batch", DS: "A", Ents: []VEnt{{"e2", pi("v1")}}}}, {{K: "batch", DS: "A", Ents: []VEnt{{"e3", pi("v2")}}}}, {rd, rd, rd}}}
			bound, sb := 1, 60
			if !r.Quick() {
				bound, sb = 2, 900
			}
			engine.RunSched(r, engine.SchedSpec{Name: sc.Name, WorkerArgs: []string{"worker", "sched-store"}, Scenario: sc, Bound: bound, Horizon: 1500, BudgetS: sb})
		}
		engine.RunSeq(r, engine.SeqSpec{Name: "c02-http", WorkerArgs: []string{"worker", "http-store"}, Alphabet: vOpsJSON(writes), Params: params, Depth: hdepth, Budget: budget})
	})

	engine.RegisterCheck("C03", func(r *engine.Run) {
		r.Rule = "SEQ: every sequence of reference-shaped writes up to the stated depth; after every history all 216 relationship queries (3 start ids x {p,q,*} x {out,in} x 4 scopes) x limits {unlimited,1,2 following continuations} plus multi-start queries are compared as sets with the graph implied by the model's latest versions"
		r.Assumptions = []string{"badger transactions are linearizable", "result order and related-entity content are not compared here (C01)"}
		ids2 := []string{"e1", "e2"}
		refs := poolIdx("e", "r2", "r23", "pq2", "q3", "dr2", "d", "r1", "r32", "psa", "pas", "r223")
		alpha := vWriteAlphabet(vDS, ids2, refs, poolIdx("r2", "dr2", "e"), [][2]int{})
		alpha = append(alpha, VOp{K: "txn", Parts: map[string][]VEnt{"A": {{"e1", refs[1]}}, "B": {{"e1", refs[5]}}}})
		params := storeParams("c03", vDS, vIDs)
		depth, budget := 2, 90*time.Second
		if !r.Quick() {
			depth, budget = 3, 40*time.Minute
		}
		engine.RunSeq(r, engine.SeqSpec{Name: "c03", WorkerArgs: []string{"worker", "store"}, Alphabet: vOpsJSON(alpha), Params: params, Depth: depth, Budget: budget})
		{
			// the same queries through POST /query (continuations base64 round trip)
			hs := vWriteAlphabet(vDS, []string{"e1"}, poolIdx("r2", "dr2", "pq2", "e", "r23", "r3"), poolIdx("r2", "dr2"), nil)
			hdepth := 2
			if !r.Quick() {
				hdepth = 3
			}
			engine.RunSeq(r, engine.SeqSpec{Name: "c03-http", WorkerArgs: []string{"worker", "http-store"}, Alphabet: vOpsJSON(hs), Params: params, Depth: hdepth, Budget: budget})
		}
		{
			// three operations the thorough tier found at depth 3 (fixed in cb4abf1), to their full depth in both tiers:
			// an entity that drops its reference in one dataset and is deleted in another, then another referrer
			sp := []VOp{{K: "txn", Parts: map[string][]VEnt{"A": {{"e1", refs[1]}}, "B": {{"e1", refs[5]}}}},
				{K: "batch", DS: "A", Ents: []VEnt{{"e1", refs[6]}}}, {K: "batch", DS: "A", Ents: []VEnt{{"e2", poolIdx("r223")[0]}}},
				{K: "batch", DS: "B", Ents: []VEnt{{"e2", poolIdx("psa")[0]}}}, {K: "batch", DS: "B", Ents: []VEnt{{"e1", refs[0]}}}}
			engine.RunSeq(r, engine.SeqSpec{Name: "c03-spillover", WorkerArgs: []string{"worker", "store"}, Alphabet: vOpsJSON(sp), Params: params, Depth: 4, Budget: 60 * time.Second})
		}
		if r.Quick() {
			small := vWriteAlphabet(vDS, []string{"e1"}, poolIdx("r2", "dr2", "pq2", "e", "r23", "r3", "r223"), poolIdx("r2", "dr2"), nil)
			small = append(small, VOp{K: "batch", DS: "A", Ents: []VEnt{{"e2", refs[7]}}})
			engine.RunSeq(r, engine.SeqSpec{Name: "c03-narrow", WorkerArgs: []string{"worker", "store"}, Alphabet: vOpsJSON(small), Params: params, Depth: 3, Budget: 60 * time.Second})
		}
	})

	engine.RegisterCheck("C06", func(r *engine.Run) {
		r.Rule = "SEQ, differential: every write history up to the stated depth; after each operation the current-state answers (entity lookups per scope, relationship queries with limits 0 and 1) are recorded as the truth for the instants exactly at, 1ns before and 1ns after that commit; at the end of every history every recorded instant is re-evaluated as a point-in-time query (continuations pin the instant) and compared with its truth; in the reference-shaped search a client also starts a paged current-state query (limit 1, outgoing * / incoming p) and fetches the remaining pages after later writes: the union must be what the graph gave when the query was started; the same client through POST /query with several starting entities (several continuation tokens per request); and every commit instant (at, 1 ns before, 1 ns after) as POST /query continuations pinned to it (the handler's own token encoding), unpaged and with limit 1, against the current-state answer taken at that instant"
		r.Assumptions = []string{"badger transactions are linearizable", "commit times are the implementation's real clock; only their order matters"}
		ids2 := []string{"e1", "e2"}
		alpha := vWriteAlphabet(vDS, ids2, poolIdx("v1", "v2", "dv1", "r2", "r23", "dr2", "dv2", "r3"), poolIdx("v1", "dv1", "r2"), [][2]int{{0, 2}})
		params := storeParams("c06", vDS, vIDs)
		depth, budget := 2, 90*time.Second
		if !r.Quick() {
			depth, budget = 4, 40*time.Minute
		}
		engine.RunSeq(r, engine.SeqSpec{Name: "c06", WorkerArgs: []string{"worker", "store"}, Alphabet: vOpsJSON(alpha), Params: params, Depth: depth, Budget: budget})
		if r.Quick() {
			small := vWriteAlphabet([]string{"A"}, []string{"e1"}, poolIdx("v1", "v2", "dv1", "r2", "dr2", "r23"), nil, nil)
			small = append(small, VOp{K: "batch", DS: "B", Ents: []VEnt{{"e1", 1}}})
			for _, c := range poolIdx("r23", "r3") {
				small = append(small, VOp{K: "batch", DS: "B", Ents: []VEnt{{"e1", c}}})
			}
			engine.RunSeq(r, engine.SeqSpec{Name: "c06-narrow", WorkerArgs: []string{"worker", "store"}, Alphabet: vOpsJSON(small), Params: params, Depth: 4, Budget: 60 * time.Second})
		}
		// Not explored: instants taken by a reader WHILE a write is in flight. A write is stamped (txnTime) before it
		// commits, so an as-of-t answer taken between stamp and commit changes when the commit lands - on the unchanged
		// tree too (a trial scenario showed it for batches and transactions alike). The property quantifies over
		// histories, where every write has committed before the next instant is taken; see DESIGN.md section 9.
		// reference-shaped histories of one entity held by two datasets: interleaved commits, removed and re-asserted
		// references (paged point-in-time queries have to replay newer transactions of the other dataset)
		var refs []VOp
		for _, c := range poolIdx("pq2", "r23", "r2", "dr2", "e") {
			refs = append(refs, VOp{K: "batch", DS: "A", Ents: []VEnt{{"e1", c}}})
		}
		for _, c := range poolIdx("r23", "r3", "e") {
			refs = append(refs, VOp{K: "batch", DS: "B", Ents: []VEnt{{"e1", c}}})
		}
		// more than one entity referring to the same target (e1, e2 itself and e3 all point at e2)
		for _, id := range []string{"e2", "e3"} {
			refs = append(refs, VOp{K: "batch", DS: "A", Ents: []VEnt{{id, poolIdx("r2")[0]}}})
		}
		// a client that started a paged current-state query, and fetches the rest after later writes
		refs = append(refs, VOp{K: "qstart"}, VOp{K: "qstart", LO: true}, VOp{K: "qcont"})
		rdepth := 3
		if !r.Quick() {
			rdepth = 5
		}
		engine.RunSeq(r, engine.SeqSpec{Name: "c06-refs", WorkerArgs: []string{"worker", "store"}, Alphabet: vOpsJSON(refs), Params: params, Depth: rdepth, Budget: budget})
		// the same client on a smaller alphabet, one level deeper (write, start, write, continue is already four operations)
		var cq []VOp
		for _, c := range poolIdx("r23", "r2", "dr2", "e") {
			cq = append(cq, VOp{K: "batch", DS: "A", Ents: []VEnt{{"e1", c}}})
		}
		cq = append(cq, VOp{K: "batch", DS: "A", Ents: []VEnt{{"e3", poolIdx("r2")[0]}}}, VOp{K: "batch", DS: "A", Ents: []VEnt{{"e3", poolIdx("e")[0]}}})
		cq = append(cq, VOp{K: "qstart"}, VOp{K: "qstart", LO: true}, VOp{K: "qcont"})
		engine.RunSeq(r, engine.SeqSpec{Name: "c06-continued-query", WorkerArgs: []string{"worker", "store"}, Alphabet: vOpsJSON(cq), Params: params, Depth: rdepth + 2, Budget: budget})
		// the same client through POST /query, with several starting entities: several continuation tokens travel in
		// one request (base64 / JSON round trip), each pinning the instant
		var hq []VOp
		for _, c := range poolIdx("r23", "r2", "e") {
			hq = append(hq, VOp{K: "batch", DS: "A", Ents: []VEnt{{"e1", c}}})
		}
		hq = append(hq, VOp{K: "batch", DS: "A", Ents: []VEnt{{"e3", poolIdx("r2")[0]}}}, VOp{K: "batch", DS: "A", Ents: []VEnt{{"e2", poolIdx("r23")[0]}}}, VOp{K: "batch", DS: "A", Ents: []VEnt{{"e3", poolIdx("e")[0]}}})
		hq = append(hq, VOp{K: "qstart"}, VOp{K: "qstart", LO: true}, VOp{K: "qcont"})
		// every commit instant (exactly at, 1 ns before, 1 ns after) as a pinned POST /query continuation
		engine.RunSeq(r, engine.SeqSpec{Name: "c06-http-pinned-instants", WorkerArgs: []string{"worker", "http-store"}, Alphabet: vOpsJSON(hq[:6]), Params: storeParams("c06pit", vDS, vIDs), Depth: rdepth, Budget: budget})
		engine.RunSeq(r, engine.SeqSpec{Name: "c06-http-continued-query", WorkerArgs: []string{"worker", "http-store"}, Alphabet: vOpsJSON(hq), Params: storeParams("none", vDS, vIDs), Depth: rdepth + 1, Budget: budget})
	})
}

func secs(n int) time.Duration { return time.Duration(n) * time.Second }
