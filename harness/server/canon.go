package server

import (
	"crypto/sha1"
	"encoding/binary"
	"encoding/hex"
	"encoding/json"
	"fmt"
	"sort"
	"strings"

	"github.com/dgraph-io/badger/v4"
)

// Canon computes the canonical state key of a history FROM THE IMPLEMENTATION:
// a raw scan of every badger key that belongs to the history's datasets and
// entity ids, with internal entity ids, dataset ids, commit times and change
// positions replaced by their rank. Two histories are merged by the search
// only if this persistent state is identical up to that order-preserving
// renaming (the code never branches on absolute values of ids/times, only on
// equality and order).
func (h *VHist) Canon(absIDs []string, absDatasets []string, extra string) string {
	return h.CanonOpt(absIDs, absDatasets, extra, false)
}

// CanonOpt is Canon; with onlyListed, records that belong to datasets outside absDatasets are left out.
func (h *VHist) CanonOpt(absIDs []string, absDatasets []string, extra string, onlyListed bool) string {
	s := h.W.Store
	var lines []string
	ridRank := map[uint64]int{}
	dsRank := map[uint32]int{}
	var rids []uint64
	var dsids []uint32
	txn := s.database.NewTransaction(false)
	defer txn.Discard()
	ridName := map[uint64]string{}
	for _, id := range absIDs {
		rid, ok, _ := s.getIDForURI(txn, h.Curie(id))
		if ok {
			rids = append(rids, rid)
			ridName[rid] = id
		}
	}
	sort.Slice(rids, func(i, j int) bool { return rids[i] < rids[j] })
	for i, r := range rids {
		ridRank[r] = i
	}
	for _, n := range absDatasets {
		if ds := h.W.Dsm.GetDataset(h.DsName(n)); ds != nil {
			dsids = append(dsids, ds.InternalID)
		}
	}
	sort.Slice(dsids, func(i, j int) bool { return dsids[i] < dsids[j] })
	for i, d := range dsids {
		dsRank[d] = i
	}
	// collect times first for ranking
	times := map[uint64]bool{}
	type rec struct {
		kind string
		f    []uint64
		val  string
	}
	var recs []rec
	scan := func(prefix []byte, fn func(k []byte, item *badger.Item)) {
		opts := badger.DefaultIteratorOptions
		opts.Prefix = prefix
		it := txn.NewIterator(opts)
		defer it.Close()
		for it.Seek(prefix); it.ValidForPrefix(prefix); it.Next() {
			fn(it.Item().KeyCopy(nil), it.Item())
		}
	}
	for _, rid := range rids {
		p := make([]byte, 10)
		binary.BigEndian.PutUint16(p, EntityIDToJSONIndexID)
		binary.BigEndian.PutUint64(p[2:], rid)
		scan(p, func(k []byte, item *badger.Item) {
			ds := binary.BigEndian.Uint32(k[10:])
			t := binary.BigEndian.Uint64(k[14:])
			seq := uint64(binary.BigEndian.Uint16(k[22:]))
			times[t] = true
			val := ""
			_ = item.Value(func(v []byte) error {
				e := &Entity{}
				if err := json.Unmarshal(v, e); err == nil {
					val = h.AbsID(e.ID) + h.AbsContent(e).String()
				} else {
					val = "unparsable"
				}
				return nil
			})
			recs = append(recs, rec{"E", []uint64{rid, uint64(ds), t, seq}, val})
		})
		for _, idx := range []uint16{OutgoingRefIndex, IncomingRefIndex} {
			p := make([]byte, 10)
			binary.BigEndian.PutUint16(p, idx)
			binary.BigEndian.PutUint64(p[2:], rid)
			scan(p, func(k []byte, item *badger.Item) {
				if idx == OutgoingRefIndex {
					t := binary.BigEndian.Uint64(k[10:])
					times[t] = true
					pred := binary.BigEndian.Uint64(k[18:])
					rel := binary.BigEndian.Uint64(k[26:])
					del := uint64(binary.BigEndian.Uint16(k[34:]))
					ds := uint64(binary.BigEndian.Uint32(k[36:]))
					pu, _ := s.getURIForID(pred)
					ru, _ := s.getURIForID(rel)
					recs = append(recs, rec{"O", []uint64{rid, ds, t, del}, h.AbsKey(pu) + ">" + h.AbsID(ru)})
				} else {
					src := binary.BigEndian.Uint64(k[10:])
					t := binary.BigEndian.Uint64(k[18:])
					times[t] = true
					pred := binary.BigEndian.Uint64(k[26:])
					del := uint64(binary.BigEndian.Uint16(k[34:]))
					ds := uint64(binary.BigEndian.Uint32(k[36:]))
					pu, _ := s.getURIForID(pred)
					su, _ := s.getURIForID(src)
					recs = append(recs, rec{"I", []uint64{rid, ds, t, del}, h.AbsKey(pu) + "<" + h.AbsID(su)})
				}
			})
		}
	}
	for _, d := range dsids {
		p := make([]byte, 6)
		binary.BigEndian.PutUint16(p, DatasetEntityChangeLog)
		binary.BigEndian.PutUint32(p[2:], d)
		n := 0
		scan(p, func(k []byte, item *badger.Item) {
			rid := binary.BigEndian.Uint64(k[14:])
			val := ""
			_ = item.Value(func(v []byte) error {
				if len(v) >= 24 {
					t := binary.BigEndian.Uint64(v[14:])
					times[t] = true
					val = fmt.Sprintf("t%d.%d", t, binary.BigEndian.Uint16(v[22:]))
				}
				return nil
			})
			recs = append(recs, rec{"C", []uint64{uint64(d), uint64(n), rid}, val})
			n++
		})
		p = make([]byte, 6)
		binary.BigEndian.PutUint16(p, DatasetLatestEntities)
		binary.BigEndian.PutUint32(p[2:], d)
		scan(p, func(k []byte, item *badger.Item) {
			rid := binary.BigEndian.Uint64(k[6:])
			val := ""
			_ = item.Value(func(v []byte) error {
				if len(v) >= 24 {
					t := binary.BigEndian.Uint64(v[14:])
					times[t] = true
					val = fmt.Sprintf("t%d.%d", t, binary.BigEndian.Uint16(v[22:]))
				}
				return nil
			})
			recs = append(recs, rec{"L", []uint64{uint64(d), rid}, val})
		})
	}
	if onlyListed {
		// drop records of other datasets BEFORE ranking times, so that removing them leaves the key unchanged
		kept := recs[:0]
		times = map[uint64]bool{}
		for _, r := range recs {
			var d uint64
			switch r.kind {
			case "E", "O", "I":
				d = r.f[1]
			default:
				d = r.f[0]
			}
			if _, ok := dsRank[uint32(d)]; !ok {
				continue
			}
			kept = append(kept, r)
			switch r.kind {
			case "E", "O", "I":
				times[r.f[2]] = true
			default:
				var t uint64
				var sq int
				if n, _ := fmt.Sscanf(r.val, "t%d.%d", &t, &sq); n == 2 {
					times[t] = true
				}
			}
		}
		recs = kept
	}
	var tl []uint64
	for t := range times {
		tl = append(tl, t)
	}
	sort.Slice(tl, func(i, j int) bool { return tl[i] < tl[j] })
	tRank := map[uint64]int{}
	for i, t := range tl {
		tRank[t] = i
	}
	rr := func(r uint64) string {
		if n, ok := ridRank[r]; ok {
			return fmt.Sprintf("r%d", n)
		}
		return "r?" // id outside the history's id pool (shared vocabulary); appears via val
	}
	dr := func(d uint64) string {
		if n, ok := dsRank[uint32(d)]; ok {
			return fmt.Sprintf("d%d", n)
		}
		return "dX"
	}
	for _, r := range recs {
		var line string
		switch r.kind {
		case "E":
			line = fmt.Sprintf("E %s %s t%d %d %s", rr(r.f[0]), dr(r.f[1]), tRank[r.f[2]], r.f[3], r.val)
		case "O", "I":
			line = fmt.Sprintf("%s %s %s t%d del%d %s", r.kind, rr(r.f[0]), dr(r.f[1]), tRank[r.f[2]], r.f[3], r.val)
		case "C":
			v := r.val
			if strings.HasPrefix(v, "t") {
				var t uint64
				var sq int
				fmt.Sscanf(v, "t%d.%d", &t, &sq)
				v = fmt.Sprintf("t%d.%d", tRank[t], sq)
			}
			line = fmt.Sprintf("C %s #%d %s %s", dr(r.f[0]), r.f[1], rr(r.f[2]), v)
		case "L":
			v := r.val
			if strings.HasPrefix(v, "t") {
				var t uint64
				var sq int
				fmt.Sscanf(v, "t%d.%d", &t, &sq)
				v = fmt.Sprintf("t%d.%d", tRank[t], sq)
			}
			line = fmt.Sprintf("L %s %s %s", dr(r.f[0]), rr(r.f[1]), v)
		}
		if onlyListed && strings.Contains(line, " dX ") {
			continue
		}
		lines = append(lines, line)
	}
	sort.Strings(lines)
	lines = append(lines, "X "+extra)
	sum := sha1.Sum([]byte(strings.Join(lines, "\n")))
	return hex.EncodeToString(sum[:])
}

// CatalogueDigest: the catalogue records of this history as they are on disk: the dataset records (name, public
// namespaces, proxy / virtual settings) and, per name, the state of its meta-entity versions in core.Dataset.
// Part of the canonical state of histories about the catalogue: two histories that agree on the entities can still
// differ in a dataset record (e.g. one written back after the delete) that only a later restart makes visible.
func (h *VHist) CatalogueDigest() string {
	s := h.W.Store
	var lines []string
	txn := s.database.NewTransaction(false)
	defer txn.Discard()
	prefix := make([]byte, 2)
	binary.BigEndian.PutUint16(prefix, SysDatasetsID)
	opts := badger.DefaultIteratorOptions
	opts.Prefix = prefix
	it := txn.NewIterator(opts)
	for it.Seek(prefix); it.ValidForPrefix(prefix); it.Next() {
		name := string(it.Item().KeyCopy(nil)[2:])
		if !strings.HasSuffix(name, "."+h.Tag) {
			continue
		}
		_ = it.Item().Value(func(v []byte) error {
			d := &Dataset{}
			if err := json.Unmarshal(v, d); err != nil {
				lines = append(lines, "rec:"+h.AbsDs(name)+":unparsable")
				return nil
			}
			lines = append(lines, fmt.Sprintf("rec:%s:id=%s:ns=%v:proxy=%v:virtual=%v", h.AbsDs(name), h.AbsDs(d.ID), d.PublicNamespaces, d.ProxyConfig != nil, d.VirtualDatasetConfig != nil))
			return nil
		})
	}
	it.Close()
	if core := h.W.Dsm.GetDataset(datasetCore); core != nil {
		_, _ = core.MapEntities("", -1, func(e *Entity) error {
			local := e.ID[strings.Index(e.ID, ":")+1:]
			if strings.HasSuffix(local, "."+h.Tag) {
				lines = append(lines, fmt.Sprintf("meta:%s:deleted=%v", h.AbsDs(local), e.IsDeleted))
			}
			return nil
		})
	}
	sort.Strings(lines)
	return strings.Join(lines, ";")
}
