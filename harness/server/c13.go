package server

import (
	"encoding/json"
	"errors"
	"fmt"
	"runtime/debug"
	"sort"
	"strings"
	"time"

	"github.com/dgraph-io/badger/v4"
	"github.com/mimiro-io/datahub/internal/verifhook"
	"github.com/mimiro-io/datahub/internal/verifrt/engine"
	"github.com/mimiro-io/datahub/internal/verifrt/model"
	"github.com/mimiro-io/datahub/internal/verifrt/vsync"
)

// ---------------------------------------------------------------- ENUM: URI round trip

func c13URIs() []string {
	var out []string
	for _, scheme := range []string{"http", "https"} {
		for _, auth := range []string{"a", "a.b", "a.b:8080"} {
			for _, path := range []string{"", "/", "/x", "/x/", "/x/y", "/x/y/"} {
				for _, frag := range []string{"", "#", "#f", "#f/g", "#f#g"} {
					for _, local := range []string{"", "l", "l:m", ":", "l.m", "1"} {
						out = append(out, scheme+"://"+auth+path+frag+local)
					}
				}
			}
		}
	}
	return out
}

type enumResult struct {
	Evaluations int                `json:"evaluations"`
	Distinct    int                `json:"distinct"`
	Viol        []engine.Violation `json:"viol"`
	Samples     []interface{}      `json:"samples"`
}

// vC13Enum: every URI of the grammar is compacted and expanded again through every API that does so.
func vC13Enum() enumResult {
	var res enumResult
	w := VOpenWorld(VNewScratchDir("c13"))
	defer w.Destroy()
	s := w.Store
	fail := func(key, what string) {
		if len(res.Viol) < 30 {
			res.Viol = append(res.Viol, engine.Violation{Key: key, What: what})
		}
	}
	expansions := map[string]string{} // expansion -> prefix
	prefixes := map[string]string{}
	seenCuries := map[string]string{}
	for _, u := range c13URIs() {
		for variant := 0; variant < 2; variant++ {
			var curie string
			var err error
			if variant == 0 {
				curie, err = s.GetNamespacedIdentifier(u, nil)
			} else {
				curie, err = s.GetNamespacedIdentifierFromURI(u)
			}
			res.Evaluations++
			if err != nil {
				fail("C13:roundtrip-error|"+u, fmt.Sprintf("compacting %s fails: %v", u, err))
				continue
			}
			back, err := s.ExpandCurie(curie)
			if err != nil || back != u {
				fail("C13:roundtrip|"+u, fmt.Sprintf("compacting %s gives %s which expands to %q (err %v)", u, curie, back, err))
				continue
			}
			i := strings.Index(curie, ":")
			prefix := curie[:i]
			exp, _ := s.ExpandCurie(prefix + ":")
			if o, ok := expansions[exp]; ok && o != prefix {
				fail("C13:two-prefixes|"+exp, fmt.Sprintf("expansion %s has prefixes %s and %s", exp, o, prefix))
			}
			if o, ok := prefixes[prefix]; ok && o != exp {
				fail("C13:two-expansions|"+prefix, fmt.Sprintf("prefix %s has expansions %s and %s", prefix, o, exp))
			}
			expansions[exp] = prefix
			prefixes[prefix] = exp
			if o, ok := seenCuries[curie]; ok && o != u {
				fail("C13:curie-collision|"+curie, fmt.Sprintf("%s and %s compact to the same CURIE %s", o, u, curie))
			}
			seenCuries[curie] = u
		}
		// through local contexts: default prefix and a named prefix
		exp, local, err := getURLParts(u)
		if err == nil && local != "" && !strings.Contains(local, ":") {
			for _, ctx := range []map[string]string{{"_": exp}, {"p": exp}} {
				in := local
				if _, ok := ctx["p"]; ok {
					in = "p:" + local
				}
				res.Evaluations++
				curie, err := s.GetNamespacedIdentifier(in, ctx)
				if err != nil {
					fail("C13:local-roundtrip-error|"+u, fmt.Sprintf("compacting %s under context %v fails: %v", in, ctx, err))
					continue
				}
				back, err := s.ExpandCurie(curie)
				if err != nil || back != u {
					fail("C13:local-roundtrip|"+u, fmt.Sprintf("compacting %s under context %v gives %s which expands to %q", in, ctx, curie, back))
				}
			}
		}
	}
	// stored ids: identifier string <-> internal id through a batch, then lookup by URI
	h := w.NewHist()
	_ = h.EnsureDatasets("A")
	ds := w.Dsm.GetDataset(h.DsName("A"))
	n := 0
	for curie, u := range seenCuries {
		n++
		if n > 120 {
			break
		}
		e := NewEntity(curie, 0)
		e.Properties[curie] = 1
		if err := ds.StoreEntities([]*Entity{e}); err != nil {
			fail("C13:store-error|"+u, "storing an entity with id "+curie+" fails: "+err.Error())
			continue
		}
		res.Evaluations++
		got, err := s.GetEntity(u, nil, true)
		if err != nil || got == nil || got.ID != curie || got.InternalID != e.InternalID {
			fail("C13:lookup-by-uri|"+u, fmt.Sprintf("entity stored as %s (internal id %d) is not found by its URI %s: %v %v", curie, e.InternalID, u, got, err))
		}
	}
	if msg := idBijection(h.uriIDs(), h.uriIDs()); msg != "" {
		fail("C13:id-bijection", msg)
	}
	res.Distinct = len(seenCuries)
	res.Samples = []interface{}{map[string]interface{}{"uri": "http://a.b/x/y#f/gl:m", "curie": func() string { c, _ := s.GetNamespacedIdentifier("http://a.b/x/y#f/gl:m", nil); return c }()}}
	return res
}

// ---------------------------------------------------------------- SEQ / CRASH: first use orders

// nsSets: URI sets a "use" op introduces (namespaces n1..n4, locals a,b,c); %s is the history tag.
var nsSets = [][]string{
	{"http://n1.%s/x/a", "http://n2.%s/y#b"},
	{"http://n2.%s/y#b", "http://n2.%s/y#c", "http://n3.%s/a"},
	{"http://n3.%s/a", "http://n1.%s/x/a", "http://n4.%s/z/"},
	{"http://n1.%s/x/c"},
	// the entity of set 0 again, now referring to an identifier nobody has seen (an update that only introduces a
	// reference target)
	{"http://n1.%s/x/a", "http://n5.%s/q#new"},
}

type nsObserved struct {
	Faulted bool              `json:"faulted,omitempty"` // a storage write error was injected somewhere in the history
	Prefix  map[string]string `json:"prefix"`            // expansion -> prefix
	IDs     map[string]uint64 `json:"ids"`               // curie -> internal id
}

func newNsObserved() *nsObserved {
	return &nsObserved{Prefix: map[string]string{}, IDs: map[string]uint64{}}
}

// nsUse performs a "use" op the way a client would: compact the URIs through the store, then store a batch.
func (h *VHist) nsUse(op VOp, obs *nsObserved) error {
	ds := h.W.Dsm.GetDataset(h.DsName(op.DS))
	if ds == nil {
		return fmt.Errorf("no dataset %s", op.DS)
	}
	var curies []string
	for _, t := range nsSets[op.N] {
		u := fmt.Sprintf(strings.ReplaceAll(t, "%s", "%[1]s"), "h"+h.Tag)
		c, err := h.W.Store.GetNamespacedIdentifier(u, nil)
		if err != nil {
			return err
		}
		if !strings.Contains(c, ":") {
			return fmt.Errorf("C13:compact-without-error: compacting %s returned %q and no error", strings.ReplaceAll(u, "h"+h.Tag, "H"), c)
		}
		curies = append(curies, c)
		exp, _, _ := getURLParts(u)
		obs.Prefix[exp] = c[:strings.Index(c, ":")]
	}
	e := NewEntity(curies[0], 0)
	for _, c := range curies[1:] {
		e.Properties[c] = 1
		e.References[c] = c
	}
	if op.Via != "" {
		// the write arrives as a transaction through a contextual store (ExecuteTransaction() of a javascript transform)
		if err := h.storeVia(op.Via).ExecuteTransaction(&Transaction{DatasetEntities: map[string][]*Entity{h.DsName(op.DS): {e}}}); err != nil {
			return err
		}
	} else if err := ds.StoreEntities([]*Entity{e}); err != nil {
		return err
	}
	obs.IDs[curies[0]] = e.InternalID
	txn := h.W.Store.database.NewTransaction(false)
	defer txn.Discard()
	for _, c := range curies[1:] {
		if id, ok, _ := h.W.Store.getIDForURI(txn, c); ok {
			obs.IDs[c] = id
		} else {
			return fmt.Errorf("harness: %s has no id after the batch was acknowledged", c)
		}
	}
	return nil
}

// nsInvariants checks the C13 invariants on memory and persisted state against everything observed so far.
func (c *VCheck) nsInvariants(obs *nsObserved) {
	h := c.H
	nm := h.W.Store.NamespaceManager
	c.Checks++
	nm.lock.Lock()
	p2e := map[string]string{}
	e2p := map[string]string{}
	for k, v := range nm.prefixToExpansionMapping {
		p2e[k] = v
	}
	for k, v := range nm.expansionToPrefixMapping {
		e2p[k] = v
	}
	nm.lock.Unlock()
	inverse := func(where string, p2e, e2p map[string]string) {
		if len(p2e) != len(e2p) {
			c.fail("C13:bijection-size:"+where, fmt.Sprintf("%s: %d prefixes but %d expansions", where, len(p2e), len(e2p)), nil)
		}
		for p, e := range p2e {
			if e2p[e] != p {
				c.fail("C13:bijection:"+where, fmt.Sprintf("%s: prefix %s -> %s but %s -> %s", where, p, e, e, e2p[e]), nil)
			}
		}
	}
	inverse("memory", p2e, e2p)
	st := &NamespacesState{}
	if err := h.W.Store.GetObject(NamespacesIndex, "namespacestate", st); err != nil {
		c.fail("C13:persisted-unreadable", err.Error(), nil)
	} else {
		inverse("persisted", st.PrefixToExpansionMapping, st.ExpansionToPrefixMapping)
		for p, e := range p2e {
			if obs.Faulted {
				// a failed call may leave behind in memory what it did not hand out; what counts then is what a
				// later call hands out (prefix-changed / prefix-rebound after a restart)
				break
			}
			if st.PrefixToExpansionMapping[p] != e {
				c.fail("C13:persisted-differs", fmt.Sprintf("prefix %s -> %s in memory but %q persisted", p, e, st.PrefixToExpansionMapping[p]), nil)
			}
		}
	}
	for exp, p := range obs.Prefix {
		if e2p[exp] != p {
			c.fail("C13:prefix-changed", fmt.Sprintf("expansion %s was handed out with prefix %s, now maps to %q", exp, p, e2p[exp]), nil)
		}
		if p2e[p] != exp {
			c.fail("C13:prefix-rebound", fmt.Sprintf("prefix %s was handed out for %s, now expands to %q", p, exp, p2e[p]), nil)
		}
	}
	txn := h.W.Store.database.NewTransaction(false)
	defer txn.Discard()
	for curie, id := range obs.IDs {
		got, ok, _ := h.W.Store.getIDForURI(txn, curie)
		if !ok || got != id {
			c.fail("C13:id-changed", fmt.Sprintf("identifier %s had internal id %d, now %d (present=%v)", curie, id, got, ok), nil)
		}
		if u, _ := h.W.Store.getURIForID(id); u != curie {
			c.fail("C13:id-rebound", fmt.Sprintf("internal id %d belonged to %s, now resolves to %q", id, curie, u), nil)
		}
	}
	tbl := h.uriIDs()
	if msg := idBijection(tbl, tbl); msg != "" {
		c.fail("C13:id-bijection", msg, nil)
	}
}

// VReplayNs replays a history of use/restart ops (C13 SEQ).
func VReplayNs(task engine.SeqTask) (res engine.SeqResult) {
	defer func() {
		if r := recover(); r != nil {
			res.Viol = append(res.Viol, engine.Violation{Key: "panic|" + fmt.Sprint(r), What: fmt.Sprintf("panic while replaying history: %v", r), Detail: string(debug.Stack())})
			vWorkerWorld = nil
		}
	}()
	vWorldMaxHists = 150
	w := vWorld()
	// identifiers an earlier history on this world left pending (a rejected batch does that) are committed first:
	// every history starts with an empty rolling id transaction, as a freshly started hub does
	_ = w.Store.commitIDTxn()
	h := w.NewHist()
	if err := h.EnsureDatasets("A", "B"); err != nil {
		res.HarnessEr = err.Error()
		return
	}
	chk := &VCheck{H: h}
	obs := newNsObserved()
	poisoned := false
	for i, raw := range task.Hist {
		if poisoned {
			break
		}
		var op VOp
		_ = json.Unmarshal(raw, &op)
		if i == len(task.Hist)-1 {
			chk.Last = op.String()
		}
		switch op.K {
		case "use":
			func() {
				defer func() {
					if r := recover(); r != nil && obs.Faulted {
						chk.fail("C13:panic-after-write-error", fmt.Sprintf("a write after an earlier failed write panicked: %v", r), nil)
						vWorkerWorld = nil
					} else if r != nil {
						chk.fail("C13:write-panics", fmt.Sprintf("a valid write with new identifiers panicked: %v", r), nil)
						vWorkerWorld = nil
						poisoned = true
					}
				}()
				if err := h.nsUse(op, obs); err != nil {
					chk.fail("C13:use-rejected", "a valid write with new identifiers was rejected: "+err.Error(), nil)
				}
			}()
		case "usefault":
			// the same as use, but the L-th storage commit the operation makes answers with an error; the operation
			// may fail (then nothing it did not return counts as handed out), the hub keeps running
			obs.Faulted = true
			n := 0
			badger.VerifCommitFault = func() error {
				n++
				if n == op.L {
					return errors.New("injected storage write error")
				}
				return nil
			}
			func() {
				defer func() {
					badger.VerifCommitFault = nil
					if r := recover(); r != nil {
						chk.fail("C13:panic-on-write-error", fmt.Sprintf("a write whose commit number %d answered with a storage error panicked: %v", op.L, r), nil)
						vWorkerWorld = nil
					}
				}()
				if err := h.nsUse(op, obs); err != nil && strings.HasPrefix(err.Error(), "C13:compact-without-error") {
					chk.fail("C13:compact-without-error", err.Error(), nil)
				}
			}()
		case "lookup":
			// a reader asks for entities by full URI: the first mention of a namespace can be a read
			for _, t := range nsSets[op.N] {
				u := fmt.Sprintf(strings.ReplaceAll(t, "%s", "%[1]s"), "h"+h.Tag)
				if _, err := w.Store.GetEntity(u, nil, true); err != nil {
					chk.fail("C13:lookup-fails", "looking an entity up by its full URI failed: "+err.Error(), nil)
				}
			}
		case "baduse":
			// a batch the store must reject (null reference value); its new identifiers stay pending
			ds := w.Dsm.GetDataset(h.DsName(op.DS))
			c1, _ := w.Store.GetNamespacedIdentifier(fmt.Sprintf("http://bad.h%s/x%d", h.Tag, op.N), nil)
			c2, _ := w.Store.GetNamespacedIdentifier(fmt.Sprintf("http://bad.h%s/p%d", h.Tag, op.N), nil)
			e := NewEntity(c1, 0)
			e.References[c2] = nil
			if err := ds.StoreEntities([]*Entity{e}); err == nil {
				res.HarnessEr = "the batch with a null reference was accepted"
				return
			}
		case "restart":
			w.Restart()
		}
		chk.nsInvariants(obs)
	}
	// canonical key: observed tables with prefixes and ids ranked
	var ps, is []string
	prank := map[string]int{}
	var pl []string
	for _, p := range obs.Prefix {
		pl = append(pl, p)
	}
	sort.Slice(pl, func(i, j int) bool { return len(pl[i]) < len(pl[j]) || (len(pl[i]) == len(pl[j]) && pl[i] < pl[j]) })
	for i, p := range pl {
		prank[p] = i
	}
	tag := "h" + h.Tag
	for e, p := range obs.Prefix {
		ps = append(ps, fmt.Sprintf("%s=%d", strings.ReplaceAll(e, tag, "H"), prank[p]))
	}
	var ids []uint64
	for _, id := range obs.IDs {
		ids = append(ids, id)
	}
	sort.Slice(ids, func(i, j int) bool { return ids[i] < ids[j] })
	irank := map[uint64]int{}
	for i, id := range ids {
		irank[id] = i
	}
	for c, id := range obs.IDs {
		local := c[strings.Index(c, ":")+1:]
		is = append(is, fmt.Sprintf("%d:%s=%d", prank[c[:strings.Index(c, ":")]], local, irank[id]))
	}
	sort.Strings(ps)
	sort.Strings(is)
	res.Key = strings.Join(ps, ",") + "|" + strings.Join(is, ",")
	if obs.Faulted {
		// hidden state after a failed persist: pairs that live in memory only
		st := &NamespacesState{}
		_ = w.Store.GetObject(NamespacesIndex, "namespacestate", st)
		var mo []string
		nm := w.Store.NamespaceManager
		nm.lock.Lock()
		for p, e := range nm.prefixToExpansionMapping {
			if strings.Contains(e, tag) && st.PrefixToExpansionMapping[p] != e {
				mo = append(mo, "p:"+strings.ReplaceAll(e, tag, "H"))
			}
		}
		for e, p := range nm.expansionToPrefixMapping {
			if strings.Contains(e, tag) && st.ExpansionToPrefixMapping[e] != p {
				mo = append(mo, "e:"+strings.ReplaceAll(e, tag, "H"))
			}
		}
		nm.lock.Unlock()
		sort.Strings(mo)
		res.Key += "|faulted|memonly=" + strings.Join(mo, ",")
	}
	{
		// the rolling id transaction is hidden state too: pending after a rejected batch, discarded after a failed commit
		idt := "none"
		w.Store.idmux.Lock()
		if w.Store.idtxn != nil {
			idt = "live"
			if _, err := w.Store.idtxn.Get([]byte{0xff, 0xff, 0}); err != nil && err != badger.ErrKeyNotFound {
				idt = "unusable"
			}
		}
		w.Store.idmux.Unlock()
		res.Key += "|idtxn=" + idt
	}
	// a restart is meant to change nothing: mark the state right behind it, or the search would never go on from there
	if n := len(task.Hist); n > 0 {
		var lo struct {
			K string `json:"k"`
		}
		_ = json.Unmarshal(task.Hist[n-1], &lo)
		if lo.K == "restart" {
			res.Key += "|just-restarted"
		}
	}

	res.Outcome = res.Key
	res.Viol = chk.Viol
	res.Checks = chk.Checks
	if obs.Faulted && vWorkerWorld != nil {
		// whatever a failed write left behind in memory must not reach the next history
		vWorkerWorld.Destroy()
		vWorkerWorld = nil
	}
	return
}

// vInspectNs: after a kill, every mapping that an acknowledged response exposed is unchanged,
// the tables are bijective, and identifiers introduced afterwards get fresh ids and prefixes.
func vInspectNs(w *VWorld, h *VHist, spec CrashSpec, acked int, res *CrashResult) {
	obs := newNsObserved()
	for _, l := range res.AckData {
		var o nsObserved
		if json.Unmarshal([]byte(l), &o) == nil {
			for k, v := range o.Prefix {
				obs.Prefix[k] = v
			}
			for k, v := range o.IDs {
				obs.IDs[k] = v
			}
		}
	}
	killDesc := fmt.Sprintf("commit=%d point=%s#%d", spec.Kill.Commit, spec.Kill.Point, spec.Kill.N)
	chk := &VCheck{H: h, Last: vOpsString(spec.Hist) + "|" + killDesc}
	chk.nsInvariants(obs)
	before := h.uriIDs()
	// suffix: use every set once more plus a brand new one
	for n := range nsSets {
		if err := h.nsUse(VOp{K: "use", DS: spec.Datasets[0], N: n}, obs); err != nil {
			chk.fail("C13:crash-suffix-rejected", "after recovery a write with identifiers is rejected: "+err.Error(), nil)
		}
	}
	chk.nsInvariants(obs)
	if msg := idBijection(before, h.uriIDs()); msg != "" {
		chk.fail("C13:crash-id-reuse", "after recovery: "+msg, nil)
	}
	res.Matched = acked
	res.Checks = chk.Checks
	res.Viol = chk.Viol
	var ks []string
	for k := range obs.Prefix {
		ks = append(ks, k)
	}
	sort.Strings(ks)
	res.Key = fmt.Sprintf("%d/%d", len(before), len(obs.Prefix))
}

// ---------------------------------------------------------------- SCHED: asserters vs context readers

func ctxDigest(c *Context) string {
	// the reads of the handed-out map, marked for the happens-before monitor (what a serialiser does)
	verifhook.Access(c.Namespaces, "NamespaceManager.prefixToExpansionMapping", false)
	var l []string
	for k, v := range c.Namespaces {
		l = append(l, k+"="+v)
	}
	sort.Strings(l)
	return strings.Join(l, ",")
}

// vRunSchedNs executes a namespace scenario: ops "assert" (N = expansion index), "ctxread", "use".
func vRunSchedNs(w *VWorld, sc *SchedScenario, prefix []int, horizon int) *vsync.Execution {
	h := w.NewHist()
	if err := h.EnsureDatasets("A", "B"); err != nil {
		return &vsync.Execution{HarnessErr: err.Error()}
	}
	baseCount := len(w.Store.GetGlobalContext(false).Namespaces)
	s := vsync.NewSched(prefix, horizon)
	s.NameLock(&w.Store.NamespaceManager.lock, "NamespaceManager.lock")
	s.NameLock(w.Store.idmux, "Store.idmux")
	for _, n := range []string{datasetCore, "A", "B"} {
		if ds := w.Dsm.GetDataset(h.DsName(n)); ds != nil {
			s.NameLock(&ds.WriteLock, "WriteLock:"+n)
		}
	}
	type r struct{ prefix, s1, s2, err string }
	results := make([][]r, len(sc.Threads))
	obs := make([]*nsObserved, len(sc.Threads))
	var bodies []func()
	for ti, th := range sc.Threads {
		ti, th := ti, th
		results[ti] = make([]r, len(th))
		obs[ti] = newNsObserved()
		bodies = append(bodies, func() {
			for oi, op := range th {
				switch op.K {
				case "assert":
					p, err := w.Store.NamespaceManager.AssertPrefixMappingForExpansion(fmt.Sprintf("http://s%d.h%s/", op.N, h.Tag))
					results[ti][oi] = r{prefix: p}
					if err != nil {
						results[ti][oi].err = err.Error()
					}
				case "ctxread":
					var c *Context
					if op.DS != "" {
						c = w.Dsm.GetDataset(h.DsName(op.DS)).GetContext()
					} else {
						c = w.Store.GetGlobalContext(false)
					}
					s1 := ctxDigest(c)
					s.Point("reader:between-serialisations")
					s2 := ctxDigest(c)
					results[ti][oi] = r{s1: s1, s2: s2}
				case "use":
					if err := h.nsUse(op, obs[ti]); err != nil {
						results[ti][oi] = r{err: err.Error()}
					}
				case "baduse":
					// a batch that the store must reject (a null reference value, as a posted "refs":{"p":null} gives):
					// its failure must not disturb anybody else's identifiers
					ds := w.Dsm.GetDataset(h.DsName(op.DS))
					c1, _ := w.Store.GetNamespacedIdentifier(fmt.Sprintf("http://bad.h%s/x%d", h.Tag, op.N), nil)
					c2, _ := w.Store.GetNamespacedIdentifier(fmt.Sprintf("http://bad.h%s/p%d", h.Tag, op.N), nil)
					e := NewEntity(c1, 0)
					e.References[c2] = nil
					if err := ds.StoreEntities([]*Entity{e}); err == nil {
						results[ti][oi] = r{err: "harness: the batch with a null reference was accepted"}
					}
				}
			}
		})
	}
	timedOut := s.Run(bodies, nil, 20*time.Second)
	x := vsync.Collect(s, timedOut)
	if x.Fatal() || len(x.Panics) > 0 {
		return x
	}
	byExp := map[int]string{}
	byPrefix := map[string]int{}
	var outcome []string
	for ti, th := range sc.Threads {
		for oi, op := range th {
			res := results[ti][oi]
			if res.err != "" {
				x.Viol = append(x.Viol, fmt.Sprintf("operation %s failed: %s", op.K, res.err))
			}
			switch op.K {
			case "assert":
				if o, ok := byExp[op.N]; ok && o != res.prefix {
					x.Viol = append(x.Viol, fmt.Sprintf("two requests asserting the same expansion got different prefixes %s and %s", o, res.prefix))
				}
				if o, ok := byPrefix[res.prefix]; ok && o != op.N {
					x.Viol = append(x.Viol, fmt.Sprintf("prefix %s was handed out for two different expansions", res.prefix))
				}
				byExp[op.N] = res.prefix
				byPrefix[res.prefix] = op.N
			case "ctxread":
				if res.s1 != res.s2 {
					x.Viol = append(x.Viol, fmt.Sprintf("a context that was handed out changed while the reader held it: first serialisation has %d entries, second %d", len(strings.Split(res.s1, ",")), len(strings.Split(res.s2, ","))))
				}
				outcome = append(outcome, fmt.Sprint(len(strings.Split(res.s1, ","))-baseCount))
			}
		}
	}
	all := newNsObserved()
	for _, o := range obs {
		for k, v := range o.Prefix {
			if p, ok := all.Prefix[k]; ok && p != v {
				x.Viol = append(x.Viol, fmt.Sprintf("two writers were given different prefixes %s and %s for %s", p, v, k))
			}
			all.Prefix[k] = v
		}
		for k, v := range o.IDs {
			if p, ok := all.IDs[k]; ok && p != v {
				x.Viol = append(x.Viol, fmt.Sprintf("two writers were given different internal ids %d and %d for %s", p, v, k))
			}
			all.IDs[k] = v
		}
	}
	chk := &VCheck{H: h}
	chk.nsInvariants(all)
	for _, v := range chk.Viol {
		x.Viol = append(x.Viol, v.What)
	}
	var pl []string
	for e, p := range byExp {
		pl = append(pl, fmt.Sprintf("%d", e)+">"+fmt.Sprint(len(p)))
	}
	sort.Strings(pl)
	x.Outcome = strings.Join(pl, ",") + "|" + strings.Join(outcome, ",")
	return x
}

func init() {
	engine.RegisterWorker("c13-enum", func(args []string) {
		engine.ServeWorker(func(task []byte) interface{} { return vC13Enum() })
	})
	engine.RegisterWorker("ns", func(args []string) {
		defer func() {
			if vWorkerWorld != nil {
				vWorkerWorld.Destroy()
			}
		}()
		engine.ServeWorker(func(task []byte) interface{} {
			var t engine.SeqTask
			if err := json.Unmarshal(task, &t); err != nil {
				return engine.SeqResult{HarnessEr: err.Error()}
			}
			return VReplayNs(t)
		})
	})
	engine.RegisterWorker("crash-ns", func(args []string) {
		engine.ServeWorker(func(task []byte) interface{} {
			var spec CrashSpec
			if err := json.Unmarshal(task, &spec); err != nil {
				return CrashResult{HarnessEr: err.Error()}
			}
			return vRunCrashTask(spec, vInspectNs)
		})
	})
	engine.RegisterWorker("sched-ns", func(args []string) {
		vWorldMaxHists = 150 // every execution adds namespaces; keep the persisted table small
		defer func() {
			if vWorkerWorld != nil {
				vWorkerWorld.Destroy()
			}
		}()
		engine.ServeWorker(vSchedWorker(vRunSchedNs))
	})

	engine.RegisterCheck("C13", func(r *engine.Run) {
		r.Rule = "ENUM (HTTP): after a POST that introduces namespaces, every sequence of up to three reads over {entities, changes - each as JSON and as JSON-LD -, namespaces, query} on a dataset with and without public namespaces; after every read GET /namespaces equals the namespace manager's own table and is one-to-one, and the @context of every JSON response is part of it. ENUM: every URI of a grammar (2 schemes x 3 authorities x 6 paths x 5 fragments x 6 local parts, incl. empty local part and colons) is compacted and expanded through every API that does so; SEQ: every order of first use of 4 URI sets over 2 datasets (as batches, and as transactions through a contextual store the way ExecuteTransaction() of a javascript transform issues them) with restarts, a rejected batch and lookups by full URI (a read as the first mention of a namespace), up to the stated depth, checking bijection, permanence and persisted=memory after every step; CRASH: real SIGKILL at every durable commit of such histories; SCHED: asserters of the same/different expansions, writers introducing the same new identifiers, and context readers/serialisers under every interleaving up to the preemption bound, with a happens-before monitor on the namespace map; distinct = distinct canonical states / outcomes"
		r.Assumptions = []string{"badger transactions are linearizable and commits atomic w.r.t. process kill"}
		// ENUM
		pool := &engine.Pool{N: 1, Args: []string{"worker", "c13-enum"}, Timeout: 120 * time.Second}
		out := pool.Do([]json.RawMessage{json.RawMessage(`{}`)}, nil)
		var er enumResult
		if out[0].Err != "" || json.Unmarshal(out[0].Out, &er) != nil {
			r.Cap("c13-enum failed: " + out[0].Err)
		} else {
			for _, v := range er.Viol {
				v.Engine = "ENUM:c13-roundtrip"
				r.AddViolation(v)
			}
			r.Evaluations += er.Evaluations
			r.States += er.Distinct
			r.Transitions += er.Evaluations
			r.Traces += er.Evaluations
			for _, s := range er.Samples {
				r.AddSample(s)
			}
			r.AddPart(map[string]interface{}{"engine": "ENUM", "name": "c13-roundtrip", "uris": len(c13URIs()), "evaluations": er.Evaluations, "distinct_curies": er.Distinct})
		}
		// the HTTP face: GET /namespaces and the @context of responses after every sequence of up to three reads
		{
			pl := &engine.Pool{N: 1, Args: []string{"worker", "c13-http"}, Timeout: 300 * time.Second}
			ho := pl.Do([]json.RawMessage{json.RawMessage(`{}`)}, nil)
			var hr struct {
				Sequences int                `json:"sequences"`
				Reads     int                `json:"reads"`
				Viol      []engine.Violation `json:"viol"`
				Err       string             `json:"err"`
			}
			if ho[0].Err != "" || json.Unmarshal(ho[0].Out, &hr) != nil || hr.Err != "" {
				r.Cap("c13-http failed: " + ho[0].Err + " " + hr.Err)
			} else {
				for _, v := range hr.Viol {
					v.Replay = map[string]interface{}{"worker": []string{"worker", "c13-http"}}
					r.AddViolation(v)
				}
				r.Evaluations += hr.Reads
				r.Traces += hr.Sequences
				r.AddPart(map[string]interface{}{"engine": "ENUM", "name": "c13-http", "read_sequences": hr.Sequences, "reads": hr.Reads})
			}
		}
		// identifiers on their way through jobs that talk HTTP (transform endpoint with and without context support,
		// a source that re-binds a prefix between runs)
		{
			pl := &engine.Pool{N: 1, Args: []string{"worker", "http-peer-ns"}, Timeout: 300 * time.Second}
			ho := pl.Do([]json.RawMessage{json.RawMessage(`{}`)}, nil)
			var hr struct {
				Cases int                `json:"cases"`
				Viol  []engine.Violation `json:"viol"`
				Err   string             `json:"err"`
			}
			if ho[0].Err != "" || json.Unmarshal(ho[0].Out, &hr) != nil || hr.Err != "" {
				r.Cap("http-peer-ns failed: " + ho[0].Err + " " + hr.Err)
			} else {
				for _, v := range hr.Viol {
					v.Replay = map[string]interface{}{"worker": []string{"worker", "http-peer-ns"}}
					r.AddViolation(v)
				}
				r.Evaluations += hr.Cases
				r.Traces += hr.Cases
				r.AddPart(map[string]interface{}{"engine": "ENUM", "name": "http-peer-ns", "cases": hr.Cases})
			}
		}
		// SEQ
		var alpha []VOp
		for n := range nsSets {
			alpha = append(alpha, VOp{K: "use", DS: "A", N: n})
		}
		alpha = append(alpha, VOp{K: "use", DS: "B", N: 1}, VOp{K: "use", DS: "B", N: 2}, VOp{K: "restart"})
		// writes arriving as transactions through a contextual store (created when the history began / just now), and a
		// rejected batch that leaves identifiers pending
		alpha = append(alpha, VOp{K: "use", DS: "A", N: 3, Via: "ctx0"}, VOp{K: "use", DS: "B", N: 0, Via: "ctx"}, VOp{K: "baduse", DS: "A", N: 1},
			VOp{K: "lookup", N: 0}, VOp{K: "lookup", N: 2},
			VOp{K: "use", DS: "A", N: 4, Via: "ctx"}, VOp{K: "use", DS: "A", N: 4})
		depth, budget := 4, 90
		if !r.Quick() {
			depth, budget = 6, 1800
		}
		engine.RunSeq(r, engine.SeqSpec{Name: "c13-seq", WorkerArgs: []string{"worker", "ns"}, Alphabet: vOpsJSON(alpha), Depth: depth, Budget: secs(budget)})
		// FAULT: the same with one storage write error as a deviation: the k-th commit of a use answers with an error
		{
			fa := []VOp{{K: "use", DS: "A", N: 0}, {K: "use", DS: "A", N: 1}, {K: "use", DS: "B", N: 2}, {K: "restart"}}
			for _, n := range []int{0, 1, 2} {
				for k := 1; k <= 3; k++ {
					fa = append(fa, VOp{K: "usefault", DS: "A", N: n, L: k})
				}
			}
			fd, fb := 4, 120
			if !r.Quick() {
				fd, fb = 5, 1800
			}
			engine.RunSeq(r, engine.SeqSpec{Name: "c13-seq-fault", WorkerArgs: []string{"worker", "ns"}, Alphabet: vOpsJSON(fa), Depth: fd, Budget: secs(fb)})
		}
		// CRASH
		var bases []map[string]interface{}
		cd := 2
		if !r.Quick() {
			cd = 3
		}
		for _, hst := range vSequences([]VOp{{K: "use", DS: "A", N: 0}, {K: "use", DS: "A", N: 1}, {K: "use", DS: "B", N: 2}}, cd) {
			bases = append(bases, vToMap(CrashSpec{Datasets: []string{"A", "B"}, IDs: vIDs, Hist: hst, Kind: "ns"}))
		}
		engine.RunCrash(r, "c13-crash", []string{"worker", "crash-ns"}, bases, 0)
		// SCHED
		scs := []SchedScenario{
			{Name: "N1-assert-same-vs-reader", Oracle: "ns", Threads: [][]VOp{{{K: "assert", N: 1}}, {{K: "assert", N: 1}}, {{K: "ctxread"}}}},
			{Name: "N2-assert-different-vs-dataset-context", Oracle: "ns", Threads: [][]VOp{{{K: "assert", N: 1}}, {{K: "assert", N: 2}}, {{K: "ctxread", DS: "A"}}}},
			{Name: "N3-two-writers-same-new-identifiers", Oracle: "ns", Threads: [][]VOp{{{K: "use", DS: "A", N: 0}}, {{K: "use", DS: "B", N: 2}}}},
			{Name: "N5-writer-vs-rejected-batch", Oracle: "ns", Threads: [][]VOp{{{K: "use", DS: "A", N: 0}}, {{K: "baduse", DS: "B", N: 1}, {K: "baduse", DS: "B", N: 2}}}},
			{Name: "N4-writer-vs-reader", Oracle: "ns", Threads: [][]VOp{{{K: "use", DS: "A", N: 1}}, {{K: "ctxread"}, {K: "ctxread", DS: "B"}}}},
		}
		for _, sc := range scs {
			bound := 2
			if len(sc.Threads) > 2 {
				bound = 1
			}
			budget := 60
			if !r.Quick() {
				bound++
				budget = 600
			}
			engine.RunSched(r, engine.SchedSpec{Name: sc.Name, WorkerArgs: []string{"worker", "sched-ns"}, Scenario: sc, Bound: bound, Horizon: 1500, BudgetS: budget})
		}
	})
	_ = model.NewWorld
}
