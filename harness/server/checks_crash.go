package server

import (
	"encoding/json"

	"github.com/mimiro-io/datahub/internal/verifrt/engine"
	"github.com/mimiro-io/datahub/internal/verifrt/model"
)

func vToMap(v interface{}) map[string]interface{} {
	b, _ := json.Marshal(v)
	var m map[string]interface{}
	_ = json.Unmarshal(b, &m)
	return m
}

// vSequences returns all sequences of length 1..depth over ops.
func vSequences(ops []VOp, depth int) [][]VOp {
	var out [][]VOp
	var rec func(cur []VOp)
	rec = func(cur []VOp) {
		if len(cur) > 0 {
			out = append(out, append([]VOp{}, cur...))
		}
		if len(cur) == depth {
			return
		}
		for _, o := range ops {
			rec(append(cur, o))
		}
	}
	rec(nil)
	return out
}

func init() {
	engine.RegisterCheck("C04", func(r *engine.Run) {
		r.Level = "fault_enumeration"
		r.Rule = "CRASH: for every write history (all sequences up to the stated depth over the alphabet, on a store that already holds one committed batch) the process is really SIGKILLed immediately before every durable badger commit of the history (each one separately), at every hit of every named point in StoreEntities/ExecuteTransaction, and - for every asynchronous commit (Txn.CommitWith) the code issues - right after the acknowledgement with that commit not yet in the write-ahead log; three histories with a batch of 1101 entities and seven with a transaction through a contextual store or with one new identifier in both of its datasets (as a javascript transform issues it; also right after a rejected batch) are included, as are batches that re-send what a refused batch carried and histories with rename / delete / create of datasets between the writes; the store is reopened in a new process and must equal the reference model after the acknowledged ops or after those plus the in-flight op, satisfy the cross-index invariants, and accept further writes with fresh positions and ids. distinct = distinct canonical recovered states"
		r.Assumptions = []string{"a badger commit is atomic with respect to process kill", "process-kill model: the OS and page cache survive (no power loss)", "the items counter of the meta-entity is outside this property"}
		pool := model.Pool(0)
		pi := func(n string) int { return model.PoolIndex(pool, n) }
		pre := []VOp{{K: "batch", DS: "A", Ents: []VEnt{{"e1", pi("v1r2")}}}, {K: "batch", DS: "B", Ents: []VEnt{{"e3", pi("v1")}}}}
		alpha := []VOp{
			{K: "batch", DS: "A", Ents: []VEnt{{"e1", pi("v2")}}},
			{K: "batch", DS: "A", Ents: []VEnt{{"e1", pi("dv1")}, {"e2", pi("r23")}}},
			{K: "txn", Parts: map[string][]VEnt{"A": {{"e1", pi("v2r2")}}, "B": {{"e3", pi("r1")}}}},
			{K: "batch", DS: "B", Ents: []VEnt{{"e1", pi("pq2")}}},
			// a transaction that only rewrites entities both datasets already hold (no new ids, no counter change)
			{K: "txn", Parts: map[string][]VEnt{"A": {{"e1", pi("v2")}}, "B": {{"e3", pi("v2")}}}},
		}
		depth := 2
		if !r.Quick() {
			depth = 3
			alpha = append(alpha, VOp{K: "txn", Parts: map[string][]VEnt{"A": {{"e2", pi("v1")}, {"e2", pi("dv1")}}, "B": {{"e1", pi("v1")}}}})
		}
		var bases []map[string]interface{}
		for _, h := range vSequences(alpha, depth) {
			bases = append(bases, vToMap(CrashSpec{Datasets: vDS, IDs: vIDs, Pre: pre, Hist: h, Kind: "store"}))
		}
		engine.RunCrash(r, "c04-store", []string{"worker", "crash-store"}, bases, 0)
		// transactions that arrive through a contextual store (ExecuteTransaction() of a javascript transform; the store
		// object was created when the history began), also right after a rejected batch that left identifiers pending
		ctxTxn := VOp{K: "txn", Via: "ctx0", Parts: map[string][]VEnt{"A": {{"e2", pi("v1")}}, "B": {{"e4", pi("r1")}}}}
		bad := VOp{K: "badbatch", DS: "A", Ents: []VEnt{{"e4", pi("v1")}}}
		var ctxBases []map[string]interface{}
		// one identifier the hub has never seen, in both datasets of one transaction
		sameNew := VOp{K: "txn", Parts: map[string][]VEnt{"A": {{"e4", pi("v1")}}, "B": {{"e4", pi("v2")}}}}
		sameNewCtx := VOp{K: "txn", Via: "ctx0", Parts: map[string][]VEnt{"A": {{"e4", pi("v1")}}, "B": {{"e4", pi("v2")}}}}
		for _, h := range [][]VOp{{ctxTxn}, {bad, ctxTxn}, {ctxTxn, alpha[0]}, {bad, ctxTxn, alpha[1]}, {alpha[2], ctxTxn}, {sameNew}, {sameNewCtx, alpha[0]}} {
			ctxBases = append(ctxBases, vToMap(CrashSpec{Datasets: vDS, IDs: vIDs, Pre: pre, Hist: h, Kind: "store"}))
		}
		engine.RunCrash(r, "c04-contextual-store", []string{"worker", "crash-store"}, ctxBases, 0)
		// a batch whose identifiers were assigned by an earlier, refused batch (it assigns none itself)
		retry := VOp{K: "batch", DS: "A", Ents: []VEnt{{"e4", pi("v1")}}}
		var retryBases []map[string]interface{}
		for _, h := range [][]VOp{{bad, retry}, {bad, retry, alpha[0]}, {bad, alpha[3], retry}} {
			retryBases = append(retryBases, vToMap(CrashSpec{Datasets: vDS, IDs: vIDs, Pre: pre, Hist: h, Kind: "store"}))
		}
		engine.RunCrash(r, "c04-retry-after-refusal", []string{"worker", "crash-store"}, retryBases, 0)
		// dataset management between writes: rename, delete, create (each is several commits); judged by the inspector
		// of C07's crash part: the in-flight operation is observably either not done or done, everything written and
		// acknowledged before is still there under the name the dataset has
		ren := VOp{K: "rename", DS: "A", To: "C"}
		var dsmBases []map[string]interface{}
		for _, h := range [][]VOp{{ren}, {alpha[0], ren}, {ren, {K: "batch", DS: "C", Ents: []VEnt{{"e2", pi("v1")}}}}, {{K: "delete", DS: "B"}, alpha[0]}, {{K: "create", DS: "C"}, {K: "batch", DS: "C", Ents: []VEnt{{"e1", pi("v2")}}}}} {
			dsmBases = append(dsmBases, vToMap(CrashSpec{Datasets: vDS, IDs: vIDs, Pre: pre, Hist: h, Kind: "dsm", Prop: "C04"}))
		}
		engine.RunCrash(r, "c04-dataset-management", []string{"worker", "crash-dsm"}, dsmBases, 0)
		// large batches (more entities than any plausible internal chunk size of a thousand): still one atomic unit
		big := VOp{K: "batch", DS: "A", Ents: []VEnt{{"e1", pi("v2")}}, N: 1100}
		var bigBases []map[string]interface{}
		for _, h := range [][]VOp{{big}, {alpha[0], big}, {big, alpha[1]}} {
			bigBases = append(bigBases, vToMap(CrashSpec{Datasets: vDS, IDs: vIDs, Pre: pre, Hist: h, Kind: "store"}))
		}
		engine.RunCrash(r, "c04-large-batch", []string{"worker", "crash-store"}, bigBases, 0)
		// one batch beyond the 16-bit boundary of the in-batch sequence number (65 536): still one atomic unit
		huge := VOp{K: "batch", DS: "A", Ents: []VEnt{{"e1", pi("v2")}}, N: 65600}
		engine.RunCrash(r, "c04-huge-batch", []string{"worker", "crash-huge"},
			[]map[string]interface{}{vToMap(CrashSpec{Datasets: vDS, IDs: vIDs, Pre: pre, Hist: []VOp{huge}, Kind: "store"})}, 0)
		// "every acknowledged batch / transaction is fully present" also has to hold for writers that overlap in time:
		// two of the C05 scenarios, judged by the same final-state oracle (all indexes and read APIs agree with some
		// order of the acknowledged operations)
		for _, sc := range c05Scenarios() {
			if sc.Name == "S12-rejected-batch-vs-writers-of-new-ids" || sc.Name == "S15-txn-waiting-for-a-lock-vs-batch-on-the-same-entity" {
				sc.Name = "C04-" + sc.Name
				engine.RunSched(r, engine.SchedSpec{Name: sc.Name, WorkerArgs: []string{"worker", "sched-store"}, Scenario: sc, Bound: 2, Horizon: 1500, BudgetS: 60})
			}
		}
	})
}
