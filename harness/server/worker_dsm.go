package server

import (
	"encoding/binary"
	"encoding/json"
	"fmt"
	"sort"
	"strings"
	"time"

	"github.com/dgraph-io/badger/v4"

	"github.com/mimiro-io/datahub/internal/verifrt/engine"
	"github.com/mimiro-io/datahub/internal/verifrt/model"
)

// DsmParams configures the dataset-management SEQ worker (C07, C19).
type DsmParams struct {
	Obs   []string `json:"obs"`   // c07 c19
	Names []string `json:"names"` // dataset names that may be created (S is created up front)
	IDs   []string `json:"ids"`
	Fresh bool     `json:"fresh"` // use a fresh store for this history (needed when GC/restart state must not leak)
}

// dsmState is the harness bookkeeping for one replayed history.
type dsmState struct {
	incIDs   map[int]uint32 // model incarnation -> internal dataset id
	deadIDs  []uint32
	maxDsID  uint32
	instants []struct {
		t      int64
		commit int
	}
	// handles a client may still hold: the Dataset object of a dataset that was deleted meanwhile, and the
	// continuation of a paged relationship query whose scope was resolved before the delete
	held     map[string]*Dataset
	stale    map[string]*Dataset
	cont     []*RelatedFrom
	contDS   string
	contSeen int
	contInc  int // model incarnation the query was scoped to
}

// countKeysForDataset counts raw keys of the five per-dataset families that carry the internal dataset id.
func (h *VHist) countKeysForDataset(id uint32, rids []uint64) int {
	n := 0
	_ = h.W.Store.database.View(func(txn *badger.Txn) error {
		count := func(prefix []byte, match func(k []byte) bool) {
			opts := badger.DefaultIteratorOptions
			opts.PrefetchValues = false
			opts.Prefix = prefix
			it := txn.NewIterator(opts)
			defer it.Close()
			for it.Seek(prefix); it.ValidForPrefix(prefix); it.Next() {
				if match(it.Item().Key()) {
					n++
				}
			}
		}
		for _, idx := range []uint16{DatasetEntityChangeLog, DatasetLatestEntities} {
			p := make([]byte, 6)
			binary.BigEndian.PutUint16(p, idx)
			binary.BigEndian.PutUint32(p[2:], id)
			count(p, func([]byte) bool { return true })
		}
		for _, rid := range rids {
			p := make([]byte, 10)
			binary.BigEndian.PutUint16(p, EntityIDToJSONIndexID)
			binary.BigEndian.PutUint64(p[2:], rid)
			count(p, func(k []byte) bool { return binary.BigEndian.Uint32(k[10:]) == id })
			for _, idx := range []uint16{OutgoingRefIndex, IncomingRefIndex} {
				p := make([]byte, 10)
				binary.BigEndian.PutUint16(p, idx)
				binary.BigEndian.PutUint64(p[2:], rid)
				count(p, func(k []byte) bool { return binary.BigEndian.Uint32(k[36:]) == id })
			}
		}
		return nil
	})
	return n
}

func (h *VHist) ridsOf(ids []string) []uint64 {
	var out []uint64
	txn := h.W.Store.database.NewTransaction(false)
	defer txn.Discard()
	for _, id := range ids {
		if rid, ok, _ := h.W.Store.getIDForURI(txn, h.Curie(id)); ok {
			out = append(out, rid)
		}
	}
	return out
}

// checkDsm is the C07 oracle on the current state.
func (c *VCheck) checkDsm(p DsmParams, st *dsmState, allNames []string) {
	h := c.H
	// dataset list
	live := map[string]bool{}
	for _, n := range h.W.Dsm.GetDatasetNames() {
		if strings.HasSuffix(n.Name, "."+h.Tag) {
			live[h.AbsDs(n.Name)] = true
		}
	}
	c.Checks++
	for _, n := range allNames {
		_, inModel := h.M.Datasets[n]
		if live[n] != inModel {
			c.fail("C07:list:"+n, fmt.Sprintf("dataset %s listed=%v, model says exists=%v", n, live[n], inModel), nil)
		}
		if ds := h.W.Dsm.GetDataset(h.DsName(n)); (ds != nil) != inModel {
			c.fail("C07:get:"+n, fmt.Sprintf("dataset %s resolvable=%v, model says exists=%v", n, ds != nil, inModel), nil)
		}
	}
	// content of live datasets, unscoped answers, relationship queries: model only knows live incarnations
	c.CheckLatest(p.IDs)
	c.CheckFeed()
	var liveNames []string
	for _, d := range h.M.LiveInOrder() {
		liveNames = append(liveNames, d.Name)
	}
	scopes := [][]string{nil}
	for _, n := range liveNames {
		scopes = append(scopes, []string{n})
	}
	c.CheckRelations(p.IDs, scopes)
	// the same lookups through the contextual store a javascript transform holds (created when the history began, or
	// after the last restart): what it answers must be what the store answers
	if h.Ctx0 != nil && h.Ctx0.database == h.W.Store.database {
		for _, id := range p.IDs {
			c.Checks++
			a, err1 := h.W.Store.GetEntity(h.URI(id), nil, true)
			b, err2 := h.Ctx0.GetEntity(h.URI(id), nil, true)
			if err1 != nil || err2 != nil || (a == nil) != (b == nil) {
				if (err1 == nil) != (err2 == nil) || (a == nil) != (b == nil) {
					c.fail("C07:contextual-store-differs:"+id, fmt.Sprintf("unscoped lookup of %s: the store answers (%v, %v), a contextual store created earlier (%v, %v)", id, a != nil, err1, b != nil, err2), nil)
				}
				continue
			}
			if a != nil && !contentEq(h.AbsContent(a), h.AbsContent(b)) {
				c.fail("C07:contextual-store-differs:"+id, fmt.Sprintf("unscoped lookup of %s: the store answers %s, a contextual store created before the last delete answers %s (a javascript transform keeps such a store for the life of its job)", id, h.AbsContent(a), h.AbsContent(b)), nil)
			}
		}
	}
	// point-in-time lookups must not resurrect deleted datasets either
	for _, in := range st.instants {
		for _, id := range p.IDs {
			c.Checks++
			txn := h.W.Store.database.NewTransaction(false)
			rid, exists, _ := h.W.Store.getIDForURI(txn, h.Curie(id))
			txn.Discard()
			if !exists {
				continue
			}
			e, err := h.W.Store.GetEntityAtPointInTimeWithInternalID(rid, in.t, nil, true)
			if err != nil || e == nil {
				continue
			}
			want, parts, anyDel := h.M.Merged(id, nil, in.commit)
			if parts == 0 {
				want = model.Content{Props: map[string]interface{}{}, Refs: map[string]interface{}{}, Deleted: anyDel}
			}
			if got := h.AbsContent(e); !got.Equal(want) {
				c.fail("C07:pit:"+id, fmt.Sprintf("unscoped lookup of %s as of commit %d returns %s; the live datasets give %s", id, in.commit, got, want), nil)
			}
		}
	}
	// incarnation ids are never reused
	for _, d := range h.M.LiveInOrder() {
		ds := h.W.Dsm.GetDataset(h.DsName(d.Name))
		if ds == nil {
			continue
		}
		if old, ok := st.incIDs[d.Inc]; ok {
			if old != ds.InternalID {
				c.fail("C07:incarnation-id-changed:"+d.Name, fmt.Sprintf("dataset %s changed its internal id %d -> %d", d.Name, old, ds.InternalID), nil)
			}
			continue
		}
		for _, dead := range st.deadIDs {
			if dead == ds.InternalID {
				c.fail("C07:incarnation-id-reused:"+d.Name, fmt.Sprintf("new dataset %s reuses internal id %d of a deleted dataset", d.Name, ds.InternalID), nil)
			}
		}
		if ds.InternalID <= st.maxDsID {
			c.fail("C07:incarnation-id-not-fresh:"+d.Name, fmt.Sprintf("new dataset %s got internal id %d, not above the highest id %d handed out before", d.Name, ds.InternalID, st.maxDsID), nil)
		}
		st.incIDs[d.Inc] = ds.InternalID
		if ds.InternalID > st.maxDsID {
			st.maxDsID = ds.InternalID
		}
	}
}

// VReplayDsm replays a dataset-management history (C07).
func VReplayDsm(task engine.SeqTask) (res engine.SeqResult) {
	var p DsmParams
	_ = json.Unmarshal(task.Params, &p)
	defer func() {
		if r := recover(); r != nil {
			res.Viol = append(res.Viol, engine.Violation{Key: "panic|" + fmt.Sprint(r), What: fmt.Sprintf("panic while replaying history: %v", r)})
			vWorkerWorld = nil
		}
	}()
	w := vWorld()
	h := w.NewHist()
	allNames := append([]string{"S"}, p.Names...)
	for _, n := range p.Names {
		if n == "A2" {
			continue
		}
	}
	if err := h.EnsureDatasets("S"); err != nil {
		res.HarnessEr = err.Error()
		return
	}
	st := &dsmState{incIDs: map[int]uint32{}, held: map[string]*Dataset{}, stale: map[string]*Dataset{}}
	chk := &VCheck{H: h, SkipKnownC03: true}
	// preload the survivor with data sharing ids and references
	pool := model.Pool(0)
	pre := []VOp{{K: "batch", DS: "S", Ents: []VEnt{{"e1", model.PoolIndex(pool, "v1r2")}, {"e2", model.PoolIndex(pool, "r1")}}}}
	for _, op := range pre {
		t, err := h.applyWriteT(op)
		if err != nil {
			res.HarnessEr = err.Error()
			return
		}
		st.instants = append(st.instants, struct {
			t      int64
			commit int
		}{t, h.M.CommitIndex()})
	}
	chk.checkDsm(p, st, allNames) // registers S's internal id
	chk.Viol = nil
	refused := false // the last operation was a rename the manager had to refuse
	for i, raw := range task.Hist {
		refused = false
		var op VOp
		if err := json.Unmarshal(raw, &op); err != nil {
			res.HarnessEr = err.Error()
			return
		}
		last := i == len(task.Hist)-1
		if last {
			chk.Last = op.String()
		}
		_, exists := h.M.Datasets[op.DS]
		switch op.K {
		case "batch", "txn":
			applicable := true
			if op.K == "batch" && !exists {
				applicable = false
			}
			for n := range op.Parts {
				if _, ok := h.M.Datasets[n]; !ok {
					applicable = false
				}
			}
			if !applicable {
				res.Skip = true
				res.Key = "skip"
				return
			}
			t, err := h.applyWriteT(op)
			if err != nil {
				chk.fail("C07:write-rejected", "valid write rejected: "+err.Error(), nil)
			} else {
				st.instants = append(st.instants, struct {
					t      int64
					commit int
				}{t, h.M.CommitIndex()})
			}
		case "create":
			if exists {
				res.Skip, res.Key = true, "skip"
				return
			}
			if ds, err := w.Dsm.CreateDataset(h.DsName(op.DS), vDsVariant(op.N)); err != nil {
				chk.fail("C07:create-rejected", "create rejected: "+err.Error(), nil)
			} else {
				h.M.Create(op.DS)
				st.held[op.DS] = ds
			}
		case "delete":
			if !exists {
				res.Skip, res.Key = true, "skip"
				return
			}
			if ds := w.Dsm.GetDataset(h.DsName(op.DS)); ds != nil {
				st.deadIDs = append(st.deadIDs, ds.InternalID)
			}
			if err := w.Dsm.DeleteDataset(h.DsName(op.DS)); err != nil {
				chk.fail("C07:delete-rejected", "delete rejected: "+err.Error(), nil)
			} else {
				h.M.Delete(op.DS)
				if st.held[op.DS] != nil {
					st.stale[op.DS] = st.held[op.DS]
					delete(st.held, op.DS)
				}
			}
		case "rename":
			_, toExists := h.M.Datasets[op.To]
			if !exists {
				res.Skip, res.Key = true, "skip"
				return
			}
			if toExists {
				// a rename onto a name that is taken has to be refused and to change nothing
				if _, err := w.Dsm.UpdateDataset(h.DsName(op.DS), &UpdateDatasetConfig{ID: h.DsName(op.To)}); err == nil {
					chk.fail("C07:rename-onto-existing-accepted", fmt.Sprintf("renaming %s to the existing name %s was accepted", op.DS, op.To), nil)
				}
				refused = true
				break
			}
			if _, err := w.Dsm.UpdateDataset(h.DsName(op.DS), &UpdateDatasetConfig{ID: h.DsName(op.To)}); err != nil {
				chk.fail("C07:rename-rejected", "rename rejected: "+err.Error(), nil)
			} else {
				h.M.Rename(op.DS, op.To)
			}
		case "gc":
			before := h.CanonOpt(append(append([]string{}, p.IDs...), "e4"), vLiveNames(h), "", true)
			if err := NewGarbageCollector(w.Store, w.Env).Cleandeleted(); err != nil {
				chk.fail("C07:gc-error", "garbage collection failed: "+err.Error(), nil)
			}
			after := h.CanonOpt(append(append([]string{}, p.IDs...), "e4"), vLiveNames(h), "", true)
			if last {
				chk.Checks++
				if before != after {
					chk.fail("C07:gc-touched-survivors", "garbage collection changed raw keys of datasets that were not deleted", nil)
				}
				rids := h.ridsOf(append(append([]string{}, p.IDs...), "e4"))
				for _, dead := range st.deadIDs {
					if n := h.countKeysForDataset(dead, rids); n != 0 {
						chk.fail("C07:gc-leftover", fmt.Sprintf("after garbage collection %d raw keys still carry the internal id %d of a deleted dataset", n, dead), nil)
					}
				}
			}
		case "restart":
			w.Restart()
			// handles do not survive the process
			st.held, st.stale, st.cont = map[string]*Dataset{}, map[string]*Dataset{}, nil
		case "stalebatch":
			// a writer that obtained the Dataset object before the dataset was deleted stores through it afterwards:
			// whatever the call answers, nothing of it may become visible (the model does not change)
			ds := st.stale[op.DS]
			if ds == nil {
				res.Skip, res.Key = true, "skip"
				return
			}
			es, _ := h.ents(op.Ents)
			_ = ds.StoreEntities(es)
		case "qstart":
			// first page (limit 1) of an outgoing relationship query on e1 scoped to the dataset; the client keeps the token
			if !exists {
				res.Skip, res.Key = true, "skip"
				return
			}
			from, err := w.Store.ToRelatedFrom([]string{h.URI("e1")}, "*", false, []string{h.DsName(op.DS)}, time.Now().UnixNano())
			if err != nil {
				res.Skip, res.Key = true, "skip"
				return
			}
			r1, err := w.Store.GetManyRelatedEntitiesAtTime(from, 1, true)
			if err != nil || len(r1.Cont) == 0 {
				res.Skip, res.Key = true, "skip" // nothing to continue
				return
			}
			st.cont, st.contDS, st.contSeen = r1.Cont, op.DS, len(r1.Relations)
			st.contInc = h.M.Datasets[op.DS].Inc
		case "qcont":
			if st.cont == nil {
				res.Skip, res.Key = true, "skip"
				return
			}
			r2, err := w.Store.GetManyRelatedEntitiesAtTime(st.cont, 1, true)
			live := false
			for _, d := range h.M.LiveInOrder() {
				if d.Inc == st.contInc {
					live = true // possibly under a new name
				}
			}
			if last && err == nil {
				chk.Checks++
				if !live {
					if len(r2.Relations) > 0 {
						_, l := h.relSet(r2.Relations)
						chk.fail("C07:continued-query-returns-deleted-data:"+st.contDS, fmt.Sprintf("a paged relationship query scoped to %s was continued after %s was deleted and returned %v", st.contDS, st.contDS, l), nil)
					}
				}
			}
			if err == nil && len(r2.Cont) > 0 {
				st.cont = r2.Cont
				st.contSeen += len(r2.Relations)
			} else {
				st.cont = nil
			}
		default:
			res.HarnessEr = "unknown op " + op.K
			return
		}
		if !last {
			// keep the incarnation-id bookkeeping current on the way
			save := chk.Viol
			for _, d := range h.M.LiveInOrder() {
				if ds := w.Dsm.GetDataset(h.DsName(d.Name)); ds != nil {
					if _, ok := st.incIDs[d.Inc]; !ok {
						st.incIDs[d.Inc] = ds.InternalID
						if ds.InternalID > st.maxDsID {
							st.maxDsID = ds.InternalID
						}
					}
				}
			}
			chk.Viol = save
		}
	}
	chk.checkDsm(p, st, allNames)
	var deadKeys []string
	rids := h.ridsOf(append(append([]string{}, p.IDs...), "e4"))
	for _, d := range st.deadIDs {
		deadKeys = append(deadKeys, fmt.Sprint(h.countKeysForDataset(d, rids) > 0))
	}
	var liveDesc []string
	for _, d := range h.M.LiveInOrder() {
		liveDesc = append(liveDesc, d.Name)
	}
	sort.Strings(liveDesc)
	var hs []string
	for n := range st.stale {
		hs = append(hs, "stale:"+n)
	}
	sort.Strings(hs)
	if st.cont != nil {
		hs = append(hs, fmt.Sprintf("cont:%s:%d", st.contDS, st.contSeen))
	}
	res.Key = h.Canon(append(append([]string{}, p.IDs...), "e4"), vLiveNames(h), strings.Join(liveDesc, ",")+"|dead:"+strings.Join(deadKeys, ",")+"|"+strings.Join(hs, ",")+"|"+h.CatalogueDigest())
	if refused {
		// a refused rename is meant to change nothing: keep the state behind it apart (what it leaves in memory is not in the key)
		res.Key += "|just-refused"
	}
	// a restart is meant to change nothing: mark the state right behind it, or the search would never go on from there
	if n := len(task.Hist); n > 0 {
		var lo struct {
			K string `json:"k"`
		}
		_ = json.Unmarshal(task.Hist[n-1], &lo)
		if lo.K == "restart" {
			res.Key += "|just-restarted"
		}
	}

	res.Viol = chk.Viol
	res.Checks = chk.Checks
	res.Outcome = res.Key[:8]
	return
}

func vLiveNames(h *VHist) []string {
	var out []string
	for _, d := range h.M.LiveInOrder() {
		out = append(out, d.Name)
	}
	return out
}

func init() {
	engine.RegisterWorker("dsm", func(args []string) {
		defer func() {
			if vWorkerWorld != nil {
				vWorkerWorld.Destroy()
			}
		}()
		engine.ServeWorker(func(task []byte) interface{} {
			var t engine.SeqTask
			if err := json.Unmarshal(task, &t); err != nil {
				return engine.SeqResult{HarnessEr: err.Error()}
			}
			return VReplayDsm(t)
		})
	})
}

// ---------------------------------------------------------------- C19: catalogue agreement

type dsVariant struct {
	PublicNamespaces []string
	Proxy            *ProxyDatasetConfig
}

func vDsVariant(n int) *CreateDatasetConfig {
	switch n {
	case 1:
		return &CreateDatasetConfig{PublicNamespaces: []string{"http://data.mimiro.io/core/dataset/", VNamespace}}
	case 2:
		return &CreateDatasetConfig{ProxyDatasetConfig: &ProxyDatasetConfig{RemoteURL: "http://remote.example/datasets/x", AuthProviderName: "prov", TimeoutSeconds: 7}}
	case 3:
		return &CreateDatasetConfig{VirtualDatasetConfig: &VirtualDatasetConfig{Transform: "ZnVuY3Rpb24gYnVpbGRfZW50aXRpZXMoKSB7fQ=="}}
	}
	return nil
}

// checkCatalogue is the C19 oracle: dataset list = live meta-entities = datasets that answer;
// settings carried; items = distinct ids ever stored.
func (c *VCheck) checkCatalogue(allNames []string, variants map[string]int, pubNs map[string][]string) {
	h := c.H
	c.Checks++
	info, err := h.W.Store.NamespaceManager.GetDatasetNamespaceInfo()
	if err != nil {
		c.fail("C19:nsinfo", err.Error(), nil)
		return
	}
	core := h.W.Dsm.GetDataset(datasetCore)
	// live meta-entities of this history
	liveMeta := map[string]*Entity{}
	deadMeta := map[string]bool{}
	_, err = core.MapEntities("", -1, func(e *Entity) error {
		local := e.ID[strings.Index(e.ID, ":")+1:]
		if !strings.HasSuffix(local, "."+h.Tag) {
			return nil
		}
		n := h.AbsDs(local)
		if e.IsDeleted {
			deadMeta[n] = true
		} else {
			if _, dup := liveMeta[n]; dup {
				c.fail("C19:meta-twice:"+n, "two live meta-entities for dataset "+n, nil)
			}
			liveMeta[n] = e
		}
		return nil
	})
	if err != nil {
		c.fail("C19:core-list", err.Error(), nil)
		return
	}
	listed := map[string]bool{}
	for _, n := range h.W.Dsm.GetDatasetNames() {
		if strings.HasSuffix(n.Name, "."+h.Tag) {
			listed[h.AbsDs(n.Name)] = true
		}
	}
	for _, n := range allNames {
		md, exists := h.M.Datasets[n]
		if listed[n] != exists {
			c.fail("C19:list:"+n, fmt.Sprintf("dataset %s listed=%v but exists=%v", n, listed[n], exists), nil)
		}
		meta, hasMeta := liveMeta[n]
		if exists != hasMeta {
			c.fail("C19:meta-live:"+n, fmt.Sprintf("dataset %s exists=%v but has a live meta-entity in core.Dataset=%v (deleted meta-entity present=%v)", n, exists, hasMeta, deadMeta[n]), nil)
			continue
		}
		if !exists {
			continue
		}
		ds := h.W.Dsm.GetDataset(h.DsName(n))
		if ds == nil {
			continue
		}
		if name, _ := meta.Properties[info.NameKey].(string); name != h.DsName(n) {
			c.fail("C19:meta-name:"+n, fmt.Sprintf("meta-entity of %s carries name %q", n, name), nil)
		}
		// items
		items := int64(-1)
		switch v := meta.Properties[info.ItemsKey].(type) {
		case float64:
			items = int64(v)
		case int64:
			items = v
		case int:
			items = int64(v)
		}
		if items != int64(md.DistinctIDs()) {
			c.fail("C19:items:"+n, fmt.Sprintf("meta-entity of %s says items=%d, %d distinct ids were stored in it", n, items, md.DistinctIDs()), nil)
		}
		// settings
		wantNs := pubNs[n]
		gotNs := []string{}
		if l, ok := meta.Properties[info.PublicNamespacesKey].([]interface{}); ok {
			for _, x := range l {
				gotNs = append(gotNs, fmt.Sprint(x))
			}
		}
		if strings.Join(gotNs, ",") != strings.Join(wantNs, ",") {
			c.fail("C19:meta-publicNamespaces:"+n, fmt.Sprintf("meta-entity of %s has publicNamespaces %v, want %v", n, gotNs, wantNs), nil)
		}
		if strings.Join(ds.PublicNamespaces, ",") != strings.Join(wantNs, ",") {
			c.fail("C19:dataset-publicNamespaces:"+n, fmt.Sprintf("dataset %s has publicNamespaces %v, want %v", n, ds.PublicNamespaces, wantNs), nil)
		}
		if variants[n] == 2 {
			if u, _ := meta.Properties[info.DatasetPrefix+":remoteUrl"].(string); u != "http://remote.example/datasets/x" || ds.ProxyConfig == nil || ds.ProxyConfig.RemoteURL != u {
				c.fail("C19:meta-proxy:"+n, fmt.Sprintf("proxy settings of %s not carried (meta remoteUrl=%q, dataset proxy config=%v)", n, u, ds.ProxyConfig), nil)
			}
		} else if ds.ProxyConfig != nil && ds.ProxyConfig.RemoteURL != "" {
			c.fail("C19:meta-proxy-phantom:"+n, "dataset "+n+" has a proxy config it was not created with", nil)
		}
		// details API agrees
		det, found, err := h.W.Dsm.GetDatasetDetails(h.DsName(n))
		if err != nil || !found || det.ID != meta.ID {
			c.fail("C19:details:"+n, fmt.Sprintf("GetDatasetDetails(%s) found=%v err=%v", n, found, err), nil)
		}
	}
	// core.Dataset is itself an existing dataset with a meta-entity
	if meta, err := h.W.Store.GetEntity(info.DatasetPrefix+":"+datasetCore, []string{datasetCore}, true); err == nil && meta != nil && !meta.IsDeleted {
		n := 0
		_, _ = core.MapEntitiesRaw("", -1, func([]byte) error { n++; return nil })
		items := int64(-1)
		if v, ok := meta.Properties[info.ItemsKey].(float64); ok {
			items = int64(v)
		}
		if items != int64(n) {
			c.fail("C19:items-of-core.Dataset", fmt.Sprintf("the meta-entity of core.Dataset says items=%d, core.Dataset holds %d distinct ids", items, n), nil)
		}
	} else {
		c.fail("C19:meta-of-core.Dataset", "core.Dataset has no live meta-entity", nil)
	}
	for n := range liveMeta {
		known := false
		for _, k := range allNames {
			if k == n {
				known = true
			}
		}
		if !known {
			c.fail("C19:meta-unknown:"+n, "live meta-entity for a dataset name that was never created: "+n, nil)
		}
	}
}

// VReplayCat replays a catalogue history (C19).
func VReplayCat(task engine.SeqTask) (res engine.SeqResult) {
	defer func() {
		if r := recover(); r != nil {
			res.Viol = append(res.Viol, engine.Violation{Key: "panic|" + fmt.Sprint(r), What: fmt.Sprintf("panic while replaying history: %v", r)})
			vWorkerWorld = nil
		}
	}()
	vWorldMaxHists = 150
	w := vWorld()
	h := w.NewHist()
	allNames := []string{"A", "B", "C"}
	variants := map[string]int{}
	pubNs := map[string][]string{}
	chk := &VCheck{H: h}
	var keyParts []string
	refusedCat := false
	for i, raw := range task.Hist {
		refusedCat = false
		var op VOp
		_ = json.Unmarshal(raw, &op)
		last := i == len(task.Hist)-1
		if last {
			chk.Last = op.String()
		}
		_, exists := h.M.Datasets[op.DS]
		switch op.K {
		case "create":
			if exists {
				res.Skip, res.Key = true, "skip"
				return
			}
			cfg := vDsVariant(op.N)
			if _, err := w.Dsm.CreateDataset(h.DsName(op.DS), cfg); err != nil {
				chk.fail("C19:create-rejected", err.Error(), nil)
			}
			h.M.Create(op.DS)
			variants[op.DS] = op.N
			pubNs[op.DS] = nil
			if cfg != nil {
				pubNs[op.DS] = cfg.PublicNamespaces
			}
		case "delete":
			if !exists {
				res.Skip, res.Key = true, "skip"
				return
			}
			if err := w.Dsm.DeleteDataset(h.DsName(op.DS)); err != nil {
				chk.fail("C19:delete-rejected", err.Error(), nil)
			}
			h.M.Delete(op.DS)
		case "rename":
			_, toExists := h.M.Datasets[op.To]
			if !exists {
				res.Skip, res.Key = true, "skip"
				return
			}
			if toExists {
				// a rename onto a name that is taken has to be refused and to change nothing
				if _, err := w.Dsm.UpdateDataset(h.DsName(op.DS), &UpdateDatasetConfig{ID: h.DsName(op.To)}); err == nil {
					chk.fail("C19:rename-onto-existing-accepted", fmt.Sprintf("renaming %s to the existing name %s was accepted", op.DS, op.To), nil)
				}
				refusedCat = true
				break
			}
			if _, err := w.Dsm.UpdateDataset(h.DsName(op.DS), &UpdateDatasetConfig{ID: h.DsName(op.To)}); err != nil {
				chk.fail("C19:rename-rejected", err.Error(), nil)
			}
			h.M.Rename(op.DS, op.To)
			variants[op.To], pubNs[op.To] = variants[op.DS], pubNs[op.DS]
		case "batch", "txn":
			ok := true
			if op.K == "batch" && !exists {
				ok = false
			}
			for n := range op.Parts {
				if _, e := h.M.Datasets[n]; !e {
					ok = false
				}
			}
			if !ok {
				res.Skip, res.Key = true, "skip"
				return
			}
			if _, err := h.applyWriteT(op); err != nil {
				chk.fail("C19:write-rejected", err.Error(), nil)
			}
		case "setns": // write the meta-entity with new public namespaces into core.Dataset (the documented way to change them)
			if !exists {
				res.Skip, res.Key = true, "skip"
				return
			}
			info, _ := w.Store.NamespaceManager.GetDatasetNamespaceInfo()
			meta, err := w.Store.GetEntity(info.DatasetPrefix+":"+h.DsName(op.DS), []string{datasetCore}, true)
			if err != nil || meta == nil {
				chk.fail("C19:setns-nometa", fmt.Sprintf("meta-entity of %s not found: %v", op.DS, err), nil)
				break
			}
			ns := []string{"http://pub" + fmt.Sprint(op.N) + ".example/"}
			meta.Properties[info.PublicNamespacesKey] = ns
			if err := w.Dsm.GetDataset(datasetCore).StoreEntities([]*Entity{meta}); err != nil {
				chk.fail("C19:setns-rejected", err.Error(), nil)
			}
			pubNs[op.DS] = ns
		case "copymeta":
			// somebody keeps a copy of the catalogue: the meta-entity of op.DS is stored (same id) in dataset op.To
			_, toExists := h.M.Datasets[op.To]
			if !exists || !toExists {
				res.Skip, res.Key = true, "skip"
				return
			}
			info, _ := w.Store.NamespaceManager.GetDatasetNamespaceInfo()
			meta, err := w.Store.GetEntity(info.DatasetPrefix+":"+h.DsName(op.DS), []string{datasetCore}, true)
			if err != nil || meta == nil {
				chk.fail("C19:setns-nometa", fmt.Sprintf("meta-entity of %s not found: %v", op.DS, err), nil)
				break
			}
			cp := NewEntity(meta.ID, 0)
			for k, v := range meta.Properties {
				cp.Properties[k] = v
			}
			if err := w.Dsm.GetDataset(h.DsName(op.To)).StoreEntities([]*Entity{cp}); err != nil {
				chk.fail("C19:write-rejected", err.Error(), nil)
			}
			// (the copy counts as one distinct id stored in op.To)
			h.M.Datasets[op.To].NoteForeignID(meta.ID)
		case "setns2":
			// one batch into core.Dataset carrying two meta-entities: the one of op.To as it is, then the one of op.DS with
			// new public namespaces (a client that posts the whole catalogue back with one entry edited)
			_, toExists := h.M.Datasets[op.To]
			if !exists || !toExists {
				res.Skip, res.Key = true, "skip"
				return
			}
			info, _ := w.Store.NamespaceManager.GetDatasetNamespaceInfo()
			first, err1 := w.Store.GetEntity(info.DatasetPrefix+":"+h.DsName(op.To), []string{datasetCore}, true)
			meta, err2 := w.Store.GetEntity(info.DatasetPrefix+":"+h.DsName(op.DS), []string{datasetCore}, true)
			if err1 != nil || err2 != nil || first == nil || meta == nil {
				chk.fail("C19:setns-nometa", fmt.Sprintf("meta-entities not found: %v %v", err1, err2), nil)
				break
			}
			ns := []string{"http://pub" + fmt.Sprint(op.N) + ".example/"}
			meta.Properties[info.PublicNamespacesKey] = ns
			if err := w.Dsm.GetDataset(datasetCore).StoreEntities([]*Entity{first, meta}); err != nil {
				chk.fail("C19:setns-rejected", err.Error(), nil)
			}
			pubNs[op.DS] = ns
		case "restart":
			w.Restart()
		}
		keyParts = append(keyParts, "")
	}
	chk.checkCatalogue(allNames, variants, pubNs)
	// canonical key: per live dataset: variant, public namespaces, canon of its content
	var parts []string
	for _, d := range h.M.LiveInOrder() {
		parts = append(parts, fmt.Sprintf("%s:v%d:%v:%d", d.Name, variants[d.Name], pubNs[d.Name], d.DistinctIDs()))
	}
	sort.Strings(parts)
	dead := 0
	for _, d := range h.M.Dead {
		dead += len(d.Name) * 0
		dead++
	}
	res.Key = h.Canon(append(append([]string{}, vIDs...), "e4"), vLiveNames(h), strings.Join(parts, ";")+fmt.Sprintf("|dead%d", dead)+"|"+h.CatalogueDigest())
	// a restart is meant to change nothing: mark the state right behind it, or the search would never go on from there
	if n := len(task.Hist); n > 0 {
		var lo struct {
			K string `json:"k"`
		}
		_ = json.Unmarshal(task.Hist[n-1], &lo)
		if lo.K == "restart" {
			res.Key += "|just-restarted"
		}
	}

	if refusedCat {
		res.Key += "|just-refused"
	}
	res.Viol = chk.Viol
	res.Checks = chk.Checks
	res.Outcome = res.Key[:8]
	return
}

// vGCLarge: a deleted dataset with more keys than one collection batch of the garbage collector (10000): n entities
// with one reference each are written to A, A is deleted, one GC run, then no raw key may carry A's internal id and
// the survivor B is untouched.
func vGCLarge(n int) (res engine.SeqResult) {
	defer func() {
		if r := recover(); r != nil {
			res.Viol = append(res.Viol, engine.Violation{Key: "panic|" + fmt.Sprint(r), What: fmt.Sprintf("panic in the large garbage collection: %v", r)})
		}
	}()
	w := VOpenWorld(VNewScratchDir("gclarge"))
	defer w.Destroy()
	h := w.NewHist()
	chk := &VCheck{H: h, Last: fmt.Sprintf("delete of a dataset with %d entities ; gc", n)}
	if err := h.EnsureDatasets("A", "B"); err != nil {
		res.HarnessEr = err.Error()
		return
	}
	pool := model.Pool(0)
	r1 := model.PoolIndex(pool, "r1")
	var ids []string
	for i := 0; i < n; i += 1000 {
		var ents []VEnt
		for j := i; j < i+1000 && j < n; j++ {
			id := fmt.Sprintf("g%d", j+1)
			ids = append(ids, id)
			ents = append(ents, VEnt{ID: id, C: r1})
		}
		if err := h.ApplyWrite(VOp{K: "batch", DS: "A", Ents: ents}); err != nil {
			res.HarnessEr = "write: " + err.Error()
			return
		}
	}
	if err := h.ApplyWrite(VOp{K: "batch", DS: "B", Ents: []VEnt{{"e1", r1}, {"g1", model.PoolIndex(pool, "v1")}}}); err != nil {
		res.HarnessEr = "write: " + err.Error()
		return
	}
	dead := w.Dsm.GetDataset(h.DsName("A")).InternalID
	if err := w.Dsm.DeleteDataset(h.DsName("A")); err != nil {
		chk.fail("C07:delete-rejected", err.Error(), nil)
	}
	h.M.Delete("A")
	surv := append([]string{"e1", "e2", "e3", "e4"}, ids[:3]...)
	before := h.CanonOpt(surv, []string{"B"}, "", true)
	if err := NewGarbageCollector(w.Store, w.Env).Cleandeleted(); err != nil {
		chk.fail("C07:gc-error", "garbage collection failed: "+err.Error(), nil)
	}
	chk.Checks++
	if after := h.CanonOpt(surv, []string{"B"}, "", true); after != before {
		chk.fail("C07:gc-touched-survivors", "garbage collection changed raw keys of datasets that were not deleted", nil)
	}
	rids := h.ridsOf(append(append([]string{}, ids...), "e1", "e2", "e3", "e4"))
	if k := h.countKeysForDataset(dead, rids); k != 0 {
		chk.fail("C07:gc-leftover", fmt.Sprintf("after one garbage collection run %d raw keys still carry the internal id of the deleted dataset (%d entities with one reference each)", k, n), nil)
	}
	res.Viol, res.Checks, res.Key = chk.Viol, chk.Checks, "gclarge"
	return
}

// vCatLarge: a catalogue larger than the listing page sizes used inside the manager (1000): n datasets are created,
// some deleted and re-created, one written to; then the full catalogue comparison.
func vCatLarge(n int) (res engine.SeqResult) {
	defer func() {
		if r := recover(); r != nil {
			res.Viol = append(res.Viol, engine.Violation{Key: "panic|" + fmt.Sprint(r), What: fmt.Sprintf("panic in the large catalogue: %v", r)})
		}
	}()
	w := VOpenWorld(VNewScratchDir("catlarge"))
	defer w.Destroy()
	h := w.NewHist()
	var names []string
	variants := map[string]int{}
	pubNs := map[string][]string{}
	chk := &VCheck{H: h, Last: fmt.Sprintf("%d datasets", n)}
	for i := 0; i < n; i++ {
		name := fmt.Sprintf("L%04d", i)
		names = append(names, name)
		if _, err := w.Dsm.CreateDataset(h.DsName(name), nil); err != nil {
			chk.fail("C19:create-rejected", err.Error(), nil)
			break
		}
		h.M.Create(name)
	}
	// delete and re-create two early ones (their tombstones and new meta-entities come late in core.Dataset's order)
	for _, name := range []string{"L0001", "L0002"} {
		if err := w.Dsm.DeleteDataset(h.DsName(name)); err != nil {
			chk.fail("C19:delete-rejected", err.Error(), nil)
		}
		h.M.Delete(name)
	}
	if _, err := w.Dsm.CreateDataset(h.DsName("L0001"), nil); err != nil {
		chk.fail("C19:create-rejected", err.Error(), nil)
	}
	h.M.Create("L0001")
	last := names[len(names)-1]
	if _, err := h.applyWriteT(VOp{K: "batch", DS: last, Ents: []VEnt{{"e1", 0}, {"e2", 0}}}); err != nil {
		chk.fail("C19:write-rejected", err.Error(), nil)
	}
	chk.checkCatalogue(names, variants, pubNs)
	w.Restart()
	chk.Last += " ; restart"
	chk.checkCatalogue(names, variants, pubNs)
	res.Viol = chk.Viol
	res.Checks = chk.Checks
	res.Key = "large"
	return
}

func init() {
	engine.RegisterWorker("gc-large", func(args []string) {
		engine.ServeWorker(func(task []byte) interface{} {
			var t struct {
				N int `json:"n"`
			}
			_ = json.Unmarshal(task, &t)
			return vGCLarge(t.N)
		})
	})
	engine.RegisterWorker("cat-large", func(args []string) {
		engine.ServeWorker(func(task []byte) interface{} {
			var t struct {
				N int `json:"n"`
			}
			_ = json.Unmarshal(task, &t)
			return vCatLarge(t.N)
		})
	})
	engine.RegisterWorker("cat", func(args []string) {
		defer func() {
			if vWorkerWorld != nil {
				vWorkerWorld.Destroy()
			}
		}()
		engine.ServeWorker(func(task []byte) interface{} {
			var t engine.SeqTask
			if err := json.Unmarshal(task, &t); err != nil {
				return engine.SeqResult{HarnessEr: err.Error()}
			}
			return VReplayCat(t)
		})
	})
	engine.RegisterCheck("C19", func(r *engine.Run) {
		r.Rule = "SEQ: every sequence up to the stated depth over {create (plain / public namespaces / proxy), delete, rename, re-create, batches and transactions with repeated, re-stored and globally-known ids, meta-entity update of public namespaces (alone, and as the second entity of a batch into core.Dataset), restart}; after every history the dataset list, the meta-entities in core.Dataset (exactly one live per existing dataset, only deleted ones for removed names, name and settings carried, items = distinct ids ever stored per the reference model) and GetDatasetDetails are compared; one long history with 1003 (thorough: 2100) datasets, two of them deleted and one re-created, before and after a restart. SCHED: concurrent writers whose counter updates funnel through core.Dataset, final catalogue compared"
		r.Assumptions = []string{"badger transactions are linearizable", "all observation points are quiescent"}
		pool := model.Pool(0)
		pi := func(n string) int { return model.PoolIndex(pool, n) }
		alpha := []VOp{
			{K: "create", DS: "A"}, {K: "create", DS: "A", N: 1}, {K: "create", DS: "B", N: 2}, {K: "create", DS: "B"},
			{K: "delete", DS: "A"}, {K: "delete", DS: "B"}, {K: "rename", DS: "A", To: "B"}, {K: "rename", DS: "B", To: "A"},
			{K: "batch", DS: "A", Ents: []VEnt{{"e1", pi("v1")}}},
			{K: "batch", DS: "A", Ents: []VEnt{{"e1", pi("v2")}, {"e2", pi("r1")}, {"e1", pi("dv1")}}},
			{K: "batch", DS: "B", Ents: []VEnt{{"e1", pi("v1")}, {"e1", pi("v1")}}},
			{K: "txn", Parts: map[string][]VEnt{"A": {{"e2", pi("v1")}, {"e3", pi("v1")}}, "B": {{"e2", pi("v2")}}}},
			{K: "setns", DS: "A", N: 1}, {K: "setns", DS: "B", N: 2}, {K: "setns2", DS: "B", To: "A", N: 3},
			{K: "restart"},
		}
		depth, budget := 5, 400
		if !r.Quick() {
			depth, budget = 7, 2400
		}
		engine.RunSeq(r, engine.SeqSpec{Name: "c19-seq", WorkerArgs: []string{"worker", "cat"}, Alphabet: vOpsJSON(alpha), Depth: depth, Budget: secs(budget)})
		// a copy of a meta-entity kept in another dataset (same id), then the original dataset is renamed / deleted
		{
			ca := []VOp{
				{K: "create", DS: "A"}, {K: "create", DS: "A", N: 1}, {K: "create", DS: "B"},
				{K: "batch", DS: "A", Ents: []VEnt{{"e1", pi("v1")}, {"e2", pi("v1")}}},
				{K: "copymeta", DS: "A", To: "B"},
				{K: "rename", DS: "A", To: "C"}, {K: "delete", DS: "A"},
				{K: "batch", DS: "C", Ents: []VEnt{{"e3", pi("v1")}}},
			}
			cd, cb := 6, 200
			if !r.Quick() {
				cd, cb = 7, 1200
			}
			engine.RunSeq(r, engine.SeqSpec{Name: "c19-catalogue-copy", WorkerArgs: []string{"worker", "cat"}, Alphabet: vOpsJSON(ca), Depth: cd, Budget: secs(cb)})
		}
		// one long history: a catalogue beyond the page size the manager uses internally (1000)
		{
			n := 1003
			if !r.Quick() {
				n = 2100
			}
			pl := &engine.Pool{N: 1, Args: []string{"worker", "cat-large"}, Timeout: 600 * time.Second}
			out := pl.Do([]json.RawMessage{json.RawMessage(fmt.Sprintf(`{"n":%d}`, n))}, nil)
			var lr engine.SeqResult
			if out[0].Err != "" || json.Unmarshal(out[0].Out, &lr) != nil {
				r.Cap("c19-large: worker problem " + out[0].Err)
			} else {
				for _, v := range lr.Viol {
					v.Engine = "ENUM:c19-large"
					v.Replay = map[string]interface{}{"worker": []string{"worker", "cat-large"}, "n": n}
					r.AddViolation(v)
				}
				r.Evaluations += lr.Checks
				r.Traces++
				r.AddPart(map[string]interface{}{"engine": "ENUM", "name": "c19-large-catalogue", "datasets": n, "checks": lr.Checks})
			}
		}
		b := func(ds string, es ...VEnt) VOp { return VOp{K: "batch", DS: ds, Ents: es} }
		e := func(id, c string) VEnt { return VEnt{ID: id, C: pi(c)} }
		scs := []SchedScenario{
			{Name: "K1-writers-to-different-datasets", Datasets: vDS, IDs: vIDs, Oracle: "cat",
				Threads: [][]VOp{{b("A", e("e1", "v1"), e("e2", "v1"))}, {b("B", e("e1", "v2"), e("e3", "v2"))}}},
			{Name: "K2-batch-vs-transaction", Datasets: vDS, IDs: vIDs, Oracle: "cat", Pre: []VOp{b("A", e("e1", "v1"))},
				Threads: [][]VOp{{b("A", e("e2", "v1"))}, {{K: "txn", Parts: map[string][]VEnt{"A": {e("e3", "v1")}, "B": {e("e1", "v2")}}}}}},
			{Name: "K3-batch-vs-rename", Datasets: []string{"A"}, IDs: vIDs, Oracle: "cat", Pre: []VOp{b("A", e("e1", "v1"))}, MapPoints: true,
				Threads: [][]VOp{{b("A", e("e2", "v1"))}, {{K: "rename", DS: "A", To: "B"}}}},
			// a refused batch on B next to a writer of new ids on A, which then stores the same ids once more
			{Name: "K5-refused-batch-vs-writer-then-repost", Datasets: vDS, IDs: []string{"e1", "e2", "e3", "e4"}, Oracle: "cat",
				Threads: [][]VOp{{b("A", e("e1", "v1"), e("e2", "v1")), b("A", e("e1", "v1"), e("e2", "v1"))}, {{K: "badbatch", DS: "B", Ents: []VEnt{e("e4", "v1")}}}}},
			{Name: "K4-three-writers", Datasets: vDS, IDs: vIDs, Oracle: "cat",
				Threads: [][]VOp{{b("A", e("e1", "v1"))}, {b("B", e("e1", "v2"))}, {b("A", e("e2", "v1"))}}},
		}
		for _, sc := range scs {
			bound := 2
			if len(sc.Threads) > 2 {
				bound = 1
			}
			bs := 60
			if !r.Quick() {
				bound++
				bs = 600
			}
			engine.RunSched(r, engine.SchedSpec{Name: sc.Name, WorkerArgs: []string{"worker", "sched-store"}, Scenario: sc, Bound: bound, Horizon: 1500, BudgetS: bs})
		}
	})
}
