package server

import (
	"encoding/binary"
	"encoding/json"
	"fmt"
	"sort"
	"strings"

	"github.com/dgraph-io/badger/v4"

	"github.com/mimiro-io/datahub/internal/verifrt/engine"
	"github.com/mimiro-io/datahub/internal/verifrt/model"
)

// DsmParams configures the dataset-management SEQ worker (C07, C19).
type DsmParams struct {
	Obs   []string `json:"obs"`   // c07 c19
	Names []string `json:"names"` // dataset names that may be created (S is created up front)
	IDs   []string `json:"ids"`
	Fresh bool     `json:"fresh"` // use a fresh store for this history (needed when GC/restart state must not leak)
}

// dsmState is the harness bookkeeping for one replayed history.
type dsmState struct {
	incIDs   map[int]uint32 // model incarnation -> internal dataset id
	deadIDs  []uint32
	maxDsID  uint32
	instants []struct {
		t      int64
		commit int
	}
}

// countKeysForDataset counts raw keys of the five per-dataset families that carry the internal dataset id.
func (h *VHist) countKeysForDataset(id uint32, rids []uint64) int {
	n := 0
	_ = h.W.Store.database.View(func(txn *badger.Txn) error {
		count := func(prefix []byte, match func(k []byte) bool) {
			opts := badger.DefaultIteratorOptions
			opts.PrefetchValues = false
			opts.Prefix = prefix
			it := txn.NewIterator(opts)
			defer it.Close()
			for it.Seek(prefix); it.ValidForPrefix(prefix); it.Next() {
				if match(it.Item().Key()) {
					n++
				}
			}
		}
		for _, idx := range []uint16{DatasetEntityChangeLog, DatasetLatestEntities} {
			p := make([]byte, 6)
			binary.BigEndian.PutUint16(p, idx)
			binary.BigEndian.PutUint32(p[2:], id)
			count(p, func([]byte) bool { return true })
		}
		for _, rid := range rids {
			p := make([]byte, 10)
			binary.BigEndian.PutUint16(p, EntityIDToJSONIndexID)
			binary.BigEndian.PutUint64(p[2:], rid)
			count(p, func(k []byte) bool { return binary.BigEndian.Uint32(k[10:]) == id })
			for _, idx := range []uint16{OutgoingRefIndex, IncomingRefIndex} {
				p := make([]byte, 10)
				binary.BigEndian.PutUint16(p, idx)
				binary.BigEndian.PutUint64(p[2:], rid)
				count(p, func(k []byte) bool { return binary.BigEndian.Uint32(k[36:]) == id })
			}
		}
		return nil
	})
	return n
}

func (h *VHist) ridsOf(ids []string) []uint64 {
	var out []uint64
	txn := h.W.Store.database.NewTransaction(false)
	defer txn.Discard()
	for _, id := range ids {
		if rid, ok, _ := h.W.Store.getIDForURI(txn, h.Curie(id)); ok {
			out = append(out, rid)
		}
	}
	return out
}

// checkDsm is the C07 oracle on the current state.
func (c *VCheck) checkDsm(p DsmParams, st *dsmState, allNames []string) {
	h := c.H
	// dataset list
	live := map[string]bool{}
	for _, n := range h.W.Dsm.GetDatasetNames() {
		if strings.HasSuffix(n.Name, "."+h.Tag) {
			live[h.AbsDs(n.Name)] = true
		}
	}
	c.Checks++
	for _, n := range allNames {
		_, inModel := h.M.Datasets[n]
		if live[n] != inModel {
			c.fail("C07:list:"+n, fmt.Sprintf("dataset %s listed=%v, model says exists=%v", n, live[n], inModel), nil)
		}
		if ds := h.W.Dsm.GetDataset(h.DsName(n)); (ds != nil) != inModel {
			c.fail("C07:get:"+n, fmt.Sprintf("dataset %s resolvable=%v, model says exists=%v", n, ds != nil, inModel), nil)
		}
	}
	// content of live datasets, unscoped answers, relationship queries: model only knows live incarnations
	c.CheckLatest(p.IDs)
	c.CheckFeed()
	var liveNames []string
	for _, d := range h.M.LiveInOrder() {
		liveNames = append(liveNames, d.Name)
	}
	scopes := [][]string{nil}
	for _, n := range liveNames {
		scopes = append(scopes, []string{n})
	}
	c.CheckRelations(p.IDs, scopes)
	// point-in-time lookups must not resurrect deleted datasets either
	for _, in := range st.instants {
		for _, id := range p.IDs {
			c.Checks++
			txn := h.W.Store.database.NewTransaction(false)
			rid, exists, _ := h.W.Store.getIDForURI(txn, h.Curie(id))
			txn.Discard()
			if !exists {
				continue
			}
			e, err := h.W.Store.GetEntityAtPointInTimeWithInternalID(rid, in.t, nil, true)
			if err != nil || e == nil {
				continue
			}
			want, parts, anyDel := h.M.Merged(id, nil, in.commit)
			if parts == 0 {
				want = model.Content{Props: map[string]interface{}{}, Refs: map[string]interface{}{}, Deleted: anyDel}
			}
			if got := h.AbsContent(e); !got.Equal(want) {
				c.fail("C07:pit:"+id, fmt.Sprintf("unscoped lookup of %s as of commit %d returns %s; the live datasets give %s", id, in.commit, got, want), nil)
			}
		}
	}
	// incarnation ids are never reused
	for _, d := range h.M.LiveInOrder() {
		ds := h.W.Dsm.GetDataset(h.DsName(d.Name))
		if ds == nil {
			continue
		}
		if old, ok := st.incIDs[d.Inc]; ok {
			if old != ds.InternalID {
				c.fail("C07:incarnation-id-changed:"+d.Name, fmt.Sprintf("dataset %s changed its internal id %d -> %d", d.Name, old, ds.InternalID), nil)
			}
			continue
		}
		for _, dead := range st.deadIDs {
			if dead == ds.InternalID {
				c.fail("C07:incarnation-id-reused:"+d.Name, fmt.Sprintf("new dataset %s reuses internal id %d of a deleted dataset", d.Name, ds.InternalID), nil)
			}
		}
		if ds.InternalID <= st.maxDsID {
			c.fail("C07:incarnation-id-not-fresh:"+d.Name, fmt.Sprintf("new dataset %s got internal id %d, not above the highest id %d handed out before", d.Name, ds.InternalID, st.maxDsID), nil)
		}
		st.incIDs[d.Inc] = ds.InternalID
		if ds.InternalID > st.maxDsID {
			st.maxDsID = ds.InternalID
		}
	}
}

// VReplayDsm replays a dataset-management history (C07).
func VReplayDsm(task engine.SeqTask) (res engine.SeqResult) {
	var p DsmParams
	_ = json.Unmarshal(task.Params, &p)
	defer func() {
		if r := recover(); r != nil {
			res.Viol = append(res.Viol, engine.Violation{Key: "panic|" + fmt.Sprint(r), What: fmt.Sprintf("panic while replaying history: %v", r)})
			vWorkerWorld = nil
		}
	}()
	w := vWorld()
	h := w.NewHist()
	allNames := append([]string{"S"}, p.Names...)
	for _, n := range p.Names {
		if n == "A2" {
			continue
		}
	}
	if err := h.EnsureDatasets("S"); err != nil {
		res.HarnessEr = err.Error()
		return
	}
	st := &dsmState{incIDs: map[int]uint32{}}
	chk := &VCheck{H: h, SkipKnownC03: true}
	// preload the survivor with data sharing ids and references
	pool := model.Pool(0)
	pre := []VOp{{K: "batch", DS: "S", Ents: []VEnt{{"e1", model.PoolIndex(pool, "v1r2")}, {"e2", model.PoolIndex(pool, "r1")}}}}
	for _, op := range pre {
		t, err := h.applyWriteT(op)
		if err != nil {
			res.HarnessEr = err.Error()
			return
		}
		st.instants = append(st.instants, struct {
			t      int64
			commit int
		}{t, h.M.CommitIndex()})
	}
	chk.checkDsm(p, st, allNames) // registers S's internal id
	chk.Viol = nil
	for i, raw := range task.Hist {
		var op VOp
		if err := json.Unmarshal(raw, &op); err != nil {
			res.HarnessEr = err.Error()
			return
		}
		last := i == len(task.Hist)-1
		if last {
			chk.Last = op.String()
		}
		_, exists := h.M.Datasets[op.DS]
		switch op.K {
		case "batch", "txn":
			applicable := true
			if op.K == "batch" && !exists {
				applicable = false
			}
			for n := range op.Parts {
				if _, ok := h.M.Datasets[n]; !ok {
					applicable = false
				}
			}
			if !applicable {
				res.Skip = true
				res.Key = "skip"
				return
			}
			t, err := h.applyWriteT(op)
			if err != nil {
				chk.fail("C07:write-rejected", "valid write rejected: "+err.Error(), nil)
			} else {
				st.instants = append(st.instants, struct {
					t      int64
					commit int
				}{t, h.M.CommitIndex()})
			}
		case "create":
			if exists {
				res.Skip, res.Key = true, "skip"
				return
			}
			if _, err := w.Dsm.CreateDataset(h.DsName(op.DS), nil); err != nil {
				chk.fail("C07:create-rejected", "create rejected: "+err.Error(), nil)
			} else {
				h.M.Create(op.DS)
			}
		case "delete":
			if !exists {
				res.Skip, res.Key = true, "skip"
				return
			}
			if ds := w.Dsm.GetDataset(h.DsName(op.DS)); ds != nil {
				st.deadIDs = append(st.deadIDs, ds.InternalID)
			}
			if err := w.Dsm.DeleteDataset(h.DsName(op.DS)); err != nil {
				chk.fail("C07:delete-rejected", "delete rejected: "+err.Error(), nil)
			} else {
				h.M.Delete(op.DS)
			}
		case "rename":
			_, toExists := h.M.Datasets[op.To]
			if !exists || toExists {
				res.Skip, res.Key = true, "skip"
				return
			}
			if _, err := w.Dsm.UpdateDataset(h.DsName(op.DS), &UpdateDatasetConfig{ID: h.DsName(op.To)}); err != nil {
				chk.fail("C07:rename-rejected", "rename rejected: "+err.Error(), nil)
			} else {
				h.M.Rename(op.DS, op.To)
			}
		case "gc":
			before := h.CanonOpt(append(append([]string{}, p.IDs...), "e4"), vLiveNames(h), "", true)
			if err := NewGarbageCollector(w.Store, w.Env).Cleandeleted(); err != nil {
				chk.fail("C07:gc-error", "garbage collection failed: "+err.Error(), nil)
			}
			after := h.CanonOpt(append(append([]string{}, p.IDs...), "e4"), vLiveNames(h), "", true)
			if last {
				chk.Checks++
				if before != after {
					chk.fail("C07:gc-touched-survivors", "garbage collection changed raw keys of datasets that were not deleted", nil)
				}
				rids := h.ridsOf(append(append([]string{}, p.IDs...), "e4"))
				for _, dead := range st.deadIDs {
					if n := h.countKeysForDataset(dead, rids); n != 0 {
						chk.fail("C07:gc-leftover", fmt.Sprintf("after garbage collection %d raw keys still carry the internal id %d of a deleted dataset", n, dead), nil)
					}
				}
			}
		case "restart":
			w.Restart()
		default:
			res.HarnessEr = "unknown op " + op.K
			return
		}
		if !last {
			// keep the incarnation-id bookkeeping current on the way
			save := chk.Viol
			for _, d := range h.M.LiveInOrder() {
				if ds := w.Dsm.GetDataset(h.DsName(d.Name)); ds != nil {
					if _, ok := st.incIDs[d.Inc]; !ok {
						st.incIDs[d.Inc] = ds.InternalID
						if ds.InternalID > st.maxDsID {
							st.maxDsID = ds.InternalID
						}
					}
				}
			}
			chk.Viol = save
		}
	}
	chk.checkDsm(p, st, allNames)
	var deadKeys []string
	rids := h.ridsOf(append(append([]string{}, p.IDs...), "e4"))
	for _, d := range st.deadIDs {
		deadKeys = append(deadKeys, fmt.Sprint(h.countKeysForDataset(d, rids) > 0))
	}
	var liveDesc []string
	for _, d := range h.M.LiveInOrder() {
		liveDesc = append(liveDesc, d.Name)
	}
	sort.Strings(liveDesc)
	res.Key = h.Canon(append(append([]string{}, p.IDs...), "e4"), vLiveNames(h), strings.Join(liveDesc, ",")+"|dead:"+strings.Join(deadKeys, ","))
	res.Viol = chk.Viol
	res.Checks = chk.Checks
	res.Outcome = res.Key[:8]
	return
}

func vLiveNames(h *VHist) []string {
	var out []string
	for _, d := range h.M.LiveInOrder() {
		out = append(out, d.Name)
	}
	return out
}

func init() {
	engine.RegisterWorker("dsm", func(args []string) {
		defer func() {
			if vWorkerWorld != nil {
				vWorkerWorld.Destroy()
			}
		}()
		engine.ServeWorker(func(task []byte) interface{} {
			var t engine.SeqTask
			if err := json.Unmarshal(task, &t); err != nil {
				return engine.SeqResult{HarnessEr: err.Error()}
			}
			return VReplayDsm(t)
		})
	})
}
