package server

// Verification harness, injected into package server by go build -overlay.
// Nothing here is compiled into the normal datahub build.

import (
	"encoding/json"
	"fmt"
	"os"
	"path/filepath"
	"sort"
	"strings"

	"github.com/DataDog/datadog-go/v5/statsd"
	"go.uber.org/zap"

	"github.com/mimiro-io/datahub/internal/conf"
	"github.com/mimiro-io/datahub/internal/verifrt/model"
)

const VNamespace = "http://x/"

// VWorld is one opened store of the real implementation.
type VWorld struct {
	Dir    string
	Env    *conf.Config
	Store  *Store
	Dsm    *DsManager
	Prefix string // prefix of VNamespace
	Pool   []model.PoolItem
	Hists  int
	Bm     *BackupManager // lazily created by the backup scenarios (one cursor per world, like one per hub)
	// RealBus: the dataset manager (and the job runner on top) get the real event bus, a new one at every start
	RealBus bool
	Bus     EventBus
}

// VScratchBase returns a scratch directory base outside /repo and /verif.
func VScratchBase() string {
	base := os.Getenv("VERIF_SCRATCH")
	if base == "" {
		if st, err := os.Stat("/dev/shm"); err == nil && st.IsDir() {
			base = "/dev/shm"
		} else {
			base = os.TempDir()
		}
	}
	return base
}

func VNewScratchDir(tag string) string {
	dir, err := os.MkdirTemp(VScratchBase(), "verif-"+tag+"-")
	if err != nil {
		panic(err)
	}
	return dir
}

func VOpenWorld(dir string) *VWorld { return VOpenWorldBus(dir, false) }

func VOpenWorldBus(dir string, realBus bool) *VWorld {
	w := &VWorld{Dir: dir, RealBus: realBus}
	w.Env = &conf.Config{Logger: zap.NewNop().Sugar(), StoreLocation: filepath.Join(dir, "store")}
	w.open()
	return w
}

func (w *VWorld) open() {
	w.Store = NewStore(w.Env, &statsd.NoOpClient{})
	w.Bus = NoOpBus()
	if w.RealBus {
		b, err := NewBus(w.Env)
		if err != nil {
			panic(err)
		}
		w.Bus = b
	}
	w.Dsm = NewDsManager(w.Env, w.Store, w.Bus)
	p, err := w.Store.NamespaceManager.AssertPrefixMappingForExpansion(VNamespace)
	if err != nil {
		panic(err)
	}
	w.Prefix = p
	w.Pool = model.Pool(model.PadFor(p))
}

// VAdopt makes the world stand on components somebody else built (a whole hub instance wired by app.go).
func (w *VWorld) VAdopt(store *Store, dsm *DsManager, bus EventBus) {
	w.Store, w.Dsm, w.Bus = store, dsm, bus
	p, err := w.Store.NamespaceManager.AssertPrefixMappingForExpansion(VNamespace)
	if err != nil {
		panic(err)
	}
	w.Prefix = p
	w.Pool = model.Pool(model.PadFor(p))
}

func (w *VWorld) Close() {
	_ = w.Store.Close()
}

func (w *VWorld) Restart() {
	_ = w.Store.Close()
	w.open()
}

func (w *VWorld) Destroy() {
	_ = w.Store.Close()
	_ = os.RemoveAll(w.Dir)
}

// VHist is one history being replayed on a world, on fresh names.
type VHist struct {
	W       *VWorld
	Tag     string
	M       *model.World
	LastAck string // extra data the crash child appends to the acknowledgement line of the last op
	Ctx0    *Store // a contextual store created when the history began (re-created after a restart)
	// KeySuffix: appended to every property and predicate name of this history, so that the history's predicates
	// have never been used in the hub before (abstract names stay the same)
	KeySuffix string
}

// storeVia returns the store a transaction goes through.
func (h *VHist) storeVia(via string) *Store {
	switch via {
	case "ctx":
		return NewContextualStore(h.W.Store)
	case "ctx0":
		if h.Ctx0 == nil || h.Ctx0.database != h.W.Store.database {
			h.Ctx0 = NewContextualStore(h.W.Store)
		}
		return h.Ctx0
	}
	return h.W.Store
}

func (w *VWorld) NewHist() *VHist {
	w.Hists++
	return &VHist{W: w, Tag: fmt.Sprintf("%d", w.Hists), M: model.NewWorld(), Ctx0: NewContextualStore(w.Store)}
}

// name mapping ---------------------------------------------------------

func (h *VHist) DsName(abs string) string {
	if abs == datasetCore {
		return abs
	}
	return abs + "." + h.Tag
}

func (h *VHist) AbsDs(name string) string {
	return strings.TrimSuffix(name, "."+h.Tag)
}

func (h *VHist) Curie(absID string) string { return h.W.Prefix + ":" + absID + "_" + h.Tag }
func (h *VHist) URI(absID string) string   { return VNamespace + absID + "_" + h.Tag }
func (h *VHist) Key(abs string) string     { return h.W.Prefix + ":" + abs + h.KeySuffix }
func (h *VHist) KeyURI(abs string) string  { return VNamespace + abs + h.KeySuffix }

func (h *VHist) AbsID(curie string) string {
	s := strings.TrimPrefix(curie, h.W.Prefix+":")
	s = strings.TrimPrefix(s, VNamespace)
	return strings.TrimSuffix(s, "_"+h.Tag)
}

func (h *VHist) AbsKey(key string) string {
	s := strings.TrimPrefix(key, h.W.Prefix+":")
	s = strings.TrimPrefix(s, VNamespace)
	if h.KeySuffix != "" {
		s = strings.TrimSuffix(s, h.KeySuffix)
	}
	return s
}

// Entity builds a fresh implementation entity from abstract content.
func (h *VHist) Entity(id string, c model.Content) *Entity {
	e := NewEntity(h.Curie(id), 0)
	for k, v := range c.Props {
		e.Properties[h.Key(k)] = h.concreteValue(v)
	}
	for k, v := range c.Refs {
		switch t := v.(type) {
		case string:
			e.References[h.Key(k)] = h.Curie(t)
		case []string:
			l := make([]string, len(t))
			for i, x := range t {
				l[i] = h.Curie(x)
			}
			e.References[h.Key(k)] = l
		case []interface{}:
			l := make([]interface{}, len(t))
			for i, x := range t {
				l[i] = h.Curie(x.(string))
			}
			e.References[h.Key(k)] = l
		}
	}
	e.IsDeleted = c.Deleted
	return e
}

func (h *VHist) concreteValue(v interface{}) interface{} {
	switch t := v.(type) {
	case map[string]interface{}:
		// nested entity: copy as is (ids inside are not tagged)
		return model.Norm(t)
	case []interface{}:
		// arrays keep their Go types (ints stay ints, also in nested arrays): that is how a transform or a job sink
		// hands values over; nested entities inside are normalised like above
		return rawCopy(t)
	default:
		return v
	}
}

func rawCopy(l []interface{}) []interface{} {
	out := make([]interface{}, len(l))
	for i, x := range l {
		switch t := x.(type) {
		case []interface{}:
			out[i] = rawCopy(t)
		case map[string]interface{}:
			out[i] = model.Norm(t)
		default:
			out[i] = x
		}
	}
	return out
}

// AbsContent maps an observed implementation entity back to abstract content.
func (h *VHist) AbsContent(e *Entity) model.Content {
	c := model.Content{Props: map[string]interface{}{}, Refs: map[string]interface{}{}, Deleted: e.IsDeleted}
	for k, v := range e.Properties {
		c.Props[h.AbsKey(k)] = model.Norm(v)
	}
	for k, v := range e.References {
		c.Refs[h.AbsKey(k)] = h.absRefValue(v)
	}
	return c
}

func (h *VHist) absRefValue(v interface{}) interface{} {
	switch t := v.(type) {
	case string:
		return h.AbsID(t)
	case []string:
		l := make([]interface{}, len(t))
		for i, x := range t {
			l[i] = h.AbsID(x)
		}
		return l
	case []interface{}:
		l := make([]interface{}, len(t))
		for i, x := range t {
			if s, ok := x.(string); ok {
				l[i] = h.AbsID(s)
			} else {
				l[i] = x
			}
		}
		return l
	}
	return v
}

// ---- operations -------------------------------------------------------

type VEnt struct {
	ID string `json:"id"`
	C  int    `json:"c"` // index into content pool
}

// VOp is one operation of a history (JSON form used in replay files).
type VOp struct {
	K     string            `json:"k"` // batch | txn | create | delete | rename | gc | restart | read | ...
	DS    string            `json:"ds,omitempty"`
	To    string            `json:"to,omitempty"`
	Ents  []VEnt            `json:"ents,omitempty"`
	Parts map[string][]VEnt `json:"parts,omitempty"`
	R     string            `json:"r,omitempty"` // reader cursor name
	L     int               `json:"l,omitempty"` // limit
	LO    bool              `json:"lo,omitempty"`
	N     int               `json:"n,omitempty"`
	// Via: "" = the store; "ctx" = a contextual store created for this operation; "ctx0" = the contextual store created
	// when the history began (what a job with a javascript transform holds: transactions from ExecuteTransaction())
	Via string `json:"via,omitempty"`
}

// allEnts: the entities of a batch op; N > 0 adds N generated entities g1..gN (a large batch).
func (o VOp) allEnts() []VEnt {
	if o.K != "batch" || o.N <= 0 {
		return o.Ents
	}
	l := append([]VEnt{}, o.Ents...)
	for i := 1; i <= o.N; i++ {
		l = append(l, VEnt{ID: fmt.Sprintf("g%d", i), C: 0})
	}
	return l
}

func (o VOp) String() string {
	b, _ := json.Marshal(o)
	return string(b)
}

func (h *VHist) ents(l []VEnt) ([]*Entity, []model.Ent) {
	var es []*Entity
	var ms []model.Ent
	for _, x := range l {
		c := h.W.Pool[x.C].C
		es = append(es, h.Entity(x.ID, c))
		ms = append(ms, model.Ent{ID: x.ID, C: c})
	}
	return es, ms
}

// EnsureDatasets creates the datasets (in the given order) in implementation and model.
func (h *VHist) EnsureDatasets(names ...string) error {
	for _, n := range names {
		if _, err := h.W.Dsm.CreateDataset(h.DsName(n), nil); err != nil {
			return err
		}
		h.M.Create(n)
	}
	return nil
}

// ApplyRefused applies a write the store has to refuse as a whole (badbatch: a null reference value in an extra last
// entity; badtxn: the same in the part for dataset B). Returns an error if it was accepted.
func (h *VHist) ApplyRefused(op VOp) error {
	var err error
	if op.K == "badbatch" {
		err = h.vApplyImpl(op)
	} else {
		t := &Transaction{DatasetEntities: map[string][]*Entity{}}
		for n, l := range op.Parts {
			es, _ := h.ents(l)
			t.DatasetEntities[h.DsName(n)] = es
		}
		bad := NewEntity(h.Curie("e9"), 0)
		bad.References[h.Key("p")] = nil
		t.DatasetEntities[h.DsName("B")] = append(t.DatasetEntities[h.DsName("B")], bad)
		err = h.storeVia(op.Via).ExecuteTransaction(t)
	}
	if err == nil {
		return fmt.Errorf("harness: a write with a null reference value was accepted")
	}
	return nil
}

// ApplyWrite applies a batch/txn op to implementation and model. Returns the
// implementation error (accepted == nil).
func (h *VHist) ApplyWrite(op VOp) error {
	switch op.K {
	case "batch":
		ds := h.W.Dsm.GetDataset(h.DsName(op.DS))
		if ds == nil {
			return fmt.Errorf("harness: no dataset %s", op.DS)
		}
		es, ms := h.ents(op.allEnts())
		if err := ds.StoreEntities(es); err != nil {
			return err
		}
		_, _ = h.M.Batch(op.DS, ms)
		return nil
	case "txn":
		t := &Transaction{DatasetEntities: map[string][]*Entity{}}
		mp := map[string][]model.Ent{}
		names := []string{}
		for n := range op.Parts {
			names = append(names, n)
		}
		sort.Strings(names)
		for _, n := range names {
			es, ms := h.ents(op.Parts[n])
			t.DatasetEntities[h.DsName(n)] = es
			mp[n] = ms
		}
		if err := h.storeVia(op.Via).ExecuteTransaction(t); err != nil {
			return err
		}
		_ = h.M.Txn(mp)
		return nil
	}
	return fmt.Errorf("harness: not a write op: %s", op.K)
}

// VFullSyncState exposes the in-memory full-sync state of a dataset (hidden state that belongs into canonical keys).
func (ds *Dataset) VFullSyncState() string {
	return fmt.Sprintf("started=%v id=%q lease=%v seen=%d", ds.fullSyncStarted, ds.fullSyncID, ds.fullSyncLease != nil, len(ds.fullSyncSeen))
}

// VNsTable copies the namespace manager's own prefix -> expansion map (not what an accessor hands out).
func VNsTable(s *Store) map[string]string {
	nm := s.NamespaceManager
	nm.lock.Lock()
	defer nm.lock.Unlock()
	out := map[string]string{}
	for k, v := range nm.prefixToExpansionMapping {
		out[k] = v
	}
	return out
}

// VSetPublicNamespaces changes the public namespaces of a dataset the documented way: its meta-entity is written into
// core.Dataset with the new list.
func (w *VWorld) VSetPublicNamespaces(dsName string, ns []string) error {
	info, _ := w.Store.NamespaceManager.GetDatasetNamespaceInfo()
	meta, err := w.Store.GetEntity(info.DatasetPrefix+":"+dsName, []string{datasetCore}, true)
	if err != nil || meta == nil {
		return fmt.Errorf("meta-entity of %s not found: %v", dsName, err)
	}
	meta.Properties[info.PublicNamespacesKey] = ns
	return w.Dsm.GetDataset(datasetCore).StoreEntities([]*Entity{meta})
}

// VURIAliases: full URIs that are stored under more than one identifier string (CURIE) in the identifier table, i.e.
// that have more than one internal id.
func VURIAliases(s *Store) []string {
	h := &VHist{W: &VWorld{Store: s}}
	by := map[string][]string{}
	for curie := range h.uriIDs() {
		full, err := s.NamespaceManager.ExpandCurie(curie)
		if err != nil || full == "" {
			full = curie
		}
		by[full] = append(by[full], curie)
	}
	var out []string
	for full, l := range by {
		if len(l) > 1 {
			sort.Strings(l)
			out = append(out, fmt.Sprintf("%s is known as %v", full, l))
		}
	}
	sort.Strings(out)
	return out
}

// VBusState: what the event bus would deliver: the registered topics, and per subscriber the topics it receives
// (read through the bus library's own accessors; nothing is emitted).
func (w *VWorld) VBusState() (topics []string, subs map[string][]string) {
	subs = map[string][]string{}
	eb, ok := w.Bus.(*MEventBus)
	if !ok {
		return nil, subs
	}
	topics = append(topics, eb.Bus.Topics()...)
	sort.Strings(topics)
	for _, k := range eb.Bus.HandlerKeys() {
		l := append([]string{}, eb.Bus.HandlerTopicSubscriptions(k)...)
		sort.Strings(l)
		subs[k] = l
	}
	return
}
