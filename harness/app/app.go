package datahub

// Verification harness for the root package, injected by go build -overlay: hands the components of a hub instance
// wired by NewDatahubInstance to the restart check (C14), which stops it through DatahubInstance.Stop.

import (
	"context"

	"github.com/mimiro-io/datahub/internal/conf"
	"github.com/mimiro-io/datahub/internal/web"
)

func init() {
	web.VAppFactory = func(env *conf.Config) (*web.VAppParts, error) {
		dhi, err := NewDatahubInstance(env)
		if err != nil {
			return nil, err
		}
		return &web.VAppParts{Store: dhi.store, Dsm: dhi.dsManager, Bus: dhi.eventBus, Runner: dhi.runner, Sched: dhi.scheduler,
			Core: dhi.securityServiceCore, Tps: dhi.tokenProviders, Web: dhi.webService,
			Stop: func() { _ = dhi.Stop(context.Background()) }}, nil
	}
}
