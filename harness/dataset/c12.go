package dataset

// Verification harness for package service/dataset (compaction), injected by go build -overlay.

import (
	"encoding/json"
	"fmt"
	"strings"
	"time"

	"go.uber.org/zap"

	"github.com/mimiro-io/datahub/internal/server"
	"github.com/mimiro-io/datahub/internal/verifrt/engine"
	"github.com/mimiro-io/datahub/internal/verifrt/model"
)

var c12World *server.VWorld

func c12GetWorld() *server.VWorld {
	if c12World != nil && c12World.Hists >= 1500 {
		c12World.Destroy()
		c12World = nil
	}
	if c12World == nil {
		c12World = server.VOpenWorld(server.VNewScratchDir("c12"))
	}
	return c12World
}

type dedupWithThreshold struct {
	*deduplicationStrategy
}

func c12Strategy(threshold int) CompactionStrategy {
	s := DeduplicationStrategy().(*deduplicationStrategy)
	s.flushAfter = threshold
	return s
}

// c12Compact runs the real deduplicating compaction synchronously.
// the hub has one compaction worker for its whole life: so has every world (what the worker carries from one
// compaction to the next is part of the behaviour)
var c12Workers = map[*server.Store]*CompactionWorker{}

func c12Compact(w *server.VWorld, h *server.VHist, abs string, threshold int) error {
	return c12Worker(w).compact(h.DsName(abs), c12Strategy(threshold))
}

func c12Worker(w *server.VWorld) *CompactionWorker {
	cw := c12Workers[w.Store]
	if cw == nil {
		if len(c12Workers) > 8 {
			c12Workers = map[*server.Store]*CompactionWorker{}
		}
		cw = NewCompactor(w.Store, w.Dsm, zap.NewNop().Sugar())
		c12Workers[w.Store] = cw
	}
	return cw
}

type c12Instant struct {
	t     int64
	truth *server.VInstant
}

// c12Replay replays writes, duplicate injections and compactions; every compaction is judged differentially.
func c12Replay(task engine.SeqTask) (res engine.SeqResult) {
	defer func() {
		if r := recover(); r != nil {
			res.Viol = append(res.Viol, engine.Violation{Key: "panic|" + fmt.Sprint(r), What: fmt.Sprintf("panic while replaying history: %v", r)})
			c12World = nil
		}
	}()
	w := c12GetWorld()
	h := w.NewHist()
	dss := []string{"A", "B"}
	ids := []string{"e1", "e2", "e3"}
	if err := h.EnsureDatasets(dss...); err != nil {
		res.HarnessEr = err.Error()
		return
	}
	// a bystander dataset with the same entity
	pool := model.Pool(0)
	_ = h.ApplyWrite(server.VOp{K: "batch", DS: "B", Ents: []server.VEnt{{ID: "e1", C: model.PoolIndex(pool, "s")}}})
	// ... in two versions, the later one with a reference the histories also write into A
	_ = h.ApplyWrite(server.VOp{K: "batch", DS: "B", Ents: []server.VEnt{{ID: "e1", C: model.PoolIndex(pool, "v1r2")}}})
	chk := &server.VCheck{H: h, SkipKnownC03: true}
	scopes := server.VScopes(dss)
	var times []int64
	note := func() { times = append(times, time.Now().UnixNano()) }
	note()
	for i, raw := range task.Hist {
		var op server.VOp
		_ = json.Unmarshal(raw, &op)
		last := i == len(task.Hist)-1
		if last {
			chk.Last = op.String()
		}
		switch op.K {
		case "batch":
			if err := h.ApplyWrite(op); err != nil {
				compacted := false
				for _, raw := range task.Hist[:i] {
					var po server.VOp
					if json.Unmarshal(raw, &po) == nil && po.K == "compact" {
						compacted = true
					}
				}
				if compacted {
					// a valid batch is refused on a dataset that has been compacted: compaction was not invisible
					res.Viol = append(res.Viol, engine.Violation{Key: "C12:write-refused-after-compaction|" + short12(err.Error()), What: fmt.Sprintf("after a compaction earlier in the history the valid batch %s is refused: %v", op, err)})
					res.Skip, res.Key = true, "skip"
					return
				}
				res.HarnessEr = err.Error()
				return
			}
			note()
		case "dup":
			if h.M.Datasets["A"].Latest(op.Ents[0].ID) == nil {
				res.Skip, res.Key = true, "skip"
				return
			}
			if err := h.VInjectDuplicate("A", op.Ents[0].ID); err != nil {
				res.HarnessEr = "dup: " + err.Error()
				return
			}
			note()
		case "dup2":
			// a legacy duplicate of the latest version that shares its batch with a further version (contents without references)
			cur := h.M.Datasets["A"].Latest(op.Ents[0].ID)
			next := w.Pool[op.Ents[1].C].C
			if cur == nil || len(cur.C.Refs) > 0 || next.Equal(cur.C) {
				res.Skip, res.Key = true, "skip"
				return
			}
			if err := h.VInjectDuplicateInBatch("A", op.Ents[0].ID, next); err != nil {
				res.HarnessEr = "dup2: " + err.Error()
				return
			}
			note()
		case "compact":
			// truth before: point-in-time answers at every recorded instant, positions of the feed
			var before []c12Instant
			if last {
				for _, t := range times {
					before = append(before, c12Instant{t, chk.SnapshotAt(ids, scopes, t, false)})
				}
			}
			dsA := w.Dsm.GetDataset(h.DsName("A"))
			posBefore := h.ChangePositions(dsA)
			feedBefore, _ := dsA.GetChanges(0, 0, false)
			var cerr error
			func() {
				defer func() {
					if r := recover(); r != nil {
						cerr = fmt.Errorf("compaction panicked: %v", r)
						c12World = nil
					}
				}()
				cerr = c12Compact(w, h, "A", op.N)
			}()
			if cerr != nil {
				chk.Fail("C12:compact-error", "compaction failed: "+cerr.Error())
				if c12World == nil {
					// panicked: the world is not used any further
					res.Key = "aborted|" + fmt.Sprint(len(task.Hist)) + "|" + chk.Last
					res.Viol, res.Checks = chk.Viol, chk.Checks
					return
				}
				break
			}
			removed := h.M.Compact("A")
			if !last {
				break
			}
			// latest view, lookups, feeds (full and latest-only, every limit), relationship queries now: equal to the model
			// whose feed is "before minus versions identical to their immediate predecessor"
			chk.CheckLatest(ids)
			chk.CheckFeed()
			chk.CheckRelations(ids, scopes)
			// point-in-time answers unchanged
			for _, b := range before {
				got := chk.SnapshotAt(ids, scopes, b.t, false)
				b.truth.Label = fmt.Sprintf("instant-%d", b.t-times[0])
				lbl := "before-compaction"
				b.truth.Label = lbl
				chk.CompareInstant(b.truth, got)
			}
			// survivors keep their positions
			posAfter := h.ChangePositions(dsA)
			feedAfter, _ := dsA.GetChanges(0, 0, false)
			if feedAfter != nil && feedBefore != nil && len(posAfter) == len(feedAfter.Entities) && len(posBefore) == len(feedBefore.Entities) {
				j := 0
				for i2, p := range posBefore {
					if j < len(posAfter) && posAfter[j] == p {
						if feedAfter.Entities[j].Recorded != feedBefore.Entities[i2].Recorded {
							chk.Fail("C12:survivor-changed", fmt.Sprintf("the change at position %d is a different version after compaction", p))
						}
						j++
					}
				}
				if j != len(posAfter) {
					chk.Fail("C12:positions", fmt.Sprintf("change positions after compaction %v are not a subsequence of the positions before %v", posAfter, posBefore))
				}
				if len(posBefore)-len(posAfter) != removed {
					chk.Fail("C12:removed-count", fmt.Sprintf("compaction removed %d changes, %d versions are identical to their immediate predecessor", len(posBefore)-len(posAfter), removed))
				}
			}
			// a second compaction changes nothing
			key1 := h.Canon(append(append([]string{}, ids...), "e4"), dss, "")
			if err := c12Compact(w, h, "A", op.N); err != nil {
				chk.Fail("C12:recompact-error", "second compaction failed: "+err.Error())
			} else if key2 := h.Canon(append(append([]string{}, ids...), "e4"), dss, ""); key2 != key1 {
				chk.Fail("C12:not-idempotent", "a second compaction changed the stored keys again")
			}
		}
	}
	res.Key = h.Canon(append(append([]string{}, ids...), "e4"), dss, "")
	res.Viol = chk.Viol
	res.Checks = chk.Checks
	res.Outcome = res.Key[:8]
	return
}

func init() {
	engine.RegisterWorker("compact", func(args []string) {
		defer func() {
			if c12World != nil {
				c12World.Destroy()
			}
		}()
		engine.ServeWorker(func(task []byte) interface{} {
			var t engine.SeqTask
			if err := json.Unmarshal(task, &t); err != nil {
				return engine.SeqResult{HarnessEr: err.Error()}
			}
			return c12Replay(t)
		})
	})
	engine.RegisterCheck("C12", func(r *engine.Run) {
		r.Rule = "SEQ, differential: every history up to the stated depth over {writes whose values flip back and forth with references kept across property changes, delete/un-delete, legacy duplicate injection (a version byte-identical in content to its predecessor), batches that carry the same entity twice (second search), deduplicating compaction with flush thresholds 1, 2, 100000}; on every compaction: latest view, lookups, current and point-in-time relationship queries and entity lookups at every recorded instant, latest-only feed must be unchanged and the full feed must equal the previous one minus exactly the versions identical to their immediate predecessor, survivors keep positions, a second compaction is a no-op. SCHED and CRASH parts: see parts"
		r.Assumptions = []string{"badger transactions are linearizable and commits atomic w.r.t. process kill", "legacy duplicates are injected with raw key deletes like the repository's own compaction tests do"}
		pool := model.Pool(0)
		pi := func(n string) int { return model.PoolIndex(pool, n) }
		w := func(c string) server.VOp {
			return server.VOp{K: "batch", DS: "A", Ents: []server.VEnt{{ID: "e1", C: pi(c)}}}
		}
		alpha := []server.VOp{w("v1"), w("v2"), w("v1r2"), w("v2r2"), w("dv1"), w("r23"),
			{K: "batch", DS: "A", Ents: []server.VEnt{{ID: "e2", C: pi("r1")}}},
			{K: "dup", Ents: []server.VEnt{{ID: "e1"}}},
			{K: "compact", N: 1}, {K: "compact", N: 2}, {K: "compact", N: 100000}}
		var raw []json.RawMessage
		for _, o := range alpha {
			b, _ := json.Marshal(o)
			raw = append(raw, b)
		}
		depth, budget := 5, 150
		if !r.Quick() {
			depth, budget = 6, 3000
			alpha = append(alpha, w("dr2")) // a deleted version that still carries a reference
			raw = nil
			for _, o := range alpha {
				b, _ := json.Marshal(o)
				raw = append(raw, b)
			}
		}
		engine.RunSeq(r, engine.SeqSpec{Name: "c12-seq", WorkerArgs: []string{"worker", "compact"}, Alphabet: raw, Depth: depth, Budget: time.Duration(budget) * time.Second})
		{
			// batches that carry the same entity twice (the first occurrence may equal the stored latest: two versions
			// with one transaction time that differ only in their position inside the batch)
			pair := func(c1, c2 string) server.VOp {
				return server.VOp{K: "batch", DS: "A", Ents: []server.VEnt{{ID: "e1", C: pi(c1)}, {ID: "e1", C: pi(c2)}}}
			}
			pa := []server.VOp{w("v1"), w("v2"), pair("v1", "v2"), pair("v2", "v1"), pair("v1", "v1"), pair("v1r2", "v2r2"),
				{K: "dup", Ents: []server.VEnt{{ID: "e1"}}},
				// ... one of the two a legacy duplicate of the version stored before
				{K: "dup2", Ents: []server.VEnt{{ID: "e1"}, {ID: "e1", C: pi("v2")}}}, {K: "dup2", Ents: []server.VEnt{{ID: "e1"}, {ID: "e1", C: pi("v1")}}},
				{K: "compact", N: 1}, {K: "compact", N: 100000}}
			var praw []json.RawMessage
			for _, o := range pa {
				b, _ := json.Marshal(o)
				praw = append(praw, b)
			}
			pd, pb := 4, 60
			if !r.Quick() {
				pd, pb = 6, 1200
			}
			engine.RunSeq(r, engine.SeqSpec{Name: "c12-same-entity-twice-in-a-batch", WorkerArgs: []string{"worker", "compact"}, Alphabet: praw, Depth: pd, Budget: time.Duration(pb) * time.Second})
		}
		c12Sched(r)
		c12Crash(r)
	})
	_ = strings.Join
}

func short12(s string) string {
	if len(s) > 80 {
		return s[:80]
	}
	return s
}
