package dataset

import (
	"encoding/json"
	"fmt"
	"strings"

	"github.com/mimiro-io/datahub/internal/server"
	"github.com/mimiro-io/datahub/internal/verifrt/engine"
	"github.com/mimiro-io/datahub/internal/verifrt/model"
)

func init() {
	server.VCrashKinds["compact"] = server.CrashKind{Setup: func(dir string, spec server.CrashSpec) (func(op server.VOp) (string, error), func(), error) {
		w := server.VOpenWorld(dir)
		h := w.NewHist()
		if err := h.EnsureDatasets(spec.Datasets...); err != nil {
			return nil, nil, err
		}
		apply := func(op server.VOp) (string, error) {
			switch op.K {
			case "batch":
				return "", h.ApplyWrite(op)
			case "dup":
				return "", h.VInjectDuplicate("A", op.Ents[0].ID)
			case "compact":
				return "", c12Compact(w, h, "A", op.N)
			}
			return "", fmt.Errorf("unknown op %s", op.K)
		}
		for _, op := range spec.Pre {
			if _, err := apply(op); err != nil {
				return nil, nil, err
			}
		}
		return apply, func() { w.Close() }, nil
	}}

	engine.RegisterWorker("crash-compact", func(args []string) {
		engine.ServeWorker(func(task []byte) interface{} {
			var spec server.CrashSpec
			if err := json.Unmarshal(task, &spec); err != nil {
				return server.CrashResult{HarnessEr: err.Error()}
			}
			return server.VRunCrashTaskDir(spec, func(dir string, res *server.CrashResult) {
				w := server.VOpenWorld(dir)
				defer w.Close()
				h := w.NewHist()
				for _, d := range spec.Datasets {
					h.M.Create(d)
				}
				// reader-visible answers are the same before, during and after compaction: the model of the writes
				for _, op := range append(append([]server.VOp{}, spec.Pre...), spec.Hist...) {
					switch op.K {
					case "batch":
						h.ModelApply(op)
					case "dup":
						h.M.ForceDup("A", op.Ents[0].ID)
					}
				}
				killDesc := fmt.Sprintf("commit=%d point=%s#%d", spec.Kill.Commit, spec.Kill.Point, spec.Kill.N)
				histDesc := server.VOpsString(spec.Hist)
				ids := spec.IDs
				full := h.M.Datasets["A"].Feed
				// the full feed must be the uncompacted feed minus a subset of the removable versions: compare everything
				// else against the compacted model (identical answers), and the feed against both bounds
				mFull := h.M
				mc := model.NewWorld()
				hc := &server.VHist{W: w, Tag: h.Tag, M: mc}
				for _, d := range spec.Datasets {
					mc.Create(d)
				}
				for _, op := range append(append([]server.VOp{}, spec.Pre...), spec.Hist...) {
					switch op.K {
					case "batch":
						hc.ModelApply(op)
					case "dup":
						mc.ForceDup("A", op.Ents[0].ID)
					}
				}
				mc.Compact("A")
				chk := &server.VCheck{H: hc, Last: histDesc + "|" + killDesc, SkipKnownC03: true}
				chk.CheckLatest(ids)
				chk.CheckRelations(ids, server.VScopes(spec.Datasets))
				dsA := w.Dsm.GetDataset(h.DsName("A"))
				got, err := dsA.GetChanges(0, 0, false)
				if err != nil {
					chk.Fail("C12:crash-feed-error", err.Error())
				} else {
					// got must be a subsequence of the uncompacted feed and a supersequence of the compacted feed
					isSub := func(small []string, big []string) bool {
						j := 0
						for _, b := range big {
							if j < len(small) && small[j] == b {
								j++
							}
						}
						return j == len(small)
					}
					var gl []string
					for _, e := range got.Entities {
						gl = append(gl, h.AbsID(e.ID)+"="+h.AbsContent(e).String())
					}
					if !isSub(gl, model.FeedStrings(full)) || !isSub(model.FeedStrings(mc.Datasets["A"].Feed), gl) {
						chk.Fail("C12:crash-feed", fmt.Sprintf("after a kill at %s during %s the full feed is %v; it must be the feed %v minus only versions identical to their predecessor (at least %v)", killDesc, histDesc, gl, model.FeedStrings(full), model.FeedStrings(mc.Datasets["A"].Feed)))
					}
					// latest-only feed unchanged
					lo, err := dsA.GetChanges(0, 0, true)
					if err == nil {
						var ll []string
						for _, e := range lo.Entities {
							ll = append(ll, h.AbsID(e.ID)+"="+h.AbsContent(e).String())
						}
						if strings.Join(ll, " ") != strings.Join(model.FeedStrings(mc.Datasets["A"].LatestOnlyFeed()), " ") {
							chk.Fail("C12:crash-latest-only-feed", fmt.Sprintf("after a kill at %s during %s the latest-only feed is %v, want %v", killDesc, histDesc, ll, model.FeedStrings(mc.Datasets["A"].LatestOnlyFeed())))
						}
					}
				}
				for _, msg := range h.RawInvariants(spec.Datasets) {
					chk.Fail("C12:crash-index|"+msg, fmt.Sprintf("after a kill at %s during %s: %s", killDesc, histDesc, msg))
				}
				// re-running compaction finishes the job
				if err := c12Compact(w, h, "A", 1); err != nil {
					chk.Fail("C12:crash-recompact-error", "compaction after recovery failed: "+err.Error())
				} else {
					chk2 := &server.VCheck{H: hc, Last: histDesc + "|" + killDesc, SkipKnownC03: true}
					chk2.CheckLatest(ids)
					chk2.CheckFeed()
					for _, v := range chk2.Viol {
						chk.Fail("C12:crash-recompact|"+v.Key, "after recovery and re-running compaction: "+v.What)
					}
				}
				_ = mFull
				res.Matched = res.Acked
				res.Checks = chk.Checks
				res.Viol = chk.Viol
				res.Key = h.Canon(append(append([]string{}, ids...), "e4"), spec.Datasets, "")
			})
		})
	})
}

func c12Crash(r *engine.Run) {
	pool := model.Pool(0)
	pi := func(n string) int { return model.PoolIndex(pool, n) }
	w := func(id, c string) server.VOp {
		return server.VOp{K: "batch", DS: "A", Ents: []server.VEnt{{ID: id, C: pi(c)}}}
	}
	dup := func(id string) server.VOp { return server.VOp{K: "dup", Ents: []server.VEnt{{ID: id}}} }
	pres := [][]server.VOp{
		{w("e1", "v1r2"), dup("e1"), w("e2", "r1"), dup("e2"), w("e1", "v2r2"), w("e1", "v1r2"), dup("e1")},
		{w("e1", "v1"), dup("e1"), dup("e1"), w("e1", "dv1"), dup("e1"), w("e2", "v1r2"), w("e2", "v2r2")},
	}
	var bases []map[string]interface{}
	for _, pre := range pres {
		for _, th := range []int{1, 2} {
			spec := server.CrashSpec{Datasets: []string{"A", "B"}, IDs: []string{"e1", "e2", "e3"}, Pre: pre, Hist: []server.VOp{{K: "compact", N: th}}, Kind: "compact"}
			b, _ := json.Marshal(spec)
			var m map[string]interface{}
			_ = json.Unmarshal(b, &m)
			bases = append(bases, m)
		}
	}
	engine.RunCrash(r, "c12-crash", []string{"worker", "crash-compact"}, bases, 0)
}
