package dataset

import (
	"encoding/json"
	"fmt"
	"strings"
	"time"

	"github.com/mimiro-io/datahub/internal/server"
	"github.com/mimiro-io/datahub/internal/verifrt/engine"
	"github.com/mimiro-io/datahub/internal/verifrt/model"
	"github.com/mimiro-io/datahub/internal/verifrt/vsync"
)

// c12RunSched: threads of {compact, batch} on dataset A after a preloaded history (Pre may contain "dup").
func c12RunSched(w *server.VWorld, sc *server.SchedScenario, prefix []int, horizon int) *vsync.Execution {
	h := w.NewHist()
	if err := h.EnsureDatasets("A", "B"); err != nil {
		return &vsync.Execution{HarnessErr: err.Error()}
	}
	for _, op := range sc.Pre {
		var err error
		switch op.K {
		case "dup":
			err = h.VInjectDuplicate("A", op.Ents[0].ID)
		case "compact":
			err = c12Compact(w, h, "A", op.N)
		case "delete":
			err = w.Dsm.DeleteDataset(h.DsName(op.DS))
		case "create":
			_, err = w.Dsm.CreateDataset(h.DsName(op.DS), nil)
		default:
			err = h.ApplyWrite(op)
		}
		if err != nil {
			return &vsync.Execution{HarnessErr: "pre: " + err.Error()}
		}
	}
	server.VInstallHooks()
	s := vsync.NewSched(prefix, horizon)
	if ds := w.Dsm.GetDataset(h.DsName("A")); ds != nil {
		s.NameLock(&ds.WriteLock, "WriteLock:A")
	}
	if ds := w.Dsm.GetDataset(h.DsName("B")); ds != nil {
		s.NameLock(&ds.WriteLock, "WriteLock:B")
	}
	// compactasync: a compaction request as POST /compact hands it to the hub's one worker (CompactAsync: accepted
	// and run in a goroutine of the worker's, or refused because a compaction is running)
	acceptedA := false
	errs := make([][]string, len(sc.Threads))
	var bodies []func()
	for ti, th := range sc.Threads {
		ti, th := ti, th
		bodies = append(bodies, func() {
			for _, op := range th {
				var err error
				switch op.K {
				case "compact":
					err = c12Compact(w, h, "A", op.N)
				case "compactasync":
					if c12Worker(w).CompactAsync(h.DsName(op.DS), c12Strategy(op.N)) == nil && op.DS == "A" {
						acceptedA = true
					}
				case "batch":
					// implementation only: the model is applied by the oracle in both orders
					ds := w.Dsm.GetDataset(h.DsName(op.DS))
					var es []*server.Entity
					for _, x := range op.Ents {
						es = append(es, h.Entity(x.ID, w.Pool[x.C].C))
					}
					err = ds.StoreEntities(es)
				}
				if err != nil {
					errs[ti] = append(errs[ti], err.Error())
				}
			}
		})
	}
	timedOut := s.Run(bodies, nil, 30*time.Second)
	x := vsync.Collect(s, timedOut)
	if x.Fatal() || len(x.Panics) > 0 {
		return x
	}
	for _, el := range errs {
		for _, e := range el {
			x.Viol = append(x.Viol, "C12:sched-op-failed::an operation failed while compaction and a write ran concurrently: "+e)
		}
	}
	// oracle: the final observation equals the reference model after {compaction ; write} or {write ; compaction}
	ids := []string{"e1", "e2", "e3"}
	names := []string{"A", "B"}
	impl := h.FinalDigestImpl(names, ids)
	x.Outcome = impl
	var models []*model.World
	build := func(compactFirst bool) string {
		m := model.NewWorld()
		models = append(models, m)
		hh := &server.VHist{W: w, Tag: h.Tag, M: m}
		m.Create("A")
		m.Create("B")
		for _, op := range sc.Pre {
			switch op.K {
			case "dup":
				m.ForceDup("A", op.Ents[0].ID)
			case "compact":
				m.Compact("A")
			default:
				hh.ModelApply(op)
			}
		}
		apply := func(kind string) {
			for _, th := range sc.Threads {
				for _, op := range th {
					if op.K == kind {
						if kind == "compact" {
							m.Compact("A")
						} else {
							hh.ModelApply(op)
						}
					}
					if kind == "compact" && op.K == "compactasync" && op.DS == "A" && acceptedA {
						m.Compact("A")
					}
				}
			}
		}
		if compactFirst {
			apply("compact")
			apply("batch")
		} else {
			apply("batch")
			apply("compact")
		}
		return h.FinalDigestModel(m, names, ids)
	}
	a, b := build(true), build(false)
	if impl != a && impl != b {
		x.Viol = append(x.Viol, fmt.Sprintf("C12:sched-outcome::compaction racing a write ended in %s; compaction-then-write gives %s, write-then-compaction gives %s (a written version must never be lost or hidden)", impl, a, b))
	} else {
		// the whole observation (listing through the latest pointers, every paging of the feeds, latest-only feed,
		// relationship queries), not just the digest
		m := models[0]
		if impl != a {
			m = models[1]
		}
		chk := &server.VCheck{H: &server.VHist{W: w, Tag: h.Tag, M: m}, SkipKnownC03: true}
		chk.CheckLatest(ids)
		chk.CheckFeed()
		chk.CheckRelations(ids, server.VScopes(names))
		for _, v := range chk.Viol {
			cl := v.Key
			for i := 0; i < len(cl); i++ {
				if cl[i] == '|' {
					cl = cl[:i]
					break
				}
			}
			x.Viol = append(x.Viol, "C12:sched-"+cl+"::after compaction raced a write: "+v.What)
		}
	}
	return x
}

func init() {
	engine.RegisterWorker("sched-compact", func(args []string) {
		defer server.VWorkerWorldDestroy()
		engine.ServeWorker(server.VSchedWorker(c12RunSched))
	})
}

func c12Sched(r *engine.Run) {
	pool := model.Pool(0)
	pi := func(n string) int { return model.PoolIndex(pool, n) }
	w := func(c string) server.VOp {
		return server.VOp{K: "batch", DS: "A", Ents: []server.VEnt{{ID: "e1", C: pi(c)}}}
	}
	dup := server.VOp{K: "dup", Ents: []server.VEnt{{ID: "e1"}}}
	scs := []server.SchedScenario{
		{Name: "M1-compact-vs-write-on-removable-latest", Pre: []server.VOp{w("v1r2"), dup}, Threads: [][]server.VOp{{{K: "compact", N: 1}}, {w("v2r2")}}},
		{Name: "M2-compact-vs-equal-write", Pre: []server.VOp{w("v1"), w("v2"), dup}, Threads: [][]server.VOp{{{K: "compact", N: 100000}}, {w("v2")}}},
		{Name: "M3-compact-vs-write-no-duplicates", Pre: []server.VOp{w("v1r2"), w("v2r2")}, Threads: [][]server.VOp{{{K: "compact", N: 2}}, {w("v1r2")}}},
		// the worker has compacted the name before, the dataset was deleted and created again since
		{Name: "M5-compact-vs-write-after-recreate", Pre: []server.VOp{w("v1r2"), dup, {K: "compact", N: 1}, {K: "delete", DS: "A"}, {K: "create", DS: "A"}, w("v1r2"), dup},
			Threads: [][]server.VOp{{{K: "compact", N: 1}}, {w("v2r2")}}},
		// requests as the HTTP handler hands them to the worker: one for A, one for another dataset (refused while the
		// first runs, or the other way round), and a writer
		{Name: "M6-two-compaction-requests-vs-write", Pre: []server.VOp{w("v1r2"), dup},
			Threads: [][]server.VOp{{{K: "compactasync", DS: "A", N: 1}}, {{K: "compactasync", DS: "B", N: 1}}, {w("v2r2")}}},
		{Name: "M4-compact-vs-delete-write-middle-duplicate", Pre: []server.VOp{w("v1"), dup, w("v2")}, Threads: [][]server.VOp{{{K: "compact", N: 1}}, {w("dv1")}}},
	}
	for _, sc := range scs {
		bound, budget := 2, 60
		if !r.Quick() {
			bound, budget = 3, 900
		}
		if strings.HasPrefix(sc.Name, "M6") && r.Quick() {
			budget = 240
		}
		engine.RunSched(r, engine.SchedSpec{Name: sc.Name, WorkerArgs: []string{"worker", "sched-compact"}, Scenario: sc, Bound: bound, Horizon: 2500, BudgetS: budget})
	}
}

var _ = json.Marshal
