package web

// C16 — no request is served beyond what the caller's token and ACL grant.
//
// ENUM on the real echo router with the real middlewares (Auth.Middleware=local), the real ServiceCore
// and the real handlers: every registered (method, route) with its path parameters instantiated x
// every token shape x, for the valid client token, every ACL set of at most two entries from a
// lattice of resources/prefix patterns/actions/deny flags. The oracle is a reference decision function
// written from the statement. A second part enumerates every sequence of security mutations up to a
// depth and compares ServiceCore's registrations and ACLs before and after a re-initialisation from
// disk.

import (
	"crypto/rand"
	"crypto/rsa"
	"encoding/base64"
	"encoding/json"
	"fmt"
	"net/http"
	"net/http/httptest"
	"net/url"
	"os"
	"path/filepath"
	"runtime/debug"
	"sort"
	"strings"
	"time"

	"github.com/DataDog/datadog-go/v5/statsd"
	"github.com/golang-jwt/jwt/v4"
	"go.uber.org/zap"

	"github.com/mimiro-io/datahub/internal/conf"
	"github.com/mimiro-io/datahub/internal/content"
	"github.com/mimiro-io/datahub/internal/jobs"
	"github.com/mimiro-io/datahub/internal/security"
	"github.com/mimiro-io/datahub/internal/server"
	"github.com/mimiro-io/datahub/internal/verifrt/engine"
)

type aclEntry struct {
	Resource string `json:"r"`
	Action   string `json:"a"`
	Deny     bool   `json:"d,omitempty"`
}

func (e aclEntry) String() string {
	s := e.Action + " " + e.Resource
	if e.Deny {
		return "DENY " + s
	}
	return "allow " + s
}

var c16Resources = []string{"/datasets/a", "/datasets/a/entities", "/datasets/a*", "/datasets/*", "/jobs", "/job/*", "/*"}

func c16Lattice() []aclEntry {
	var l []aclEntry
	for _, r := range c16Resources {
		for _, a := range []string{"read", "write"} {
			for _, d := range []bool{false, true} {
				l = append(l, aclEntry{r, a, d})
			}
		}
	}
	return l
}

// c16ACLSets: the empty set, every singleton and every unordered pair, both orders of each pair
// (the implementation walks the list in order, so order is part of the configuration).
var c16Triples = os.Getenv("VERIF_C16_TRIPLES") != ""

func c16ACLSets() [][]aclEntry {
	lat := c16Lattice()
	sets := [][]aclEntry{{}}
	for _, e := range lat {
		sets = append(sets, []aclEntry{e})
	}
	for i := range lat {
		for j := range lat {
			if i != j {
				sets = append(sets, []aclEntry{lat[i], lat[j]})
			}
		}
	}
	if c16Triples {
		// thorough tier: every ordered triple of distinct entries as well
		for i := range lat {
			for j := range lat {
				for k := range lat {
					if i != j && j != k && i != k {
						sets = append(sets, []aclEntry{lat[i], lat[j], lat[k]})
					}
				}
			}
		}
	}
	return sets
}

// ---- reference decision (from the statement) ------------------------------

func c16Needed(method string) string {
	if method == http.MethodGet || method == http.MethodHead {
		return "read"
	}
	return "write"
}

func c16Matches(e aclEntry, path string) bool {
	if e.Resource == path {
		return true
	}
	if strings.HasSuffix(e.Resource, "*") {
		return strings.HasPrefix(path, e.Resource[:len(e.Resource)-1])
	}
	return false
}

// c16Decide returns "serve", "reject" or "open" (the statement does not decide: a deny entry for the
// other action sits on the path).
func c16Decide(acl []aclEntry, method, path string) string {
	needed := c16Needed(method)
	granted, open := false, false
	for _, e := range acl {
		if !c16Matches(e, path) {
			continue
		}
		if e.Deny {
			if e.Action == needed {
				return "reject"
			}
			open = true
			continue
		}
		if e.Action == needed || (needed == "read" && e.Action == "write") {
			granted = true
		}
	}
	if !granted {
		return "reject"
	}
	if open {
		return "open"
	}
	return "serve"
}

// ---- world -------------------------------------------------------------------

type c16World struct {
	dir     string
	jw      *jobs.JWorld
	core    *security.ServiceCore
	ws      *WebService
	tokens  map[string]string
	nodeKey *rsa.PrivateKey
}

const c16Client = "client-under-test"

func c16KeyDir() string {
	return filepath.Join(os.Getenv("VERIF_SCRATCH"), "c16-keys")
}

// c16PrepareKeys writes a node key pair (2048 bit; the hub would generate 4096 bit on first start,
// which only costs time) once per check run.
func c16PrepareKeys() error {
	dir := c16KeyDir()
	if err := os.MkdirAll(dir, 0o700); err != nil {
		return err
	}
	for _, name := range []string{"node_key", "other_key", "client_key"} {
		key, err := rsa.GenerateKey(rand.Reader, 2048)
		if err != nil {
			return err
		}
		priv, _ := security.ExportRsaPrivateKeyAsPem(key)
		pub, _ := security.ExportRsaPublicKeyAsPem(&key.PublicKey)
		if err := os.WriteFile(filepath.Join(dir, name), []byte(priv), 0o600); err != nil {
			return err
		}
		if err := os.WriteFile(filepath.Join(dir, name+".pub"), []byte(pub), 0o600); err != nil {
			return err
		}
	}
	return nil
}

func c16LoadKey(name string) *rsa.PrivateKey {
	b, err := os.ReadFile(filepath.Join(c16KeyDir(), name))
	if err != nil {
		panic(err)
	}
	k, err := security.ParseRsaPrivateKeyFromPem(b)
	if err != nil {
		panic(err)
	}
	return k
}

func c16CopyNodeKeys(secDir string) {
	_ = os.MkdirAll(secDir, 0o700)
	for _, n := range []string{"node_key", "node_key.pub"} {
		b, err := os.ReadFile(filepath.Join(c16KeyDir(), n))
		if err != nil {
			panic(err)
		}
		_ = os.WriteFile(filepath.Join(secDir, n), b, 0o600)
	}
}

func c16Open() *c16World {
	dir := server.VNewScratchDir("c16")
	w := &c16World{dir: dir, tokens: map[string]string{}}
	w.jw = jobs.JOpenWorld(dir)
	env := w.jw.W.Env
	env.Auth = &conf.AuthConfig{Middleware: "local"}
	env.AdminUserName = "admin"
	env.AdminPassword = "secret"
	env.NodeID = "n1"
	env.SecurityStorageLocation = filepath.Join(dir, "security")
	c16CopyNodeKeys(env.SecurityStorageLocation)
	logger := zap.NewNop().Sugar()
	w.core = security.NewServiceCore(env)
	pm := security.NewProviderManager(env, w.jw.W.Store, logger)
	tps := security.NewTokenProviders(logger, pm, w.core)
	ws, err := NewWebService(&ServiceContext{
		Env: env, Logger: logger, Statsd: &statsd.NoOpClient{}, SecurityCore: w.core,
		ContentService: content.NewContentService(env, w.jw.W.Store, &statsd.NoOpClient{}),
		DatasetManager: w.jw.W.Dsm, Store: w.jw.W.Store, EventBus: server.NoOpBus(), TokenProviders: tps,
		JobsScheduler: w.jw.Sched, Port: "0",
	})
	if err != nil {
		panic(err)
	}
	w.ws = ws
	w.nodeKey = c16LoadKey("node_key")
	w.ensureDatasets()
	w.makeTokens()
	return w
}

func (w *c16World) destroy() {
	w.jw.Destroy()
	_ = os.RemoveAll(w.dir)
}

func (w *c16World) ensureDatasets() {
	for _, n := range []string{"a", "ab", "b"} {
		if w.jw.W.Dsm.GetDataset(n) == nil {
			_, _ = w.jw.W.Dsm.CreateDataset(n, nil)
		}
	}
}

func (w *c16World) do(method, path, token string, body string) *httptest.ResponseRecorder {
	var req *http.Request
	if body != "" {
		req = httptest.NewRequest(method, path, strings.NewReader(body))
	} else {
		req = httptest.NewRequest(method, path, nil)
	}
	if token != "" {
		req.Header.Set("Authorization", token)
	}
	rec := httptest.NewRecorder()
	func() {
		// a panic that escapes echo (the JWT middleware runs outside the recover middleware) is caught by
		// net/http in the running hub: the connection is dropped and nothing is served
		defer func() {
			if r := recover(); r != nil {
				rec = httptest.NewRecorder()
				rec.Code = c16Aborted
			}
		}()
		w.ws.echo.ServeHTTP(rec, req)
	}()
	return rec
}

const c16Aborted = 599

// c16Fresh replaces the world after a served DELETE /datasets (it wipes the whole store).
func c16Fresh(w *c16World, rq c16Req, code int) *c16World {
	if rq.Method == http.MethodDelete && rq.Path == "/datasets" && code == http.StatusOK {
		w.destroy()
		c16W = nil
		return c16Get()
	}
	return w
}

func (w *c16World) sign(method jwt.SigningMethod, key interface{}, sub string, roles []string, iss, aud string, exp time.Time) string {
	claims := security.CustomClaims{}
	claims.Roles = roles
	claims.RegisteredClaims = jwt.RegisteredClaims{ExpiresAt: jwt.NewNumericDate(exp), Issuer: iss, Audience: jwt.ClaimStrings{aud}, Subject: sub}
	s, err := jwt.NewWithClaims(method, claims).SignedString(key)
	if err != nil {
		panic(err)
	}
	return s
}

// makeTokens: the valid tokens are obtained the way a caller obtains them (POST /security/token);
// the defective ones are crafted.
func (w *c16World) makeTokens() {
	node := "node:n1"
	// admin through the real endpoint
	form := url.Values{"grant_type": {"client_credentials"}, "client_id": {"admin"}, "client_secret": {"secret"}}
	req := httptest.NewRequest(http.MethodPost, "/security/token", strings.NewReader(form.Encode()))
	req.Header.Set("Content-Type", "application/x-www-form-urlencoded")
	rec := httptest.NewRecorder()
	w.ws.echo.ServeHTTP(rec, req)
	var tr TokenResponse
	_ = json.Unmarshal(rec.Body.Bytes(), &tr)
	if tr.AccessToken == "" {
		panic("no admin token from /security/token: " + rec.Body.String())
	}
	w.tokens["admin"] = "Bearer " + tr.AccessToken
	// client: register its public key, exchange a signed assertion
	ck := c16LoadKey("client_key")
	pub, _ := os.ReadFile(filepath.Join(c16KeyDir(), "client_key.pub"))
	w.core.RegisterClient(&security.ClientInfo{ClientID: c16Client, PublicKey: pub})
	assertion, err := security.CreateJWTForTokenRequest(c16Client, node, ck)
	if err != nil {
		panic(err)
	}
	form = url.Values{"grant_type": {"client_credentials"}, "client_assertion_type": {"urn:ietf:params:oauth:grant-type:jwt-bearer"}, "client_assertion": {assertion}}
	req = httptest.NewRequest(http.MethodPost, "/security/token", strings.NewReader(form.Encode()))
	req.Header.Set("Content-Type", "application/x-www-form-urlencoded")
	rec = httptest.NewRecorder()
	w.ws.echo.ServeHTTP(rec, req)
	tr = TokenResponse{}
	_ = json.Unmarshal(rec.Body.Bytes(), &tr)
	if tr.AccessToken == "" {
		panic("no client token from /security/token: " + rec.Body.String())
	}
	w.tokens["client"] = "Bearer " + tr.AccessToken
	// defects
	in15 := time.Now().Add(15 * time.Minute)
	other := c16LoadKey("other_key")
	pubPem, _ := os.ReadFile(filepath.Join(c16KeyDir(), "node_key.pub"))
	w.tokens["none"] = ""
	w.tokens["garbage"] = "Bearer not.a.jwt"
	w.tokens["basic-scheme"] = "Basic " + base64.StdEncoding.EncodeToString([]byte("admin:secret"))
	w.tokens["expired-admin"] = "Bearer " + w.sign(jwt.SigningMethodRS256, w.nodeKey, "admin", []string{"admin"}, node, node, time.Now().Add(-time.Minute))
	w.tokens["expired-client"] = "Bearer " + w.sign(jwt.SigningMethodRS256, w.nodeKey, c16Client, []string{"client"}, node, node, time.Now().Add(-time.Minute))
	w.tokens["other-key"] = "Bearer " + w.sign(jwt.SigningMethodRS256, other, "admin", []string{"admin"}, node, node, in15)
	w.tokens["wrong-issuer"] = "Bearer " + w.sign(jwt.SigningMethodRS256, w.nodeKey, "admin", []string{"admin"}, "node:n2", node, in15)
	w.tokens["wrong-audience"] = "Bearer " + w.sign(jwt.SigningMethodRS256, w.nodeKey, "admin", []string{"admin"}, node, "node:n2", in15)
	w.tokens["rs512"] = "Bearer " + w.sign(jwt.SigningMethodRS512, w.nodeKey, "admin", []string{"admin"}, node, node, in15)
	w.tokens["hs256-pubkey-as-secret"] = "Bearer " + w.sign(jwt.SigningMethodHS256, pubPem, "admin", []string{"admin"}, node, node, in15)
	w.tokens["alg-none"] = "Bearer " + w.sign(jwt.SigningMethodNone, jwt.UnsafeAllowNoneSignatureType, "admin", []string{"admin"}, node, node, in15)
	// a client assertion (signed by the client's own key) is not an access token
	w.tokens["client-assertion-as-access-token"] = "Bearer " + assertion
}

var c16Defects = []string{"none", "garbage", "basic-scheme", "expired-admin", "expired-client", "other-key", "wrong-issuer", "wrong-audience", "rs512", "hs256-pubkey-as-secret", "alg-none", "client-assertion-as-access-token"}

// ---- routes ------------------------------------------------------------------

type c16Req struct {
	Method string
	Path   string // the path the request addresses (what the ACL is about)
	Route  string
	Raw    string // the spelling on the wire when it differs (percent-encoded)
}

func (r c16Req) wire() string {
	if r.Raw != "" {
		return r.Raw
	}
	return r.Path
}

func c16Open_(path string) bool {
	for _, p := range []string{"/health", mimiroIcon, favIcon, "/api", "/static", "/security/token"} {
		if strings.HasPrefix(path, p) {
			return true
		}
	}
	return false
}

// requests: every registered (method, route), path parameters instantiated (dataset-like params from
// {a, ab, b}, the others with one value). DELETE /datasets (wipes the store) goes last.
func (w *c16World) requests() []c16Req {
	var out []c16Req
	seen := map[string]bool{}
	for _, r := range w.ws.echo.Routes() {
		if r.Method == "echo_route_not_found" {
			continue
		}
		paths := []string{r.Path}
		if strings.Contains(r.Path, ":") {
			paths = nil
			vals := []string{"x1"}
			if strings.Contains(r.Path, ":dataset") || strings.Contains(r.Path, ":ds") {
				vals = []string{"a", "ab", "b"}
			}
			for _, v := range vals {
				segs := strings.Split(r.Path, "/")
				for i, s := range segs {
					if strings.HasPrefix(s, ":") {
						segs[i] = v
					}
				}
				paths = append(paths, strings.Join(segs, "/"))
			}
		}
		for _, p := range paths {
			k := r.Method + " " + p
			if !seen[k] {
				seen[k] = true
				out = append(out, c16Req{Method: r.Method, Path: p, Route: r.Path})
				// the same address spelled with a percent-encoded letter: the ACL is about the path, not
				// about its spelling on the wire
				if strings.HasPrefix(p, "/datasets/a/") || p == "/datasets/a" || strings.HasPrefix(p, "/datasets/b/") || p == "/datasets/b" {
					raw := "/datasets/%6" + map[byte]string{'a': "1", 'b': "2"}[p[10]] + p[11:]
					out = append(out, c16Req{Method: r.Method, Path: p, Route: r.Path + " (escaped)", Raw: raw})
				}
			}
		}
	}
	sort.Slice(out, func(i, j int) bool {
		wi := out[i].Method == http.MethodDelete && out[i].Path == "/datasets"
		wj := out[j].Method == http.MethodDelete && out[j].Path == "/datasets"
		if wi != wj {
			return wj
		}
		if out[i].Path != out[j].Path {
			return out[i].Path < out[j].Path
		}
		return out[i].Method < out[j].Method
	})
	return out
}

func c16Rejected(code int) bool {
	return code == http.StatusUnauthorized || code == http.StatusForbidden || code == c16Aborted
}

// ---- worker ------------------------------------------------------------------

type c16Task struct {
	Kind string `json:"kind"` // tokens | acl | unregistered | persist
	From int    `json:"from"`
	To   int    `json:"to"`
}

type c16Result struct {
	Requests int                `json:"requests"`
	Served   int                `json:"served"`
	Rejected int                `json:"rejected"`
	Open     int                `json:"open"`
	Viol     []engine.Violation `json:"viol,omitempty"`
	Err      string             `json:"err,omitempty"`
	Distinct []string           `json:"distinct,omitempty"`
	Routes   int                `json:"routes"`
}

var c16W *c16World

func c16Get() *c16World {
	if c16W == nil {
		c16W = c16Open()
	}
	return c16W
}

func (res *c16Result) fail(key, what string, replay interface{}) {
	for _, v := range res.Viol {
		if v.Key == key {
			return
		}
	}
	if len(res.Viol) < 60 {
		res.Viol = append(res.Viol, engine.Violation{Key: key, What: what, Engine: "ENUM:c16", Replay: replay})
	}
}

func aclString(acl []aclEntry) string {
	var l []string
	for _, e := range acl {
		l = append(l, e.String())
	}
	return "[" + strings.Join(l, ", ") + "]"
}

func (w *c16World) setACL(acl []aclEntry) {
	var l []*security.AccessControl
	for _, e := range acl {
		l = append(l, &security.AccessControl{Resource: e.Resource, Action: e.Action, Deny: e.Deny})
	}
	if l == nil {
		l = []*security.AccessControl{}
	}
	w.core.SetClientAccessControls(c16Client, l)
}

func c16Run(t c16Task) (res c16Result) {
	defer func() {
		if r := recover(); r != nil {
			res.Err = fmt.Sprint("panic: ", r, " ", string(debug.Stack()))
			c16W = nil
		}
	}()
	w := c16Get()
	reqs := w.requests()
	res.Routes = len(reqs)
	switch t.Kind {
	case "tokens":
		// every token defect on every registered request; valid admin as the positive control
		for _, rq := range reqs {
			for _, d := range c16Defects {
				w.ensureDatasets()
				rec := w.do(rq.Method, rq.wire(), w.tokens[d], "")
				res.Requests++
				w = c16Fresh(w, rq, rec.Code)
				if c16Open_(rq.Path) {
					continue
				}
				if rq.Path == "/" {
					// the service banner carries no data; the statement's "documented open ones" includes it
					continue
				}
				if !c16Rejected(rec.Code) {
					res.Served++
					res.fail(fmt.Sprintf("C16:defective-token-served:%s|%s %s", d, rq.Method, rq.Route),
						fmt.Sprintf("%s %s with token defect %q answered %d (want 401/403)", rq.Method, rq.Path, d, rec.Code),
						map[string]interface{}{"method": rq.Method, "path": rq.Path, "token": d})
				} else {
					res.Rejected++
				}
			}
			w.ensureDatasets()
			rec := w.do(rq.Method, rq.wire(), w.tokens["admin"], "")
			res.Requests++
			if c16Rejected(rec.Code) && !c16Open_(rq.Path) {
				res.fail(fmt.Sprintf("C16:admin-rejected|%s %s", rq.Method, rq.Route),
					fmt.Sprintf("%s %s with a valid admin token answered %d", rq.Method, rq.Path, rec.Code), nil)
			}
			w = c16Fresh(w, rq, rec.Code)
		}
	case "acl":
		sets := c16ACLSets()
		for si := t.From; si < t.To && si < len(sets); si++ {
			acl := sets[si]
			w.setACL(acl)
			w.ensureDatasets()
			// dataset list under this ACL
			res.checkList(w, acl)
			for _, rq := range reqs {
				if c16Open_(rq.Path) || rq.Path == "/" {
					continue
				}
				rec := w.do(rq.Method, rq.wire(), w.tokens["client"], "")
				res.Requests++
				want := c16Decide(acl, rq.Method, rq.Path)
				got := "serve"
				if c16Rejected(rec.Code) {
					got = "reject"
				}
				res.Distinct = append(res.Distinct, fmt.Sprintf("%s %s %s", rq.Method, rq.Route, want))
				switch {
				case want == "open":
					res.Open++
				case want != got && want == "reject":
					cls := "no-grant"
					for _, e := range acl {
						if e.Deny && c16Matches(e, rq.Path) && e.Action == c16Needed(rq.Method) {
							cls = "deny-overridden"
						}
					}
					if cls == "no-grant" && c16Needed(rq.Method) == "write" {
						cls = "mutation-with-read-only"
					}
					res.fail(fmt.Sprintf("C16:served-beyond-acl:%s|%s %s|%s", cls, rq.Method, rq.Route, aclString(acl)),
						fmt.Sprintf("client with ACL %s: %s %s was served (status %d); the ACL does not grant %s on that path", aclString(acl), rq.Method, rq.wire(), rec.Code, c16Needed(rq.Method)),
						map[string]interface{}{"method": rq.Method, "path": rq.wire(), "acl": acl})
				case want != got:
					res.fail(fmt.Sprintf("C16:granted-but-rejected|%s %s|%s", rq.Method, rq.Route, aclString(acl)),
						fmt.Sprintf("client with ACL %s: %s %s was rejected (status %d) although an entry grants %s on that path and no deny entry matches", aclString(acl), rq.Method, rq.wire(), rec.Code, c16Needed(rq.Method)),
						map[string]interface{}{"method": rq.Method, "path": rq.wire(), "acl": acl})
				}
				if got == "serve" {
					res.Served++
				} else {
					res.Rejected++
				}
				if nw := c16Fresh(w, rq, rec.Code); nw != w {
					w = nw
					w.setACL(acl)
				}
			}
		}
		sort.Strings(res.Distinct)
		res.Distinct = uniq(res.Distinct)
	case "expiry":
		// a token that is presented while it is valid and again after it has expired (real time: its life is 2 s);
		// "valid, unexpired" is a statement about the moment of each request, not about the first one
		node := "node:n1"
		for _, who := range []struct {
			sub   string
			roles []string
		}{{"admin", []string{"admin"}}, {c16Client, []string{"client"}}} {
			w.setACL([]aclEntry{{"/*", "write", false}})
			probes := []c16Req{{Method: http.MethodGet, Path: "/datasets"}, {Method: http.MethodGet, Path: "/jobs"}, {Method: http.MethodPost, Path: "/datasets/ab"}}
			// the valid phase has to fit into the token's life; on a stalled machine it is repeated with a longer one
			// (not being able to establish it says nothing about the hub and is not reported as a violation)
			tok := ""
			var life time.Duration
			for _, l := range []time.Duration{2 * time.Second, 8 * time.Second, 30 * time.Second} {
				issued := time.Now()
				t := "Bearer " + w.sign(jwt.SigningMethodRS256, w.nodeKey, who.sub, who.roles, node, node, issued.Add(l))
				served := 0
				for _, rq := range probes {
					rec := w.do(rq.Method, rq.Path, t, "")
					res.Requests++
					if !c16Rejected(rec.Code) {
						served++
					}
				}
				if served == len(probes) && time.Since(issued) < l-time.Second {
					tok, life = t, l-time.Since(issued)
					break
				}
			}
			if tok == "" {
				res.Distinct = append(res.Distinct, "expiry: valid phase not established for "+who.sub)
				continue
			}
			time.Sleep(life + 1500*time.Millisecond)
			for _, rq := range probes {
				rec := w.do(rq.Method, rq.Path, tok, "")
				res.Requests++
				if !c16Rejected(rec.Code) {
					res.Served++
					res.fail("C16:expired-token-served-after-use|"+who.sub+" "+rq.Method+" "+rq.Path, fmt.Sprintf("%s %s with a token of %s that was accepted while valid and has expired since answered %d (want 401/403)", rq.Method, rq.Path, who.sub, rec.Code), map[string]interface{}{"method": rq.Method, "path": rq.Path})
				} else {
					res.Rejected++
				}
			}
		}
	case "persist":
		res.persist(t)
	}
	return
}

func uniq(l []string) []string {
	var out []string
	for i, s := range l {
		if i == 0 || s != l[i-1] {
			out = append(out, s)
		}
	}
	return out
}

// checkList: GET /datasets lists exactly the datasets the same rule makes readable, each once.
func (res *c16Result) checkList(w *c16World, acl []aclEntry) {
	if c16Decide(acl, http.MethodGet, "/datasets") != "serve" {
		return
	}
	rec := w.do(http.MethodGet, "/datasets", w.tokens["client"], "")
	res.Requests++
	if rec.Code != http.StatusOK {
		return // the matrix part reports a wrong rejection
	}
	var names []struct {
		Name string `json:"Name"`
	}
	if err := json.Unmarshal(rec.Body.Bytes(), &names); err != nil {
		res.fail("C16:dataset-list-undecodable", "GET /datasets answer undecodable: "+err.Error(), nil)
		return
	}
	count := map[string]int{}
	for _, n := range names {
		count[n.Name]++
	}
	for _, n := range []string{"a", "ab", "b", "core.Dataset"} {
		want := c16Decide(acl, http.MethodGet, "/datasets/"+n)
		switch {
		case want == "serve" && count[n] != 1:
			res.fail(fmt.Sprintf("C16:dataset-list:readable-listed-%d-times|%s", count[n], aclString(acl)),
				fmt.Sprintf("client with ACL %s: GET /datasets lists %s %d times (readable under the ACL: want exactly once)", aclString(acl), n, count[n]), map[string]interface{}{"acl": acl})
		case want == "reject" && count[n] != 0:
			res.fail(fmt.Sprintf("C16:dataset-list:unreadable-listed|%s", aclString(acl)),
				fmt.Sprintf("client with ACL %s: GET /datasets lists %s although the ACL does not grant reading /datasets/%s", aclString(acl), n, n), map[string]interface{}{"acl": acl})
		}
	}
}

// ---- persistence ---------------------------------------------------------------

type secOp struct {
	K   string     `json:"k"` // reg | unreg | set | del
	C   string     `json:"c"`
	ACL []aclEntry `json:"acl,omitempty"`
}

func c16SecAlphabet() []secOp {
	s1 := []aclEntry{{"/datasets/a", "read", false}}
	s2 := []aclEntry{{"/datasets/*", "write", false}, {"/datasets/b", "write", true}}
	return []secOp{
		{K: "reg", C: "c1"}, {K: "reg", C: "c2"}, {K: "unreg", C: "c1"},
		{K: "set", C: "c1", ACL: s1}, {K: "set", C: "c1", ACL: s2}, {K: "set", C: "c2", ACL: s1}, {K: "set", C: "c2", ACL: []aclEntry{}},
		{K: "del", C: "c1"}, {K: "del", C: "c2"},
	}
}

func c16SecSnapshot(core *security.ServiceCore) string {
	cl := core.GetClients()
	var l []string
	for id, c := range cl {
		l = append(l, fmt.Sprintf("client %s key=%d deleted=%v", id, len(c.PublicKey), c.Deleted))
	}
	for id, acl := range core.GetAllAccessControls() {
		var es []string
		for _, e := range acl {
			es = append(es, fmt.Sprintf("%s/%s/%v", e.Resource, e.Action, e.Deny))
		}
		l = append(l, fmt.Sprintf("acl %s = [%s]", id, strings.Join(es, " ")))
	}
	sort.Strings(l)
	return strings.Join(l, "; ")
}

func (res *c16Result) persist(t c16Task) {
	alpha := c16SecAlphabet()
	n := len(alpha)
	// sequence index -> ops (lengths 1..3, mixed radix)
	decode := func(idx int) []secOp {
		for length := 1; length <= 3; length++ {
			total := 1
			for i := 0; i < length; i++ {
				total *= n
			}
			if idx < total {
				var ops []secOp
				for i := 0; i < length; i++ {
					ops = append(ops, alpha[idx%n])
					idx /= n
				}
				return ops
			}
			idx -= total
		}
		return nil
	}
	pub, _ := os.ReadFile(filepath.Join(c16KeyDir(), "client_key.pub"))
	for idx := t.From; idx < t.To; idx++ {
		ops := decode(idx)
		if ops == nil {
			break
		}
		dir := server.VNewScratchDir("c16p")
		c16CopyNodeKeys(dir)
		env := &conf.Config{Logger: zap.NewNop().Sugar(), SecurityStorageLocation: dir, AdminUserName: "admin", AdminPassword: "secret", NodeID: "n1"}
		core := security.NewServiceCore(env)
		for _, op := range ops {
			switch op.K {
			case "reg":
				core.RegisterClient(&security.ClientInfo{ClientID: op.C, PublicKey: pub})
			case "unreg":
				core.RegisterClient(&security.ClientInfo{ClientID: op.C, Deleted: true})
			case "set":
				var l []*security.AccessControl
				for _, e := range op.ACL {
					l = append(l, &security.AccessControl{Resource: e.Resource, Action: e.Action, Deny: e.Deny})
				}
				if l == nil {
					l = []*security.AccessControl{}
				}
				core.SetClientAccessControls(op.C, l)
			case "del":
				core.DeleteClientAccessControls(op.C)
			}
		}
		before := c16SecSnapshot(core)
		again := security.NewServiceCore(env)
		after := c16SecSnapshot(again)
		res.Requests++
		res.Distinct = append(res.Distinct, before)
		if before != after {
			b, _ := json.Marshal(ops)
			last := ops[len(ops)-1]
			res.fail(fmt.Sprintf("C16:security-state-not-persisted:last=%s|%s", last.K, b),
				fmt.Sprintf("after security operations %s the hub has {%s}; re-initialised from disk it has {%s}", b, before, after),
				map[string]interface{}{"ops": ops})
		}
		_ = os.RemoveAll(dir)
	}
	sort.Strings(res.Distinct)
	res.Distinct = uniq(res.Distinct)
}

func init() {
	engine.RegisterWorker("c16", func(args []string) {
		defer func() {
			if c16W != nil {
				c16W.destroy()
			}
		}()
		engine.ServeWorker(func(task []byte) interface{} {
			var t c16Task
			if err := json.Unmarshal(task, &t); err != nil {
				return c16Result{Err: err.Error()}
			}
			return c16Run(t)
		})
	})
	engine.RegisterCheck("C16", func(r *engine.Run) {
		r.Rule = "ENUM on the real router + middlewares + ServiceCore (Auth.Middleware=local): every registered (method, route) with path parameters instantiated from {a,ab,b} x 12 token defects (+ valid admin as control); a token used while valid and again after its two seconds of life have passed; for the valid client token (obtained through POST /security/token) every ACL list of at most two (thorough: three) entries (ordered) from the lattice 7 resources x {read,write} x {allow,deny} x every registered request, judged by a reference decision function written from the statement (write needed for every method other than GET/HEAD; a matching deny for the needed action always rejects; a deny for the other action leaves the case open); GET /datasets must list exactly the readable datasets once each; every sequence of at most 3 security mutations over a 9-op alphabet is re-initialised from disk and compared. distinct = distinct (method, route, expected decision) triples + distinct security states"
		r.Assumptions = []string{"rejected = HTTP 401 or 403 (no handler of a protected route returns these itself)", "OPA path not configured: the ACL path decides", "external JWKS issuers are outside (no network)", "the service banner at / is treated as a documented open route"}
		if !r.Quick() {
			os.Setenv("VERIF_C16_TRIPLES", "1") // inherited by the workers
			c16Triples = true
		}
		if err := c16PrepareKeys(); err != nil {
			r.Cap("cannot prepare keys: " + err.Error())
			return
		}
		nsets := len(c16ACLSets())
		var tasks []json.RawMessage
		var kinds []c16Task
		add := func(t c16Task) {
			b, _ := json.Marshal(t)
			tasks = append(tasks, b)
			kinds = append(kinds, t)
		}
		add(c16Task{Kind: "tokens"})
		add(c16Task{Kind: "expiry"})
		chunk := 12
		if !r.Quick() {
			chunk = 100
		}
		for i := 0; i < nsets; i += chunk {
			add(c16Task{Kind: "acl", From: i, To: i + chunk})
		}
		n := len(c16SecAlphabet())
		depth := 3
		if r.Quick() {
			depth = 3
		}
		total := 0
		p := 1
		for l := 1; l <= depth; l++ {
			p *= n
			total += p
		}
		for i := 0; i < total; i += 60 {
			to := i + 60
			if to > total {
				to = total
			}
			add(c16Task{Kind: "persist", From: i, To: to})
		}
		pl := &engine.Pool{Args: []string{"worker", "c16"}, Timeout: 300 * time.Second}
		results := pl.Do(tasks, nil)
		served, rejected, open, requests, routes := 0, 0, 0, 0, 0
		for i, rr := range results {
			if rr.Err != "" {
				r.Cap(fmt.Sprintf("task %v: worker problem %s", kinds[i], rr.Err))
				continue
			}
			var cr c16Result
			if err := json.Unmarshal(rr.Out, &cr); err != nil {
				r.Cap("undecodable worker result")
				continue
			}
			if cr.Err != "" {
				r.Cap(fmt.Sprintf("task %v: harness problem %s", kinds[i], cr.Err))
				continue
			}
			served += cr.Served
			rejected += cr.Rejected
			open += cr.Open
			requests += cr.Requests
			if cr.Routes > routes {
				routes = cr.Routes
			}
			for _, d := range cr.Distinct {
				r.AddDistinct(d)
			}
			for _, v := range cr.Viol {
				r.AddViolation(v)
			}
		}
		r.Evaluations += requests
		r.Traces += requests
		r.States += nsets
		r.Transitions += requests
		r.AddSample(map[string]interface{}{"acl": c16ACLSets()[30], "request": "PATCH /datasets/a", "expected": c16Decide(c16ACLSets()[30], "PATCH", "/datasets/a")})
		r.AddSample(map[string]interface{}{"security_ops": c16SecAlphabet()[:3]})
		r.AddPart(map[string]interface{}{"engine": "ENUM", "search": "c16", "registered_requests": routes, "acl_sets": nsets, "token_defects": len(c16Defects),
			"requests": requests, "served": served, "rejected": rejected, "left_open_by_statement": open, "security_sequences": total})
	})
}
