package web

// C15 — what is POSTed is what is GET back; malformed payloads are rejected, not fatal.
//
// ENUM, three families, all on the real parser / the real handlers:
//   round trip   every document of a generated box of valid UDA payloads (id forms x value shapes x ref
//                shapes x deleted x second entity): ParseStream(serialise(x)) = denotation(x); POST through
//                the real handler then GET entities and GET changes, parsed back with the real parser =
//                denotation(x); same for transaction documents.
//   mutations    for every seed document: every byte prefix, every single-token substitution from a menu
//                of wrong types, token deletion and swap, at every token position; judged by a reference
//                recogniser written from the specification (valid / invalid / left open).
//   small texts  every string over a 10-symbol alphabet up to a length bound, parser level.
// Oracle for anything that is not a valid payload: an error is returned, no panic, no hang, and (handler
// level) the dataset holds nothing assembled from the malformed element.

import (
	"bytes"
	"encoding/json"
	"fmt"
	"net/http"
	"net/http/httptest"
	"os"
	"reflect"
	"runtime/debug"
	"sort"
	"strings"
	"time"

	"github.com/DataDog/datadog-go/v5/statsd"
	"go.uber.org/zap"

	"github.com/mimiro-io/datahub/internal/conf"
	"github.com/mimiro-io/datahub/internal/content"
	"github.com/mimiro-io/datahub/internal/jobs"
	"github.com/mimiro-io/datahub/internal/security"
	"github.com/mimiro-io/datahub/internal/server"
	"github.com/mimiro-io/datahub/internal/verifrt/engine"
)

// ---- world ---------------------------------------------------------------------

type c15World struct {
	dir string
	jw  *jobs.JWorld
	ws  *WebService
	n   int
}

var c15W *c15World

func c15Get() *c15World {
	if c15W != nil && c15W.n > 4000 {
		c15W.destroy()
		c15W = nil
	}
	if c15W == nil {
		c15W = c15New()
	}
	return c15W
}

// c15New opens a hub of its own: store, dataset manager, runner, scheduler and the real web service (no auth).
func c15New() *c15World {
	dir := server.VNewScratchDir("c15")
	w := &c15World{dir: dir}
	w.jw = jobs.JOpenWorld(dir)
	env := w.jw.W.Env
	env.Auth = &conf.AuthConfig{Middleware: "noop"}
	logger := zap.NewNop().Sugar()
	pm := security.NewProviderManager(env, w.jw.W.Store, logger)
	tps := security.NewTokenProviders(logger, pm, nil)
	ws, err := NewWebService(&ServiceContext{
		Env: env, Logger: logger, Statsd: &statsd.NoOpClient{},
		ContentService: content.NewContentService(env, w.jw.W.Store, &statsd.NoOpClient{}),
		DatasetManager: w.jw.W.Dsm, Store: w.jw.W.Store, EventBus: server.NoOpBus(), TokenProviders: tps,
		JobsScheduler: w.jw.Sched, Port: "0",
	})
	if err != nil {
		panic(err)
	}
	w.ws = ws
	return w
}

func (w *c15World) destroy() {
	w.jw.Destroy()
	_ = os.RemoveAll(w.dir)
}

func (w *c15World) newDataset() string {
	w.n++
	name := fmt.Sprintf("d%d", w.n)
	if _, err := w.jw.W.Dsm.CreateDataset(name, nil); err != nil {
		panic(err)
	}
	return name
}

func (w *c15World) request(method, path, body string) (code int, out []byte, panicked string) {
	var req *http.Request
	if body != "" || method == http.MethodPost {
		req = httptest.NewRequest(method, path, strings.NewReader(body))
		req.Header.Set("Content-Type", "application/json")
	} else {
		req = httptest.NewRequest(method, path, nil)
	}
	rec := httptest.NewRecorder()
	func() {
		defer func() {
			if r := recover(); r != nil {
				panicked = fmt.Sprint(r)
			}
		}()
		w.ws.echo.ServeHTTP(rec, req)
	}()
	return rec.Code, rec.Body.Bytes(), panicked
}

// ---- denotation ------------------------------------------------------------------

// dEnt is what an entity element denotes (and what an observed entity is normalised to): full URIs.
type dEnt struct {
	ID      string                 `json:"id"`
	Props   map[string]interface{} `json:"props"`
	Refs    map[string]interface{} `json:"refs"`
	Deleted bool                   `json:"deleted"`
}

func (d dEnt) String() string { b, _ := json.Marshal(d); return string(b) }

func expandWith(ns map[string]string, v string) (string, bool) {
	if v == "" {
		return "", false
	}
	if strings.HasPrefix(v, "http://") || strings.HasPrefix(v, "https://") {
		// the hub splits at the last # or /; anything after the scheme has a /
		return v, true
	}
	i := strings.Index(v, ":")
	if i < 0 {
		e, ok := ns["_"]
		if !ok || e == "" {
			return "", false
		}
		return e + v, true
	}
	e, ok := ns[v[:i]]
	if !ok || e == "" {
		return "", false
	}
	return e + v[i+1:], true
}

// denoteEntity interprets a decoded JSON object as an entity under ns.
// class: "valid", "invalid" (must be rejected), "open" (the specification does not settle it).
func denoteEntity(ns map[string]string, m map[string]interface{}, nested bool) (d dEnt, class string) {
	d = dEnt{Props: map[string]interface{}{}, Refs: map[string]interface{}{}}
	class = "valid"
	worse := func(c string) {
		if c == "invalid" || (c == "open" && class == "valid") {
			class = c
		}
	}
	for k := range m {
		switch k {
		case "id", "recorded", "deleted", "props", "refs":
		case "internalId":
			worse("open")
		default:
			worse("open")
		}
	}
	idv, has := m["id"]
	if !has {
		worse("open")
	} else if s, ok := idv.(string); !ok {
		worse("invalid")
	} else if s == "@continuation" || s == "@context" {
		worse("open")
	} else if u, ok := expandWith(ns, s); !ok {
		worse("invalid")
	} else {
		d.ID = u
	}
	if v, has := m["recorded"]; has {
		if _, ok := v.(float64); !ok {
			worse("invalid")
		}
	}
	if v, has := m["deleted"]; has {
		if b, ok := v.(bool); !ok {
			worse("invalid")
		} else {
			d.Deleted = b
		}
	}
	if v, has := m["props"]; has {
		pm, ok := v.(map[string]interface{})
		if !ok {
			worse("invalid")
		} else {
			for k, pv := range pm {
				ku, ok := expandWith(ns, k)
				if !ok {
					worse("invalid")
					continue
				}
				nv, c := denoteValue(ns, pv)
				worse(c)
				d.Props[ku] = nv
			}
		}
	}
	if v, has := m["refs"]; has {
		rm, ok := v.(map[string]interface{})
		if !ok {
			worse("invalid")
		} else {
			for k, rv := range rm {
				ku, ok := expandWith(ns, k)
				if !ok {
					worse("invalid")
					continue
				}
				switch t := rv.(type) {
				case string:
					u, ok := expandWith(ns, t)
					if !ok {
						worse("invalid")
					}
					d.Refs[ku] = u
				case []interface{}:
					l := []interface{}{}
					for _, x := range t {
						s, ok := x.(string)
						if !ok {
							worse("invalid")
							continue
						}
						u, ok := expandWith(ns, s)
						if !ok {
							worse("invalid")
						}
						l = append(l, u)
					}
					d.Refs[ku] = l
				default:
					worse("invalid")
				}
			}
		}
	}
	return
}

func denoteValue(ns map[string]string, v interface{}) (interface{}, string) {
	switch t := v.(type) {
	case nil:
		return nil, "open" // the hub drops null properties; the specification is silent
	case string, float64, bool:
		return t, "valid"
	case []interface{}:
		class := "valid"
		l := []interface{}{}
		for _, x := range t {
			nv, c := denoteValue(ns, x)
			if c == "invalid" || (c == "open" && class == "valid") {
				class = c
			}
			l = append(l, nv)
		}
		return l, class
	case map[string]interface{}:
		d, c := denoteEntity(ns, t, true)
		return map[string]interface{}{"id": d.ID, "props": d.Props, "refs": d.Refs, "deleted": d.Deleted}, c
	}
	return nil, "invalid"
}

// classifyStream is the reference recogniser for an entity-stream payload.
// leading = number of entity elements before the first invalid element (only meaningful for "invalid").
func classifyStream(text string) (class string, ents []dEnt, why string) {
	dec := json.NewDecoder(strings.NewReader(text))
	var v interface{}
	if err := dec.Decode(&v); err != nil {
		return "invalid", nil, "not JSON: " + err.Error()
	}
	rest, _ := readAll(dec.Buffered())
	off := int(dec.InputOffset())
	tail := string(rest)
	if off <= len(text) {
		tail = text[off:]
	}
	trailing := strings.TrimSpace(tail) != ""
	arr, ok := v.([]interface{})
	if !ok {
		return "invalid", nil, "top level is not an array"
	}
	if len(arr) == 0 {
		return "invalid", nil, "no context element"
	}
	ctx, ok := arr[0].(map[string]interface{})
	if !ok {
		return "invalid", nil, "first element is not an object"
	}
	if id, _ := ctx["id"].(string); id != "@context" {
		return "invalid", nil, "first element is not a context"
	}
	ns := map[string]string{}
	nsv, has := ctx["namespaces"]
	open := trailing
	if !has {
		open = true
	} else {
		nm, ok := nsv.(map[string]interface{})
		if !ok {
			return "invalid", nil, "namespaces is not an object"
		}
		for k, x := range nm {
			s, ok := x.(string)
			if !ok {
				return "invalid", nil, "namespace expansion is not a string"
			}
			ns[k] = s
		}
	}
	for k := range ctx {
		if k != "id" && k != "namespaces" {
			open = true
		}
	}
	for i, el := range arr[1:] {
		m, ok := el.(map[string]interface{})
		if !ok {
			return "invalid", ents, fmt.Sprintf("element %d is not an object", i+1)
		}
		if id, _ := m["id"].(string); id == "@continuation" {
			// a continuation element: token only, last
			if i != len(arr)-2 {
				open = true
			}
			for k, tv := range m {
				if k != "id" && k != "token" {
					open = true
				}
				if _, isString := tv.(string); !isString {
					open = true // a token that is not a string: not settled
				}
			}
			continue
		}
		d, c := denoteEntity(ns, m, false)
		if c == "invalid" {
			return "invalid", ents, fmt.Sprintf("element %d is not a valid entity", i+1)
		}
		if c == "open" {
			open = true
		}
		ents = append(ents, d)
	}
	if open {
		return "open", ents, "specification does not settle this document"
	}
	return "valid", ents, ""
}

func readAll(r interface{ Read([]byte) (int, error) }) ([]byte, error) {
	var buf bytes.Buffer
	_, err := buf.ReadFrom(r)
	return buf.Bytes(), err
}

// classifyTxn is the reference recogniser for a transaction document.
func classifyTxn(text string) (class string, parts map[string][]dEnt, why string) {
	dec := json.NewDecoder(strings.NewReader(text))
	var v interface{}
	if err := dec.Decode(&v); err != nil {
		return "invalid", nil, "not JSON"
	}
	off := int(dec.InputOffset())
	open := off <= len(text) && strings.TrimSpace(text[off:]) != ""
	obj, ok := v.(map[string]interface{})
	if !ok {
		return "invalid", nil, "top level is not an object"
	}
	// the first key must be the context
	d2 := json.NewDecoder(strings.NewReader(text))
	_, _ = d2.Token()
	first, _ := d2.Token()
	if fk, _ := first.(string); fk != "@context" {
		// the parser takes the value of the first key as the context whatever the key is called
		return "open", nil, "the first key is not @context"
	}
	ctx, ok := obj["@context"].(map[string]interface{})
	if !ok {
		return "invalid", nil, "context is not an object"
	}
	ns := map[string]string{}
	nsv, has := ctx["namespaces"]
	if !has {
		open = true
	} else {
		nm, ok := nsv.(map[string]interface{})
		if !ok {
			return "invalid", nil, "namespaces is not an object"
		}
		for k, x := range nm {
			s, ok := x.(string)
			if !ok {
				return "invalid", nil, "namespace expansion is not a string"
			}
			ns[k] = s
		}
	}
	parts = map[string][]dEnt{}
	for k, val := range obj {
		if k == "@context" {
			continue
		}
		arr, ok := val.([]interface{})
		if !ok {
			return "invalid", nil, "dataset " + k + " is not an array"
		}
		parts[k] = []dEnt{}
		for _, el := range arr {
			m, ok := el.(map[string]interface{})
			if !ok {
				return "invalid", nil, "element of " + k + " is not an object"
			}
			d, c := denoteEntity(ns, m, false)
			if c == "invalid" {
				return "invalid", nil, "invalid entity in " + k
			}
			if c == "open" {
				open = true
			}
			parts[k] = append(parts[k], d)
		}
	}
	if open {
		return "open", parts, ""
	}
	return "valid", parts, ""
}

// ---- observation -------------------------------------------------------------------

func (w *c15World) expandCurie(c string) string {
	if c == "" {
		return ""
	}
	u, err := w.jw.W.Store.ExpandCurie(c)
	if err != nil {
		return "!unexpandable:" + c
	}
	return u
}

func (w *c15World) normEntity(e *server.Entity) dEnt {
	d := dEnt{ID: w.expandCurie(e.ID), Props: map[string]interface{}{}, Refs: map[string]interface{}{}, Deleted: e.IsDeleted}
	for k, v := range e.Properties {
		d.Props[w.expandCurie(k)] = w.normValue(v)
	}
	for k, v := range e.References {
		switch t := v.(type) {
		case string:
			d.Refs[w.expandCurie(k)] = w.expandCurie(t)
		case []string:
			l := []interface{}{}
			for _, x := range t {
				l = append(l, w.expandCurie(x))
			}
			d.Refs[w.expandCurie(k)] = l
		case []interface{}:
			l := []interface{}{}
			for _, x := range t {
				if s, ok := x.(string); ok {
					l = append(l, w.expandCurie(s))
				} else {
					l = append(l, x)
				}
			}
			d.Refs[w.expandCurie(k)] = l
		default:
			d.Refs[w.expandCurie(k)] = fmt.Sprintf("!%T", v)
		}
	}
	return d
}

func (w *c15World) normValue(v interface{}) interface{} {
	switch t := v.(type) {
	case *server.Entity:
		d := w.normEntity(t)
		return map[string]interface{}{"id": d.ID, "props": d.Props, "refs": d.Refs, "deleted": d.Deleted}
	case []interface{}:
		l := []interface{}{}
		for _, x := range t {
			l = append(l, w.normValue(x))
		}
		return l
	case int:
		return float64(t)
	default:
		return v
	}
}

func dEq(a, b dEnt) bool {
	ja, _ := json.Marshal(a)
	jb, _ := json.Marshal(b)
	var x, y interface{}
	_ = json.Unmarshal(ja, &x)
	_ = json.Unmarshal(jb, &y)
	return reflect.DeepEqual(x, y)
}

func dListEq(a, b []dEnt) bool {
	if len(a) != len(b) {
		return false
	}
	for i := range a {
		if !dEq(a[i], b[i]) {
			return false
		}
	}
	return true
}

type parseOutcome struct {
	panicked string
	hung     bool
	err      error
	ents     []*server.Entity
	txn      *server.Transaction
}

// runParser calls the real parser with a watchdog (a parser that never returns is a verdict, decided by
// the parser making no progress on a finite input, not by a tight deadline: 20 s for a few hundred bytes).
func (w *c15World) runParser(text string, txn bool) parseOutcome {
	ch := make(chan parseOutcome, 1)
	go func() {
		var o parseOutcome
		defer func() {
			if r := recover(); r != nil {
				o.panicked = fmt.Sprint(r)
			}
			ch <- o
		}()
		esp := server.NewEntityStreamParser(w.jw.W.Store)
		if txn {
			o.txn, o.err = esp.ParseTransaction(strings.NewReader(text))
		} else {
			o.err = esp.ParseStream(strings.NewReader(text), func(e *server.Entity) error {
				o.ents = append(o.ents, e)
				return nil
			})
		}
	}()
	select {
	case o := <-ch:
		return o
	case <-time.After(20 * time.Second):
		return parseOutcome{hung: true}
	}
}

// ---- result bookkeeping ----------------------------------------------------------------

type c15Result struct {
	Cases    int                `json:"cases"`
	Valid    int                `json:"valid"`
	Invalid  int                `json:"invalid"`
	Open     int                `json:"open"`
	Viol     []engine.Violation `json:"viol,omitempty"`
	Err      string             `json:"err,omitempty"`
	Distinct []string           `json:"distinct,omitempty"`
	Sample   string             `json:"sample,omitempty"`
}

func (res *c15Result) fail(key, what string, text string) {
	for _, v := range res.Viol {
		if v.Key == key {
			return
		}
	}
	if len(res.Viol) < 80 {
		res.Viol = append(res.Viol, engine.Violation{Key: key, What: what, Engine: "ENUM:c15", Replay: map[string]interface{}{"worker": []string{"worker", "c15"}, "text": text}})
	}
}

func short(s string) string {
	if len(s) > 160 {
		return s[:160] + "..."
	}
	return s
}

// judgeParse applies the parser-level oracle to one text. family/label go into the violation key.
func (res *c15Result) judgeParse(w *c15World, family, label, text string, txn bool) (class string) {
	res.Cases++
	var ents []dEnt
	var parts map[string][]dEnt
	var why string
	if txn {
		class, parts, why = classifyTxn(text)
	} else {
		class, ents, why = classifyStream(text)
	}
	switch class {
	case "valid":
		res.Valid++
	case "invalid":
		res.Invalid++
	default:
		res.Open++
	}
	o := w.runParser(text, txn)
	kind := "stream"
	if txn {
		kind = "txn"
	}
	if o.hung {
		res.fail(fmt.Sprintf("C15:parser-hangs:%s:%s|%s", kind, family, label), fmt.Sprintf("parser does not return on %q", short(text)), text)
		return
	}
	if o.panicked != "" {
		res.fail(fmt.Sprintf("C15:parser-panics:%s:%s|%s", kind, family, label),
			fmt.Sprintf("%s parser panics (%s) on %q [%s: %s]", kind, o.panicked, short(text), class, why), text)
		return
	}
	switch class {
	case "invalid":
		if o.err == nil {
			res.fail(fmt.Sprintf("C15:malformed-accepted:%s:%s|%s", kind, family, label),
				fmt.Sprintf("%s parser returns no error for %q, which is not a valid payload (%s)", kind, short(text), why), text)
		}
	case "valid":
		if o.err != nil {
			res.fail(fmt.Sprintf("C15:valid-rejected:%s:%s|%s", kind, family, label),
				fmt.Sprintf("%s parser rejects the valid payload %q: %v", kind, short(text), o.err), text)
			return
		}
		if txn {
			got := map[string][]dEnt{}
			for n, l := range o.txn.DatasetEntities {
				got[n] = []dEnt{}
				for _, e := range l {
					got[n] = append(got[n], w.normEntity(e))
				}
			}
			ok := len(got) == len(parts)
			for n, l := range parts {
				if !dListEq(got[n], l) {
					ok = false
				}
			}
			if !ok {
				res.fail(fmt.Sprintf("C15:parse-differs:%s:%s|%s", kind, family, label),
					fmt.Sprintf("transaction %q parses to %v, denotes %v", short(text), got, parts), text)
			}
		} else {
			var got []dEnt
			for _, e := range o.ents {
				if e.ID == "@continuation" {
					continue
				}
				got = append(got, w.normEntity(e))
			}
			if !dListEq(got, ents) {
				res.fail(fmt.Sprintf("C15:parse-differs:%s:%s|%s", kind, family, label),
					fmt.Sprintf("payload %q parses to %v, denotes %v", short(text), got, ents), text)
			}
		}
	}
	return
}

// ---- generators ------------------------------------------------------------------------

var c15NS = map[string]string{"_": "http://d/", "ex": "http://ex/ns#", "s": "https://sec/", "httpx": "http://hx/", "ns3": "http://other-hub/3/"}

func ctxJSON() string {
	return `{"id":"@context","namespaces":{"_":"http://d/","ex":"http://ex/ns#","s":"https://sec/","httpx":"http://hx/","ns3":"http://other-hub/3/"}}`
}

// value shapes (JSON text), depth <= 2
func c15Values() []string {
	base := []string{`1`, `2.5`, `-3`, `12345678901234567890`, `"s"`, `""`, `"a:b"`, `"http://x/y"`, `true`, `false`}
	out := append([]string{}, base...)
	out = append(out, `[1,"s"]`, `[]`, `[true,2.5]`, `[[1],"x"]`, `[[],[[2]]]`,
		`{"id":"n1","props":{"w":1},"refs":{}}`,
		`{"id":"ex:n2","props":{"ex:w":"v","k":[1,2]},"refs":{"r":"t1"}}`,
		`{"id":"http://abs/n3","deleted":true,"props":{},"refs":{"ex:r":["t1","ex:t2"]}}`,
		`[{"id":"n4","props":{"w":{"id":"n5","props":{"z":false},"refs":{}}},"refs":{}},7]`)
	return out
}

// id forms: default prefix, declared prefix, absolute http and https URIs, a local part with a colon, and a
// declared prefix that merely starts with the letters of a URI scheme (with and without a slash in the local part)
func c15IDs() []string {
	// (ns3: a prefix shaped like the hub's own, bound by the document to a namespace of another hub)
	return []string{"e1", "ex:e1", "http://abs/e1", "https://sec/p#e1", "s:e:1", "httpx:e1", "httpx:a/b", "ns3:e1"}
}

func c15Refs() []string {
	return []string{``, `"r":"t1"`, `"ex:r":["t1","ex:t2"]`, `"http://abs/r":"https://sec/t3","r2":[]`, `"r":"t1","ex:r":"t1"`}
}

// c15Docs: the round-trip box. Each doc is a list of entity element texts.
func c15Docs() [][]string {
	var docs [][]string
	ent := func(id, val, refs, del string, withRecorded bool) string {
		s := `{"id":"` + id + `"`
		if withRecorded {
			s += `,"recorded":1234567`
		}
		if del != "" {
			s += `,"deleted":` + del
		}
		props := `"p":` + val
		if val == "" {
			props = ""
		}
		s += `,"props":{` + props + `},"refs":{` + refs + `}}`
		return s
	}
	for _, id := range c15IDs() {
		for _, v := range c15Values() {
			for _, r := range c15Refs() {
				for _, del := range []string{"", "true", "false"} {
					docs = append(docs, []string{ent(id, v, r, del, false)})
				}
			}
		}
	}
	// two entities: distinct ids; the same id twice with different content; recorded present; prefixed property keys
	for _, v := range c15Values() {
		docs = append(docs, []string{ent("e1", v, `"r":"e2"`, "", true), ent("e2", `"other"`, ``, "", false)})
		docs = append(docs, []string{ent("e1", v, ``, "", false), ent("e1", `"second"`, `"r":"t1"`, "true", false)})
		docs = append(docs, []string{`{"id":"ex:e9","props":{"ex:k":` + v + `,"http://abs/k2":` + v + `,"s:k3":1},"refs":{}}`})
	}
	// key order variations and minimal elements
	docs = append(docs, []string{`{"props":{"p":1},"id":"e1","refs":{}}`}, []string{`{"refs":{"r":"t1"},"deleted":true,"id":"e1"}`},
		[]string{`{"id":"e1"}`}, []string{`{"id":"e1","props":{}}`}, []string{`{"id":"e1","refs":{}}`}, []string{})
	// long arrays: 130 nested entities (order lines), 130 sub-arrays (a table), 300 scalars, 130 references
	var lines, rows, nums, refs []string
	for i := 0; i < 300; i++ {
		if i < 130 {
			lines = append(lines, fmt.Sprintf(`{"id":"line%d","props":{"n":%d},"refs":{}}`, i, i))
			rows = append(rows, fmt.Sprintf(`[%d,"c%d"]`, i, i))
			refs = append(refs, fmt.Sprintf(`"t%d"`, i))
		}
		nums = append(nums, fmt.Sprint(i))
	}
	docs = append(docs, []string{ent("e1", "["+strings.Join(lines, ",")+"]", ``, "", false)},
		[]string{ent("e1", "["+strings.Join(rows, ",")+"]", ``, "", false)},
		[]string{ent("e1", "["+strings.Join(nums, ",")+"]", `"r":[`+strings.Join(refs, ",")+`]`, "", false)})
	return docs
}

// ctxAltJSON binds the same prefixes to other namespaces (requests with different contexts follow each other)
func ctxAltJSON() string {
	return `{"id":"@context","namespaces":{"_":"http://alt/","ex":"http://alt.ex/ns#","s":"https://alt.sec/","httpx":"http://alt.hx/","ns3":"http://alt.other-hub/3/"}}`
}

// ctxOddJSON: expansions that do not end in a separator: a CURIE still denotes expansion + local part, nothing else
func ctxOddJSON() string {
	return `{"id":"@context","namespaces":{"_":"urn:d:","ex":"urn:isbn:","s":"https://sec/item-","httpx":"http://hx/q?id=","ns3":"urn:other:3:"}}`
}

func docTextCtx(ctx string, ents []string, cont string) string {
	parts := append([]string{ctx}, ents...)
	if cont != "" {
		parts = append(parts, `{"id":"@continuation","token":"`+cont+`"}`)
	}
	return "[" + strings.Join(parts, ",") + "]"
}

func docText(ents []string, cont string) string {
	parts := append([]string{ctxJSON()}, ents...)
	if cont != "" {
		parts = append(parts, `{"id":"@continuation","token":"`+cont+`"}`)
	}
	return "[" + strings.Join(parts, ",") + "]"
}

// seeds for mutation
func c15Seeds() map[string]string {
	long := []string{}
	for i := 1; i <= 12; i++ {
		long = append(long, fmt.Sprintf(`{"id":"l%d","props":{"n":%d},"refs":{}}`, i, i))
	}
	return map[string]string{
		"plain":  docText([]string{`{"id":"e1","recorded":17,"deleted":false,"props":{"p":"v","ex:q":2},"refs":{"r":"e2"}}`, `{"id":"ex:e2","deleted":true,"props":{},"refs":{}}`}, ""),
		"nested": docText([]string{`{"id":"e1","props":{"p":{"id":"n1","props":{"w":[1,true]},"refs":{"r":"t"}},"q":[1,[2,"x"]]},"refs":{}}`}, ""),
		"refs":   docText([]string{`{"id":"http://abs/e1","props":{},"refs":{"r":["t1","ex:t2"],"s:q":"https://sec/t3"}}`}, ""),
		"cont":   docText([]string{`{"id":"e1","props":{"p":1},"refs":{}}`}, "dG9rZW4="),
		"empty":  docText(nil, ""),
		"long":   docText(long, ""),
	}
}

func c15TxnSeed() string {
	return `{"@context":{"namespaces":{"_":"http://d/","ex":"http://ex/ns#"}},"DS1":[{"id":"e1","deleted":false,"props":{"p":"v"},"refs":{"r":"ex:e2"}}],"DS2":[{"id":"ex:e2","recorded":5,"props":{"q":[1,2]},"refs":{}},{"id":"e3","deleted":true,"props":{},"refs":{}}]}`
}

// tokens of a JSON text: byte spans of every scalar token and delimiter
type tok struct {
	s, e int
	kind string // string number bool null delim
}

func tokenize(text string) []tok {
	var out []tok
	i := 0
	for i < len(text) {
		c := text[i]
		switch {
		case c == ' ' || c == '\n' || c == '\t' || c == ',' || c == ':':
			i++
		case c == '"':
			j := i + 1
			for j < len(text) && text[j] != '"' {
				if text[j] == '\\' {
					j++
				}
				j++
			}
			out = append(out, tok{i, j + 1, "string"})
			i = j + 1
		case c == '{' || c == '}' || c == '[' || c == ']':
			out = append(out, tok{i, i + 1, "delim"})
			i++
		default:
			j := i
			for j < len(text) && !strings.ContainsRune(" ,:{}[]\"\n\t", rune(text[j])) {
				j++
			}
			k := "number"
			w := text[i:j]
			if w == "true" || w == "false" {
				k = "bool"
			} else if w == "null" {
				k = "null"
			}
			out = append(out, tok{i, j, k})
			i = j
		}
	}
	return out
}

type mutant struct {
	label string
	text  string
	at    int // byte offset where the text first differs from the seed
}

func c15Mutants(seed string) []mutant {
	var out []mutant
	for i := 0; i < len(seed); i++ {
		out = append(out, mutant{fmt.Sprintf("prefix@%d", i), seed[:i], i})
	}
	toks := tokenize(seed)
	repl := func(t tok, with string, name string, idx int) {
		out = append(out, mutant{fmt.Sprintf("tok%d:%s", idx, name), seed[:t.s] + with + seed[t.e:], t.s})
	}
	for idx, t := range toks {
		switch t.kind {
		case "string":
			for name, with := range map[string]string{"to-number": "7", "to-bool": "true", "to-null": "null", "to-object": `{"x":1}`, "to-array": `["x"]`, "to-empty-string": `""`, "to-empty-object": "{}", "to-empty-array": "[]"} {
				repl(t, with, name, idx)
			}
		case "number":
			for name, with := range map[string]string{"to-string": `"7"`, "to-bool": "false", "to-null": "null", "to-object": `{}`, "to-array": `[1]`,
				// well-formed literals outside the range of a float64, and extreme ones inside it
				"to-overflow": "1e999", "to-negative-overflow": "-1e999", "to-big-exponent": "1E+400", "to-largest": "1.7e308", "to-tiny": "4e-320"} {
				repl(t, with, name, idx)
			}
		case "bool":
			for name, with := range map[string]string{"to-string": `"false"`, "to-number": "0", "to-null": "null", "to-object": `{}`, "to-array": `[true]`} {
				repl(t, with, name, idx)
			}
		case "delim":
			for name, with := range map[string]string{"to-string": `"x"`, "to-number": "1", "to-null": "null", "deleted": ""} {
				repl(t, with, name, idx)
			}
			other := map[byte]string{'{': "[", '}': "]", '[': "{", ']': "}"}[seed[t.s]]
			repl(t, other, "other-bracket", idx)
		}
		if t.kind != "delim" {
			repl(t, "", "deleted", idx)
		}
		if idx+1 < len(toks) {
			n := toks[idx+1]
			out = append(out, mutant{fmt.Sprintf("tok%d:swap-next", idx), seed[:t.s] + seed[n.s:n.e] + seed[t.e:n.s] + seed[t.s:t.e] + seed[n.e:], t.s})
		}
	}
	sort.Slice(out, func(i, j int) bool { return out[i].label < out[j].label })
	return out
}

// ---- tasks -------------------------------------------------------------------------------

type c15Task struct {
	Kind string `json:"kind"` // roundtrip | mutate | mutate-http | small | txn
	From int    `json:"from"`
	To   int    `json:"to"`
	Seed string `json:"seed,omitempty"`
	Len  int    `json:"len,omitempty"`
}

const c15Alphabet = "[]{}\":,a1 "

func (w *c15World) feed(ds string) ([]dEnt, error) {
	code, body, pn := w.request(http.MethodGet, "/datasets/"+ds+"/changes", "")
	if pn != "" || code != 200 {
		return nil, fmt.Errorf("GET changes: status %d panic %q", code, pn)
	}
	var got []dEnt
	esp := server.NewEntityStreamParser(w.jw.W.Store)
	err := esp.ParseStream(bytes.NewReader(body), func(e *server.Entity) error {
		if e.ID != "@continuation" {
			got = append(got, w.normEntity(e))
		}
		return nil
	})
	return got, err
}

// latestOf: last element per id, in order of first appearance of the id... compared as a set keyed by id
func latestOf(ents []dEnt) map[string]dEnt {
	m := map[string]dEnt{}
	for _, e := range ents {
		m[e.ID] = e
	}
	return m
}

func c15Run(t c15Task) (res c15Result) {
	defer func() {
		if r := recover(); r != nil {
			res.Err = fmt.Sprint("panic: ", r, " ", string(debug.Stack()))
			c15W = nil
		}
	}()
	w := c15Get()
	switch t.Kind {
	case "roundtrip":
		docs := c15Docs()
		for i := t.From; i < t.To && i < len(docs); i++ {
			for _, cont := range []string{"", "dG9r", "alt", "odd"} {
				text := docText(docs[i], cont)
				if cont == "alt" {
					// the same document under a context that binds every prefix to another namespace
					cont = ""
					text = docTextCtx(ctxAltJSON(), docs[i], "")
				} else if cont == "odd" {
					// ... and under one whose expansions do not end in "/" or "#" (URNs, a common stem)
					cont = ""
					text = docTextCtx(ctxOddJSON(), docs[i], "")
				}
				label := fmt.Sprintf("doc%d", i)
				class := res.judgeParse(w, "roundtrip", label, text, false)
				if class != "valid" {
					res.fail("C15:harness:generated-doc-not-valid|"+label, "harness: generated document classified "+class+": "+short(text), text)
					continue
				}
				res.Distinct = append(res.Distinct, "doc:"+text)
				if cont != "" {
					continue // a continuation element belongs to responses, it is not posted
				}
				_, want, _ := classifyStream(text)
				ds := w.newDataset()
				code, body, pn := w.request(http.MethodPost, "/datasets/"+ds+"/entities", text)
				if pn != "" || code != 200 {
					res.fail("C15:valid-post-rejected|"+label, fmt.Sprintf("POST of the valid payload %q answered %d %s %s", short(text), code, short(string(body)), pn), text)
					continue
				}
				// GET changes = every posted element that differs from its predecessor, in order
				got, err := w.feed(ds)
				if err != nil {
					res.fail("C15:get-changes-unparsable|"+label, fmt.Sprintf("GET changes after POST of %q cannot be parsed back: %v", short(text), err), text)
					continue
				}
				if !dListEq(got, want) {
					res.fail("C15:post-get-changes-differs|"+label, fmt.Sprintf("POST %q then GET changes gives %v, the payload denotes %v", short(text), got, want), text)
				}
				// GET entities = latest per id
				code, body, pn = w.request(http.MethodGet, "/datasets/"+ds+"/entities", "")
				if pn != "" || code != 200 {
					res.fail("C15:get-entities-failed|"+label, fmt.Sprintf("GET entities answered %d %s", code, pn), text)
					continue
				}
				var lst []dEnt
				hasCont := false
				esp := server.NewEntityStreamParser(w.jw.W.Store)
				err = esp.ParseStream(bytes.NewReader(body), func(e *server.Entity) error {
					if e.ID == "@continuation" {
						hasCont = true
						return nil
					}
					lst = append(lst, w.normEntity(e))
					return nil
				})
				if err != nil {
					res.fail("C15:get-entities-unparsable|"+label, fmt.Sprintf("GET entities after POST of %q cannot be parsed back: %v (body %s)", short(text), err, short(string(body))), text)
					continue
				}
				_ = hasCont
				wl := latestOf(want)
				gl := latestOf(lst)
				ok := len(wl) == len(gl) && len(lst) == len(gl)
				for id, e := range wl {
					if g, has := gl[id]; !has || !dEq(g, e) {
						ok = false
					}
				}
				if !ok {
					res.fail("C15:post-get-entities-differs|"+label, fmt.Sprintf("POST %q then GET entities gives %v, the payload denotes (latest per id) %v", short(text), lst, wl), text)
				}
				// what the hub serialises parses back to what the read API holds (serialise -> parse = identity)
				res.Cases += 2
			}
		}
	case "repost":
		// C02 over HTTP: a document posted a second time is a sequence of writes identical to the current versions and
		// adds nothing to the feed; a token taken at the end stays at the end
		docs := c15Docs()
		for i := t.From; i < t.To && i < len(docs); i++ {
			text := docText(docs[i], "")
			ds := w.newDataset()
			label := fmt.Sprintf("doc%d", i)
			if code, _, pn := w.request(http.MethodPost, "/datasets/"+ds+"/entities", text); pn != "" || code != 200 {
				continue // judged by C15
			}
			before, err := w.feed(ds)
			if err != nil {
				continue
			}
			// the last version per id is current: the document's elements that equal it are re-sent
			last := map[string]int{}
			for j, e := range docs[i] {
				var el struct {
					ID string `json:"id"`
				}
				_ = json.Unmarshal([]byte(e), &el)
				last[el.ID] = j
			}
			var again []string
			for j, e := range docs[i] {
				var el struct {
					ID string `json:"id"`
				}
				_ = json.Unmarshal([]byte(e), &el)
				if last[el.ID] == j {
					again = append(again, e)
				}
			}
			if code, _, pn := w.request(http.MethodPost, "/datasets/"+ds+"/entities", docText(again, "")); pn != "" || code != 200 {
				res.fail("C02:http-repost-rejected|"+label, fmt.Sprintf("re-posting the current versions of %q answered %d %s", short(text), code, pn), text)
				continue
			}
			after, err := w.feed(ds)
			if err != nil {
				continue
			}
			res.Cases++
			if len(after) != len(before) {
				res.fail("C02:http-repost-adds-changes|"+label, fmt.Sprintf("POST %q, then the current version of every entity again: the change feed grows from %d to %d entries although every write equals the current version", short(text), len(before), len(after)), text)
			}
		}
	case "txn":
		// transaction round trip: documents built from the same entity box, two datasets
		docs := c15Docs()
		for i := t.From; i < t.To && i < len(docs); i++ {
			if len(docs[i]) == 0 {
				continue
			}
			d1, d2 := w.newDataset(), w.newDataset()
			text := `{"@context":{"namespaces":{"_":"http://d/","ex":"http://ex/ns#","s":"https://sec/","httpx":"http://hx/","ns3":"http://other-hub/3/"}},"` + d1 + `":[` + strings.Join(docs[i], ",") + `],"` + d2 + `":[` + docs[i][0] + `]}`
			label := fmt.Sprintf("txn%d", i)
			class := res.judgeParse(w, "roundtrip", label, text, true)
			if class != "valid" {
				res.fail("C15:harness:generated-txn-not-valid|"+label, "harness: generated transaction classified "+class, text)
				continue
			}
			_, parts, _ := classifyTxn(text)
			code, body, pn := w.request(http.MethodPost, "/transactions", text)
			if pn != "" || code != 200 {
				res.fail("C15:valid-txn-rejected|"+label, fmt.Sprintf("POST /transactions of a valid document answered %d %s %s", code, short(string(body)), pn), text)
				continue
			}
			for _, ds := range []string{d1, d2} {
				got, err := w.feed(ds)
				if err != nil || !dListEq(got, parts[ds]) {
					res.fail("C15:txn-get-changes-differs|"+label, fmt.Sprintf("POST /transactions %q then GET changes of %s gives %v (err %v), the document denotes %v", short(text), ds, got, err, parts[ds]), text)
				}
			}
			res.Cases++
		}
	case "mutate":
		seeds := c15Seeds()
		seed := seeds[t.Seed]
		isTxn := t.Seed == "txn"
		if isTxn {
			seed = c15TxnSeed()
		}
		muts := c15Mutants(seed)
		for i := t.From; i < t.To && i < len(muts); i++ {
			m := muts[i]
			cls := res.judgeParse(w, "mutate:"+t.Seed, m.label, m.text, isTxn)
			res.Distinct = append(res.Distinct, cls+":"+m.text)
		}
	case "mutate-http":
		seeds := c15Seeds()
		seed := seeds[t.Seed]
		isTxn := t.Seed == "txn"
		if isTxn {
			seed = c15TxnSeed()
		}
		muts := c15Mutants(seed)
		_, seedEnts, _ := classifyStream(seed)
		for i := t.From; i < t.To && i < len(muts); i++ {
			m := muts[i]
			res.Cases++
			if isTxn {
				class, _, why := classifyTxn(m.text)
				if class != "invalid" {
					continue
				}
				// datasets DS1/DS2 exist
				for _, n := range []string{"DS1", "DS2"} {
					if w.jw.W.Dsm.GetDataset(n) == nil {
						_, _ = w.jw.W.Dsm.CreateDataset(n, nil)
					}
				}
				b1, _ := w.feed("DS1")
				b2, _ := w.feed("DS2")
				code, _, pn := w.request(http.MethodPost, "/transactions", m.text)
				res.Invalid++
				if pn != "" {
					res.fail("C15:handler-panic-escapes:txn|"+m.label, fmt.Sprintf("POST /transactions of %q panics past the recover middleware: %s", short(m.text), pn), m.text)
					continue
				}
				a1, _ := w.feed("DS1")
				a2, _ := w.feed("DS2")
				if code < 400 {
					res.fail("C15:malformed-post-accepted:txn|"+m.label, fmt.Sprintf("POST /transactions of %q (%s) answered %d", short(m.text), why, code), m.text)
				}
				if len(a1) != len(b1) || len(a2) != len(b2) {
					res.fail("C15:malformed-stored:txn|"+m.label, fmt.Sprintf("POST /transactions of %q (%s) stored entities (DS1 %d->%d, DS2 %d->%d)", short(m.text), why, len(b1), len(a1), len(b2), len(a2)), m.text)
				}
				continue
			}
			class, _, why := classifyStream(m.text)
			if class != "invalid" {
				continue
			}
			res.Invalid++
			ds := w.newDataset()
			code, _, pn := w.request(http.MethodPost, "/datasets/"+ds+"/entities", m.text)
			if pn != "" {
				res.fail("C15:handler-panic-escapes|"+t.Seed+":"+m.label, fmt.Sprintf("POST of %q panics past the recover middleware: %s", short(m.text), pn), m.text)
				continue
			}
			if code < 400 {
				res.fail("C15:malformed-post-accepted|"+t.Seed+":"+m.label, fmt.Sprintf("POST of %q (%s) answered %d", short(m.text), why, code), m.text)
			}
			got, err := w.feed(ds)
			if err != nil {
				res.fail("C15:feed-unreadable-after-malformed-post|"+t.Seed+":"+m.label, fmt.Sprintf("after POST of %q the change feed cannot be read: %v", short(m.text), err), m.text)
				continue
			}
			// everything stored must be the denotation of a seed element that lies completely before the mutation
			clean := 0
			for k := range seedEnts {
				// element k ends before offset m.at?
				if elementEnd(seed, k) <= m.at {
					clean = k + 1
				}
			}
			for _, g := range got {
				ok := false
				for k := 0; k < clean; k++ {
					if dEq(g, seedEnts[k]) {
						ok = true
					}
				}
				if !ok {
					res.fail("C15:malformed-stored|"+t.Seed+":"+m.label, fmt.Sprintf("POST of %q (%s) answered %d and stored %v, which is not one of the %d complete elements before the malformed one", short(m.text), why, code, g, clean), m.text)
				}
			}
		}
	case "small":
		// every string of exactly t.Len symbols whose index lies in [From,To)
		n := len(c15Alphabet)
		buf := make([]byte, t.Len)
		for idx := t.From; idx < t.To; idx++ {
			x := idx
			for p := 0; p < t.Len; p++ {
				buf[p] = c15Alphabet[x%n]
				x /= n
			}
			text := string(buf)
			for _, txn := range []bool{false, true} {
				cls := res.judgeParse(w, "small", "", text, txn)
				if cls == "valid" {
					res.Distinct = append(res.Distinct, "small-valid:"+text)
				}
			}
		}
	}
	sort.Strings(res.Distinct)
	res.Distinct = uniq(res.Distinct)
	if len(res.Distinct) > 0 {
		res.Sample = res.Distinct[len(res.Distinct)/2]
	}
	// only the count travels back
	cnt := len(res.Distinct)
	res.Distinct = []string{fmt.Sprint(cnt)}
	return
}

// elementEnd: byte offset just after the k-th entity element (0-based, after the context) of a stream document.
func elementEnd(text string, k int) int {
	depth := 0
	idx := -2 // the array itself opens depth 1; elements are objects at depth 2
	inStr := false
	for i := 0; i < len(text); i++ {
		c := text[i]
		if inStr {
			if c == '\\' {
				i++
			} else if c == '"' {
				inStr = false
			}
			continue
		}
		switch c {
		case '"':
			inStr = true
		case '{', '[':
			depth++
		case '}', ']':
			depth--
			if depth == 1 && c == '}' {
				idx++
				if idx == k {
					return i + 1
				}
			}
		}
	}
	return len(text) + 1
}

func init() {
	engine.RegisterWorker("c15", func(args []string) {
		defer func() {
			if c15W != nil {
				c15W.destroy()
			}
		}()
		engine.ServeWorker(func(task []byte) interface{} {
			var t c15Task
			if err := json.Unmarshal(task, &t); err != nil {
				return c15Result{Err: err.Error()}
			}
			return c15Run(t)
		})
	})
	engine.RegisterWorker("replay-c15", func(args []string) {
		b, err := os.ReadFile(args[0])
		if err != nil {
			fmt.Println(err)
			os.Exit(2)
		}
		var v struct {
			Replay struct {
				Text string `json:"text"`
			} `json:"replay"`
		}
		_ = json.Unmarshal(b, &v)
		w := c15Get()
		defer w.destroy()
		for _, txn := range []bool{false, true} {
			var res c15Result
			cls := res.judgeParse(w, "replay", "", v.Replay.Text, txn)
			fmt.Printf("txn=%v class=%s violations=%d\n", txn, cls, len(res.Viol))
			for _, x := range res.Viol {
				fmt.Println("  ", x.Key, "::", x.What)
			}
		}
	})
	engine.RegisterCheck("C15", func(r *engine.Run) {
		r.Rule = "ENUM on the real EntityStreamParser and the real POST/GET handlers (echo router, recover middleware): (1) every document of the round-trip box (7 id forms x 19 value shapes of depth <= 2 x 5 ref shapes x 3 deleted states, plus two-entity, repeated-id, prefixed-key and key-order documents; each with and without a continuation element): ParseStream = denotation, POST then GET changes / GET entities parsed back = denotation, same through POST /transactions; (2) for each of 6 stream seeds and a transaction seed: every byte prefix and every single-token mutation (wrong type from a menu, deletion, other bracket, swap with next) at every token position, at parser level and through the handlers, judged by a reference recogniser written from the specification (valid / invalid / open); (3) every string over the alphabet []{}\":,a1<space> up to the stated length through both parsers. distinct = distinct documents/texts classified"
		r.Assumptions = []string{"left open (only no-panic/no-hang is demanded): unknown keys, missing id, null property values, trailing bytes after the closing bracket, a context without namespaces, a continuation element that is not last", "a panic that reaches the recover middleware (HTTP 500) is not fatal at handler level; at parser level any panic is a violation (job sources call the parser without that middleware)", "JSON numbers are float64 on both sides"}
		var tasks []json.RawMessage
		var desc []c15Task
		add := func(t c15Task) {
			b, _ := json.Marshal(t)
			tasks = append(tasks, b)
			desc = append(desc, t)
		}
		nd := len(c15Docs())
		for i := 0; i < nd; i += 40 {
			add(c15Task{Kind: "roundtrip", From: i, To: i + 40})
		}
		for i := 0; i < nd; i += 80 {
			add(c15Task{Kind: "txn", From: i, To: i + 80})
		}
		seeds := c15Seeds()
		var names []string
		for n := range seeds {
			names = append(names, n)
		}
		sort.Strings(names)
		names = append(names, "txn")
		nm := 0
		for _, n := range names {
			s := seeds[n]
			if n == "txn" {
				s = c15TxnSeed()
			}
			cnt := len(c15Mutants(s))
			nm += cnt
			for i := 0; i < cnt; i += 150 {
				add(c15Task{Kind: "mutate", Seed: n, From: i, To: i + 150})
				add(c15Task{Kind: "mutate-http", Seed: n, From: i, To: i + 150})
			}
		}
		maxLen := 6
		if !r.Quick() {
			maxLen = 8
		}
		small := 0
		for l := 1; l <= maxLen; l++ {
			total := 1
			for i := 0; i < l; i++ {
				total *= len(c15Alphabet)
			}
			small += total
			step := 500000
			for i := 0; i < total; i += step {
				to := i + step
				if to > total {
					to = total
				}
				add(c15Task{Kind: "small", Len: l, From: i, To: to})
			}
		}
		pl := &engine.Pool{Args: []string{"worker", "c15"}, Timeout: 900 * time.Second}
		results := pl.Do(tasks, nil)
		cases, valid, invalid, open, distinct := 0, 0, 0, 0, 0
		for i, rr := range results {
			if rr.Err != "" {
				r.Cap(fmt.Sprintf("task %v: worker problem %s", desc[i], rr.Err))
				continue
			}
			var cr c15Result
			if err := json.Unmarshal(rr.Out, &cr); err != nil {
				r.Cap("undecodable worker result")
				continue
			}
			if cr.Err != "" {
				r.Cap(fmt.Sprintf("task %v: harness problem %s", desc[i], short(cr.Err)))
				continue
			}
			cases += cr.Cases
			valid += cr.Valid
			invalid += cr.Invalid
			open += cr.Open
			if len(cr.Distinct) == 1 {
				var n int
				fmt.Sscan(cr.Distinct[0], &n)
				distinct += n
			}
			if cr.Sample != "" && (desc[i].Kind == "mutate" || desc[i].Kind == "roundtrip") {
				r.AddSample(map[string]interface{}{"family": desc[i].Kind, "case": cr.Sample})
			}
			for _, v := range cr.Viol {
				r.AddViolation(v)
			}
		}
		for i := 0; i < distinct; i++ {
			r.AddDistinct(fmt.Sprint("case", i))
		}
		r.Evaluations += cases
		r.Traces += cases
		r.States += distinct
		r.Transitions += cases
		r.AddPart(map[string]interface{}{"engine": "ENUM", "search": "c15", "roundtrip_documents": nd * 2, "mutants": nm, "small_texts": small, "max_small_length": maxLen,
			"cases": cases, "classified_valid": valid, "classified_invalid": invalid, "left_open": open})
		// what a job's HTTP sink serialises (entities with the context it sends along) has to be parsed by the receiving
		// hub into what the sender holds: the push cases of the HTTP-peer enumeration, reported here when the receiver
		// cannot read a batch
		{
			pl := &engine.Pool{N: 1, Args: []string{"worker", "http-peer"}, Timeout: 600 * time.Second}
			out := pl.Do([]json.RawMessage{json.RawMessage(`{}`)}, nil)
			var pr peerResult
			if out[0].Err != "" || json.Unmarshal(out[0].Out, &pr) != nil || pr.Err != "" {
				r.Cap("http-peer: " + out[0].Err + " " + pr.Err)
			} else {
				for _, v := range pr.Viol {
					if strings.HasPrefix(v.Key, "C15:") {
						v.Replay = map[string]interface{}{"worker": []string{"worker", "http-peer"}}
						r.AddViolation(v)
					}
				}
				r.Evaluations += pr.Cases
				r.AddPart(map[string]interface{}{"engine": "ENUM", "name": "http-peer", "cases": pr.Cases})
			}
		}
	})
}
