package web

// C14 — stopping and starting the hub is observably a no-op.
//
// SEQ: explicit-state BFS over histories of data, dataset-management, job-management and
// security-management operations with "restart" as an operation of the alphabet (so a restart sits at
// every position of every history). After every history:
//   (a) the data read APIs are compared with the reference model, which ignores restarts: writes after a
//       restart behave as if it had not happened (nothing lost, nothing resurrected, deleted datasets stay
//       deleted);
//   (b) differential: the complete observation through every read API (datasets with their configuration,
//       entities, changes and next tokens, relationship queries, namespaces, job definitions with paused
//       flags, schedule membership, continuation tokens, job history, clients, ACLs, login providers) is taken,
//       the hub is stopped and started, and the observation is taken again: both must be identical;
//   (c) raw-key invariants after the restart and after a probe write (no internal id or change position is
//       handed out twice).

import (
	"crypto/sha1"
	"encoding/hex"
	"encoding/json"
	"fmt"
	"os"
	"path/filepath"
	"runtime/debug"
	"sort"
	"strings"
	"time"

	"go.uber.org/zap"

	"github.com/mimiro-io/datahub/internal/conf"
	"github.com/mimiro-io/datahub/internal/jobs"
	"github.com/mimiro-io/datahub/internal/security"
	"github.com/mimiro-io/datahub/internal/server"
	"github.com/mimiro-io/datahub/internal/verifrt/engine"
	"github.com/mimiro-io/datahub/internal/verifrt/model"
)

type c14Op struct {
	K     string                   `json:"k"`
	DS    string                   `json:"ds,omitempty"`
	To    string                   `json:"to,omitempty"`
	Ents  []server.VEnt            `json:"ents,omitempty"`
	Parts map[string][]server.VEnt `json:"parts,omitempty"`
	Job   string                   `json:"job,omitempty"`
	C     string                   `json:"c,omitempty"`
	N     int                      `json:"n,omitempty"`
}

func (o c14Op) String() string { b, _ := json.Marshal(o); return string(b) }

// VAppParts: the components of a whole hub instance as app.go wires them (NewDatahubInstance), handed over by the
// harness file of the root package; Stop is DatahubInstance.Stop.
type VAppParts struct {
	Store  *server.Store
	Dsm    *server.DsManager
	Bus    server.EventBus
	Runner *jobs.Runner
	Sched  *jobs.Scheduler
	Core   *security.ServiceCore
	Tps    *security.TokenProviders
	Web    *WebService
	Stop   func()
}

// VAppFactory is set by the root package's harness file.
var VAppFactory func(env *conf.Config) (*VAppParts, error)

type c14World struct {
	dir  string
	jw   *jobs.JWorld
	core *security.ServiceCore
	tps  *security.TokenProviders
	h    *server.VHist
	jobs map[string]bool
	app  bool
}

// c14OpenApp: the hub is a DatahubInstance built by app.go's NewDatahubInstance; a restart is its Stop followed by a
// new NewDatahubInstance on the same configuration.
func c14OpenApp() *c14World {
	if VAppFactory == nil {
		panic("harness: no app factory registered")
	}
	dir := server.VNewScratchDir("c14app")
	env := &conf.Config{Logger: zap.NewNop().Sugar(), Env: "test", StoreLocation: filepath.Join(dir, "store"), Port: "0",
		RunnerConfig:  &conf.RunnerConfig{PoolIncremental: 10, PoolFull: 5, Concurrent: 0},
		Auth:          &conf.AuthConfig{Middleware: "noop"},
		AdminUserName: "admin", AdminPassword: "secret", NodeID: "n1", SecurityStorageLocation: filepath.Join(dir, "security")}
	c16CopyNodeKeys(env.SecurityStorageLocation)
	w := &c14World{dir: dir, jobs: map[string]bool{}}
	w.jw = &jobs.JWorld{W: &server.VWorld{Dir: dir, Env: env}}
	var parts *VAppParts
	adopt := func() {
		jobs.JSilenceStdout()
		p, err := VAppFactory(env)
		if err != nil {
			panic("NewDatahubInstance: " + err.Error())
		}
		parts = p
		w.jw.W.VAdopt(p.Store, p.Dsm, p.Bus)
		w.jw.Runner, w.jw.Sched = p.Runner, p.Sched
		w.core, w.tps = p.Core, p.Tps
	}
	adopt()
	w.jw.RestartFn = func() {
		parts.Stop()
		adopt()
	}
	w.jw.StopFn = func() { parts.Stop() }
	w.app = true
	w.h = w.jw.W.NewHist()
	return w
}

func c14Open() *c14World {
	dir := server.VNewScratchDir("c14")
	w := &c14World{dir: dir, jobs: map[string]bool{}}
	w.jw = jobs.JOpenWorldBus(dir, true) // with the real event bus
	env := w.jw.W.Env
	env.AdminUserName = "admin"
	env.AdminPassword = "secret"
	env.NodeID = "n1"
	env.SecurityStorageLocation = filepath.Join(dir, "security")
	c16CopyNodeKeys(env.SecurityStorageLocation)
	w.security()
	w.h = w.jw.W.NewHist()
	return w
}

func (w *c14World) security() {
	env := w.jw.W.Env
	logger := zap.NewNop().Sugar()
	w.core = security.NewServiceCore(env)
	pm := security.NewProviderManager(env, w.jw.W.Store, logger)
	w.tps = security.NewTokenProviders(logger, pm, w.core)
}

func (w *c14World) restart() {
	w.jw.Restart()
	if !w.app {
		w.security()
	}
}

func (w *c14World) destroy() {
	w.jw.Destroy()
	_ = os.RemoveAll(w.dir)
}

var c14ACLs = [][]*security.AccessControl{
	{{Resource: "/datasets/A", Action: "read"}},
	{{Resource: "/datasets/*", Action: "write"}, {Resource: "/datasets/B", Action: "write", Deny: true}},
}

func (w *c14World) jobJSON(id string, paused bool, jobType string) []byte {
	return w.jobJSONh(id, paused, jobType, false)
}

func (w *c14World) jobJSONh(id string, paused bool, jobType string, handlers bool) []byte {
	return w.jobJSONt(id, paused, jobType, handlers, false)
}

func (w *c14World) jobJSONt(id string, paused bool, jobType string, handlers bool, onchange bool) []byte {
	h := w.h
	trig := map[string]interface{}{"triggerType": "cron", "jobType": jobType, "schedule": "0 0 1 1 *"}
	if onchange {
		// follows dataset A: nothing in these histories announces a change of A on the bus (writes go to the store
		// directly), so the job never fires; what is observed is whether it would
		trig = map[string]interface{}{"triggerType": "onchange", "jobType": jobType, "monitoredDataset": h.DsName("A")}
	}
	if handlers {
		trig["onError"] = []interface{}{
			map[string]interface{}{"errorHandler": "reRun", "retryDelay": 7, "maxRetries": 2},
			map[string]interface{}{"errorHandler": "log", "maxItems": 5}}
	}
	cfg := map[string]interface{}{
		"id": id, "title": id, "paused": paused, "batchSize": 2,
		"source":   map[string]interface{}{"Type": "DatasetSource", "Name": h.DsName("A")},
		"sink":     map[string]interface{}{"Type": "DatasetSink", "Name": h.DsName("J")},
		"triggers": []interface{}{trig},
	}
	b, _ := json.Marshal(cfg)
	return b
}

// apply applies one op to implementation and model; skip = not applicable in this state.
func (w *c14World) apply(op c14Op) (skip bool, err error) {
	h := w.h
	dsm := w.jw.W.Dsm
	_, exists := h.M.Datasets[op.DS]
	switch op.K {
	case "batch":
		if !exists {
			return true, nil
		}
		return false, h.ApplyWrite(server.VOp{K: "batch", DS: op.DS, Ents: op.Ents})
	case "txn":
		for n := range op.Parts {
			if _, ok := h.M.Datasets[n]; !ok {
				return true, nil
			}
		}
		return false, h.ApplyWrite(server.VOp{K: "txn", Parts: op.Parts})
	case "create":
		if exists || dsm.GetDataset(h.DsName(op.DS)) != nil {
			return true, nil
		}
		var cfg *server.CreateDatasetConfig
		switch op.N {
		case 1:
			cfg = &server.CreateDatasetConfig{PublicNamespaces: []string{"http://pub/a/", server.VNamespace}}
		case 2:
			cfg = &server.CreateDatasetConfig{ProxyDatasetConfig: &server.ProxyDatasetConfig{RemoteURL: "http://127.0.0.1:9/datasets/remote", AuthProviderName: "p1"}}
		}
		if _, err := dsm.CreateDataset(h.DsName(op.DS), cfg); err != nil {
			return false, err
		}
		if op.N != 2 {
			h.M.Create(op.DS)
		}
		return false, nil
	case "delete":
		if !exists {
			return true, nil
		}
		if err := dsm.DeleteDataset(h.DsName(op.DS)); err != nil {
			return false, err
		}
		h.M.Delete(op.DS)
		return false, nil
	case "rename":
		_, toExists := h.M.Datasets[op.To]
		if op.DS == "X" {
			// the proxy dataset is outside the model: only the differential oracle follows it
			if dsm.GetDataset(h.DsName("X")) == nil || dsm.GetDataset(h.DsName(op.To)) != nil {
				return true, nil
			}
			_, err := dsm.UpdateDataset(h.DsName("X"), &server.UpdateDatasetConfig{ID: h.DsName(op.To)})
			return false, err
		}
		if !exists || toExists {
			return true, nil
		}
		if _, err := dsm.UpdateDataset(h.DsName(op.DS), &server.UpdateDatasetConfig{ID: h.DsName(op.To)}); err != nil {
			return false, err
		}
		h.M.Rename(op.DS, op.To)
		return false, nil
	case "addjob":
		if w.jobs[op.Job] {
			return true, nil
		}
		cfg, err := w.jw.Sched.Parse(w.jobJSONt(op.Job+"-"+h.Tag, op.N == 1, map[bool]string{false: "incremental", true: "fullsync"}[op.N == 2], op.N == 3, op.N == 4))
		if err != nil {
			return false, err
		}
		if err := w.jw.Sched.AddJob(cfg); err != nil {
			return false, err
		}
		w.jobs[op.Job] = true
		return false, nil
	case "pause", "unpause", "run", "reset", "deljob":
		if !w.jobs[op.Job] {
			return true, nil
		}
		id := op.Job + "-" + h.Tag
		switch op.K {
		case "pause":
			return false, w.jw.Sched.PauseJob(id)
		case "unpause":
			return false, w.jw.Sched.UnpauseJob(id)
		case "run":
			pn, err := w.jw.JRunStoredJobSync(id)
			if pn != "" {
				return false, fmt.Errorf("job run panicked: %s", pn)
			}
			return false, err
		case "reset":
			return false, w.jw.Sched.ResetJob(id, "")
		case "deljob":
			delete(w.jobs, op.Job)
			return false, w.jw.Sched.DeleteJob(id)
		}
	case "setns":
		// the public namespaces of a dataset are changed by writing its meta-entity into core.Dataset
		if !exists {
			return true, nil
		}
		return false, w.jw.W.VSetPublicNamespaces(h.DsName(op.DS), []string{fmt.Sprintf("http://pub%d.example/", op.N), server.VNamespace})
	case "lookupns":
		// a reader asks for an entity by full URI in a namespace nobody has mentioned yet
		_, err := w.jw.W.Store.GetEntity(fmt.Sprintf("http://c14-lookup-%d.%s/x", op.N, h.Tag), nil, true)
		return false, err
	case "reg":
		pub, _ := os.ReadFile(filepath.Join(c16KeyDir(), "client_key.pub"))
		w.core.RegisterClient(&security.ClientInfo{ClientID: op.C, PublicKey: pub})
		return false, nil
	case "unreg":
		if _, ok := w.core.GetClients()[op.C]; !ok {
			return true, nil
		}
		w.core.RegisterClient(&security.ClientInfo{ClientID: op.C, Deleted: true})
		return false, nil
	case "setacl":
		w.core.SetClientAccessControls(op.C, c14ACLs[op.N])
		return false, nil
	case "delacl":
		// also legitimate for a client without a list (DELETE /security/clients/:id/acl): the file is rewritten
		w.core.DeleteClientAccessControls(op.C)
		return false, nil
	case "addprov":
		return false, w.tps.Add(security.ProviderConfig{Name: op.C, Type: "basic",
			User: &security.ValueReader{Type: "text", Value: "u"}, Password: &security.ValueReader{Type: "text", Value: "pw"}})
	case "delprov":
		// a name is known if its configuration can be fetched under it or a provider answers to it (lookups of
		// providers in use are by lower-cased name)
		_, usable := w.tps.Get(strings.ToLower(op.C))
		if _, err := w.tps.GetProviderConfig(op.C); err != nil && !usable {
			return true, nil
		}
		return false, w.tps.DeleteProvider(op.C)
	case "restart":
		w.restart()
		return false, nil
	}
	return false, fmt.Errorf("harness: unknown op %s", op.K)
}

// observe: the complete observation through the read APIs, as sorted text lines.
func (w *c14World) observe() []string {
	var l []string
	add := func(f string, a ...interface{}) { l = append(l, fmt.Sprintf(f, a...)) }
	st := w.jw.W.Store
	dsm := w.jw.W.Dsm
	var names []string
	for _, n := range dsm.GetDatasetNames() {
		names = append(names, n.Name)
	}
	sort.Strings(names)
	add("datasets %v", names)
	for _, n := range names {
		ds := dsm.GetDataset(n)
		if ds == nil {
			add("dataset %s listed but not resolvable", n)
			continue
		}
		pc, _ := json.Marshal(ds.ProxyConfig)
		vc, _ := json.Marshal(ds.VirtualDatasetConfig)
		add("dataset %s subject=%s publicNamespaces=%v proxy=%s virtual=%s", n, ds.SubjectIdentifier, ds.PublicNamespaces, pc, vc)
		if ds.IsProxy() {
			continue
		}
		if res, err := ds.GetEntities("", -1); err != nil {
			add("dataset %s entities error %v", n, err)
		} else {
			for _, e := range res.Entities {
				b, _ := json.Marshal(e)
				add("dataset %s entity %s", n, b)
			}
			add("dataset %s entities-token %s", n, res.ContinuationToken)
		}
		for _, lo := range []bool{false, true} {
			if ch, err := ds.GetChanges(0, 0, lo); err != nil {
				add("dataset %s changes error %v", n, err)
			} else {
				for i, e := range ch.Entities {
					b, _ := json.Marshal(e)
					add("dataset %s changes(latestOnly=%v) #%03d %s", n, lo, i, b)
				}
				add("dataset %s changes(latestOnly=%v) next-token %d", n, lo, ch.NextToken)
			}
		}
		ctx, _ := json.Marshal(ds.GetContext())
		add("dataset %s context %s", n, ctx)
	}
	// relationship queries and unscoped lookups
	for _, id := range []string{"e1", "e2", "e3"} {
		uri := w.h.URI(id)
		if e, err := st.GetEntity(uri, nil, true); err == nil && e != nil {
			b, _ := json.Marshal(e)
			add("lookup %s %s", id, b)
		} else {
			add("lookup %s nil (%v)", id, err)
		}
		for _, inv := range []bool{false, true} {
			res, err := st.GetManyRelatedEntitiesBatch([]string{uri}, "*", inv, nil, 0, true)
			if err != nil {
				add("query %s inverse=%v error %v", id, inv, err)
				continue
			}
			var rl []string
			for _, r := range res.Relations {
				rl = append(rl, r.PredicateURI+">"+r.RelatedEntity.ID)
			}
			sort.Strings(rl)
			add("query %s inverse=%v %v", id, inv, rl)
		}
	}
	// namespaces
	var nsl []string
	for k, v := range st.NamespaceManager.GetPrefixToExpansionMap() {
		nsl = append(nsl, k+"="+v)
	}
	sort.Strings(nsl)
	add("namespaces %v", nsl)
	// jobs
	cfgs := w.jw.Sched.ListJobs()
	sort.Slice(cfgs, func(i, j int) bool { return cfgs[i].ID < cfgs[j].ID })
	for _, c := range cfgs {
		b, _ := json.Marshal(c)
		add("job %s", b)
		if s, err := w.jw.Sched.GetJobState(c.ID); err == nil {
			sb, _ := json.Marshal(s)
			add("job %s state %s", c.ID, sb)
		}
	}
	var sched []string
	for _, e := range w.jw.Sched.GetScheduleEntries().Entries {
		if e.JobID != "" {
			sched = append(sched, e.JobID)
		}
	}
	sort.Strings(sched)
	add("scheduled %v", sched)
	// what a change announcement would reach: the topics a write can be announced on, and per subscribed job the
	// topics it is woken by
	topics, subs := w.jw.W.VBusState()
	add("event-topics %v", topics)
	var sk []string
	for k := range subs {
		sk = append(sk, k)
	}
	sort.Strings(sk)
	for _, k := range sk {
		add("event-subscription %s woken by %v", k, subs[k])
	}
	var hist []string
	for _, r := range w.jw.Sched.GetJobHistory() {
		b, _ := json.Marshal(r)
		hist = append(hist, string(b))
	}
	sort.Strings(hist)
	add("job-history %v", hist)
	// security
	var sl []string
	for id, c := range w.core.GetClients() {
		sl = append(sl, fmt.Sprintf("client %s key=%d deleted=%v", id, len(c.PublicKey), c.Deleted))
	}
	for id, acl := range w.core.GetAllAccessControls() {
		b, _ := json.Marshal(acl)
		sl = append(sl, fmt.Sprintf("acl %s %s", id, b))
	}
	sort.Strings(sl)
	l = append(l, sl...)
	if pl, err := w.tps.ListProviders(); err != nil {
		add("providers error %v", err)
	} else {
		var ps []string
		for _, p := range pl {
			b, _ := json.Marshal(p)
			ps = append(ps, string(b))
		}
		sort.Strings(ps)
		add("providers %v", ps)
	}
	// which provider names a job or proxy dataset could authenticate with right now
	for _, n := range []string{"p1", "p2"} {
		_, ok := w.tps.Get(n)
		add("provider-usable %s=%v", n, ok)
	}
	return l
}

func diffLines(a, b []string) string {
	am, bm := map[string]int{}, map[string]int{}
	for _, x := range a {
		am[x]++
	}
	for _, x := range b {
		bm[x]++
	}
	var out []string
	for _, x := range a {
		if bm[x] < am[x] {
			out = append(out, "before only: "+x)
			bm[x]++
		}
	}
	for _, x := range b {
		if am[x] < bm[x] && !strings.HasPrefix(x, "\x00") {
			if cnt(a, x) < cnt(b, x) {
				out = append(out, "after only:  "+x)
			}
		}
	}
	out = uniq(out)
	if len(out) > 8 {
		out = append(out[:8], fmt.Sprintf("(+%d more)", len(out)-8))
	}
	return strings.Join(out, "\n")
}

func cnt(l []string, s string) int {
	n := 0
	for _, x := range l {
		if x == s {
			n++
		}
	}
	return n
}

// clause of a difference: the first word(s) of the first differing line
func diffClause(a, b []string) string {
	bm := map[string]bool{}
	for _, x := range b {
		bm[x] = true
	}
	am := map[string]bool{}
	for _, x := range a {
		am[x] = true
	}
	pick := func(x string) string {
		f := strings.Fields(x)
		if len(f) == 0 {
			return "?"
		}
		switch f[0] {
		case "dataset":
			if len(f) > 2 {
				w := f[2]
				if i := strings.Index(w, "("); i > 0 {
					w = w[:i]
				}
				if strings.Contains(w, "=") {
					w = "config"
				}
				return "dataset-" + w
			}
		case "job":
			if len(f) > 2 && f[2] == "state" {
				return "job-state"
			}
			return "job-definition"
		}
		return f[0]
	}
	for _, x := range a {
		if !bm[x] {
			return pick(x)
		}
	}
	for _, x := range b {
		if !am[x] {
			return pick(x)
		}
	}
	return "multiplicity"
}

type C14Params struct {
	// App: the hub under test is a whole DatahubInstance (app.go), restarted through its own Stop
	App   bool `json:"app,omitempty"`
	Probe bool `json:"probe"`
}

// c14Replay replays one history on a hub of its own.
func c14Replay(task engine.SeqTask) (res engine.SeqResult) {
	var w *c14World
	defer func() {
		if r := recover(); r != nil {
			res.Viol = append(res.Viol, engine.Violation{Key: "C14:panic|" + fmt.Sprint(r), What: fmt.Sprintf("panic while replaying history: %v %s", r, short(string(debug.Stack())))})
		}
		if w != nil {
			func() {
				defer func() { _ = recover() }()
				w.destroy()
			}()
		}
	}()
	var prm C14Params
	_ = json.Unmarshal(task.Params, &prm)
	if prm.App {
		w = c14OpenApp()
	} else {
		w = c14Open()
	}
	h := w.h
	// the job sink is not part of the model: only the differential oracle looks at it. It is created first, so
	// that B is the most recently created dataset of the initial state
	if _, err := w.jw.W.Dsm.CreateDataset(h.DsName("J"), nil); err != nil {
		res.HarnessEr = err.Error()
		return
	}
	if err := h.EnsureDatasets("A", "B"); err != nil {
		res.HarnessEr = err.Error()
		return
	}
	// non-initial state: B already holds an entity
	if err := h.ApplyWrite(server.VOp{K: "batch", DS: "B", Ents: []server.VEnt{{ID: "e3", C: 0}}}); err != nil {
		res.HarnessEr = err.Error()
		return
	}
	// unscoped answers would merge in the job sink J, which the model does not hold: they are covered by the
	// differential oracle (b) only
	chk := &server.VCheck{H: h, SkipKnownC03: true, ScopedOnly: true}
	var last c14Op
	for i, raw := range task.Hist {
		var op c14Op
		if err := json.Unmarshal(raw, &op); err != nil {
			res.HarnessEr = err.Error()
			return
		}
		if i == len(task.Hist)-1 {
			chk.Last = op.String()
			last = op
		}
		skip, err := w.apply(op)
		if skip {
			res.Skip, res.Key = true, "skip"
			return
		}
		if err != nil {
			if i == len(task.Hist)-1 {
				chk.Fail("C14:operation-failed:"+op.K, fmt.Sprintf("operation %s failed: %v", op, err))
			} else {
				res.Skip, res.Key = true, "skip" // reported when that prefix was the whole history
				return
			}
		}
	}
	ids := []string{"e1", "e2", "e3"}
	// (a) the data read APIs against the model (restarts are not part of the model)
	live := map[string]bool{}
	for _, n := range w.jw.W.Dsm.GetDatasetNames() {
		if strings.HasSuffix(n.Name, "."+h.Tag) {
			live[h.AbsDs(n.Name)] = true
		}
	}
	for _, n := range []string{"A", "A2", "B", "C", "P", "P2"} {
		_, inModel := h.M.Datasets[n]
		if live[n] != inModel {
			chk.Fail("C14:dataset-list:"+n, fmt.Sprintf("dataset %s listed=%v, the history says exists=%v", n, live[n], inModel))
		}
	}
	chk.CheckLatest(ids)
	chk.CheckFeed()
	var liveNames []string
	for _, d := range h.M.LiveInOrder() {
		liveNames = append(liveNames, d.Name)
	}
	scopes := [][]string{}
	for _, n := range liveNames {
		scopes = append(scopes, []string{n})
	}
	chk.CheckRelations(ids, scopes)
	// (b) differential across a stop/start
	before := w.observe()
	key := c14Key(w, before)
	w.restart()
	after := w.observe()
	chk.Checks++
	if d := diffLines(before, after); d != "" {
		chk.Fail("C14:restart-changes-observation:"+diffClause(before, after), "stopping and starting the hub changed what the read APIs answer:\n"+d)
	}
	// (c) raw invariants after the restart, and after a probe write that introduces a new id and new changes
	for _, p := range h.RawInvariants(liveNames) {
		chk.Fail("C14:raw-invariant-after-restart", p)
	}
	if _, ok := h.M.Datasets["A"]; ok {
		pool := model.Pool(0)
		probe := server.VOp{K: "batch", DS: "A", Ents: []server.VEnt{{ID: "e4", C: model.PoolIndex(pool, "v1r2")}, {ID: "e1", C: model.PoolIndex(pool, "s")}}}
		if err := h.ApplyWrite(probe); err != nil {
			chk.Fail("C14:probe-write-rejected", "a write after the restart was rejected: "+err.Error())
		} else {
			save := chk.Last
			chk.Last = save + "+probe"
			chk.CheckLatest(append(ids, "e4"))
			chk.CheckFeed()
			for _, p := range h.RawInvariants(liveNames) {
				chk.Fail("C14:raw-invariant-after-probe", p)
			}
			chk.Last = save
		}
	}
	if last.K == "restart" {
		// a restart is supposed to change nothing, so the state after it has the same canonical form as before it:
		// without this mark the search would never continue a history behind a restart
		key += "|just-restarted"
	}
	res.Key = key
	res.Viol = chk.Viol
	res.Checks = chk.Checks
	res.Outcome = key[:8]
	return
}

// c14Key: canonical state = canonical raw scan of the store for the history's datasets + everything else the
// observation holds outside entity data (job definitions, token presence, schedule membership, history
// length, clients, ACLs, providers, dataset configuration).
func c14Key(w *c14World, obs []string) string {
	h := w.h
	var extra []string
	for _, x := range obs {
		switch {
		case strings.HasPrefix(x, "datasets "), strings.HasPrefix(x, "scheduled "), strings.HasPrefix(x, "event-"), strings.HasPrefix(x, "client "), strings.HasPrefix(x, "acl "), strings.HasPrefix(x, "providers "), strings.HasPrefix(x, "provider-usable "):
			extra = append(extra, x)
		case strings.HasPrefix(x, "job ") && !strings.Contains(x, " state "):
			extra = append(extra, x)
		case strings.HasPrefix(x, "job ") && strings.Contains(x, " state "):
			extra = append(extra, fmt.Sprintf("state-token-empty=%v ok=%v", strings.Contains(x, `"token":""`), strings.Contains(x, `"lastrunok":true`)))
		case strings.HasPrefix(x, "job-history "):
			extra = append(extra, fmt.Sprintf("history-entries=%d", strings.Count(x, `"id"`)))
		case strings.HasPrefix(x, "dataset ") && strings.Contains(x, " subject="):
			extra = append(extra, x)
		}
	}
	c := h.Canon([]string{"e1", "e2", "e3", "e4"}, []string{"A", "A2", "B", "C", "P", "P2", "X", "X2", "J"}, strings.Join(extra, "\n")+"\n"+h.CatalogueDigest())
	sum := sha1.Sum([]byte(c))
	return hex.EncodeToString(sum[:])
}

func c14Alphabet(wide bool) []c14Op {
	pool := model.Pool(0)
	ix := func(n string) int { return model.PoolIndex(pool, n) }
	ops := []c14Op{
		{K: "restart"},
		{K: "batch", DS: "A", Ents: []server.VEnt{{ID: "e1", C: ix("v1")}}},
		{K: "batch", DS: "A", Ents: []server.VEnt{{ID: "e1", C: ix("v2r2")}, {ID: "e2", C: ix("r1")}}},
		{K: "txn", Parts: map[string][]server.VEnt{"A": {{ID: "e1", C: ix("dv1")}}, "B": {{ID: "e2", C: ix("v1")}}}},
		{K: "create", DS: "C"},
		{K: "create", DS: "P", N: 1},
		{K: "rename", DS: "A", To: "A2"},
		{K: "delete", DS: "B"},
		{K: "delete", DS: "P"},
		{K: "setns", DS: "P", N: 2},
		{K: "lookupns", N: 1},
		{K: "addjob", Job: "j1"},
		{K: "pause", Job: "j1"},
		{K: "run", Job: "j1"},
		{K: "reg", C: "c1"},
		{K: "unreg", C: "c1"},
		{K: "setacl", C: "c1", N: 0},
		{K: "delacl", C: "c1"},
		{K: "setacl", C: "c2", N: 1},
		{K: "addprov", C: "p1"},
	}
	if wide {
		ops = append(ops,
			c14Op{K: "batch", DS: "B", Ents: []server.VEnt{{ID: "e1", C: ix("r2")}}},
			c14Op{K: "create", DS: "X", N: 2},
			c14Op{K: "rename", DS: "X", To: "X2"},
			c14Op{K: "rename", DS: "P", To: "P2"},
			c14Op{K: "create", DS: "B"},
			c14Op{K: "addjob", Job: "j2", N: 1},
			c14Op{K: "addjob", Job: "j3", N: 2},
			c14Op{K: "addjob", Job: "j4", N: 3},
			c14Op{K: "addjob", Job: "j5", N: 4},
			c14Op{K: "pause", Job: "j5"},
			c14Op{K: "unpause", Job: "j1"},
			c14Op{K: "unpause", Job: "j2"},
			c14Op{K: "run", Job: "j3"},
			c14Op{K: "reset", Job: "j1"},
			c14Op{K: "deljob", Job: "j1"},
			c14Op{K: "reg", C: "c2"},
			c14Op{K: "setacl", C: "c1", N: 1},
			c14Op{K: "delacl", C: "c2"},
			c14Op{K: "delprov", C: "p1"},
			c14Op{K: "setns", DS: "A", N: 1},
			c14Op{K: "addprov", C: "P2"},
			c14Op{K: "delprov", C: "P2"},
			c14Op{K: "delprov", C: "p2"},
		)
	}
	return ops
}

func init() {
	engine.RegisterWorker("c14", func(args []string) {
		engine.ServeWorker(func(task []byte) interface{} {
			var t engine.SeqTask
			if err := json.Unmarshal(task, &t); err != nil {
				return engine.SeqResult{HarnessEr: err.Error()}
			}
			return c14Replay(t)
		})
	})
	engine.RegisterWorker("replay-c14", func(args []string) {
		b, err := os.ReadFile(args[0])
		if err != nil {
			fmt.Println(err)
			os.Exit(2)
		}
		var v struct {
			Replay struct {
				Hist   []json.RawMessage `json:"hist"`
				Params json.RawMessage   `json:"params"`
			} `json:"replay"`
		}
		_ = json.Unmarshal(b, &v)
		os.Setenv("VERIF_SCRATCH", server.VScratchBase())
		if _, err := os.Stat(filepath.Join(c16KeyDir(), "node_key")); err != nil {
			_ = c16PrepareKeys()
		}
		res := c14Replay(engine.SeqTask{Hist: v.Replay.Hist, Params: v.Replay.Params})
		out, _ := json.MarshalIndent(res, "", " ")
		fmt.Println(string(out))
		if len(res.Viol) > 0 {
			os.Exit(1)
		}
	})
	engine.RegisterCheck("C14", func(r *engine.Run) {
		r.Rule = "SEQ: every history up to the stated depth over the alphabet {restart, 3 data writes incl. a two-dataset transaction, a lookup by full URI in an unmentioned namespace, create plain / with public namespaces, rename, delete, add job, pause, run, register client, set ACL, delete ACL, add login provider} (also delete of the dataset with public namespaces and a change of its public namespaces through its meta-entity in core.Dataset; wide alphabet adds proxy dataset, login providers with mixed-case names, re-create, paused and fullsync jobs, a job with an on-change trigger (real event bus: registered topics and per-subscriber topic sets are part of the observation), unpause, reset, delete job, un-register, second client/ACL, delete provider) on a hub of its own (store, dataset manager, runner, scheduler, security core, token providers); after every history (a) data read APIs vs the reference model that ignores restarts, (b) full observation through every read API before vs after a stop/start, (c) raw-key invariants after the restart and after a probe write; states deduplicated by canonical raw scan + non-entity observation"
		r.Assumptions = []string{"quiescent points only: no full sync in progress, no running job at the moment of the restart", "Restart = Runner.Stop, Store.Close, then NewStore, NewDsManager, NewRunner, NewScheduler, NewServiceCore, NewProviderManager/NewTokenProviders on the same directories", "node key pre-generated (2048 bit)", "searches c14-app*: the hub is a DatahubInstance built by app.go's NewDatahubInstance (real wiring, real web service object, no listener), Restart = DatahubInstance.Stop then NewDatahubInstance on the same configuration"}
		if err := c16PrepareKeys(); err != nil {
			r.Cap("cannot prepare keys: " + err.Error())
			return
		}
		appParams, _ := json.Marshal(C14Params{App: true})
		if r.Quick() {
			engine.RunSeq(r, engine.SeqSpec{Name: "c14-core", WorkerArgs: []string{"worker", "c14"}, Alphabet: c14OpsJSON(c14Alphabet(false)), Depth: 3, Budget: 150 * time.Second})
			engine.RunSeq(r, engine.SeqSpec{Name: "c14-wide", WorkerArgs: []string{"worker", "c14"}, Alphabet: c14OpsJSON(c14Alphabet(true)), Depth: 2, Budget: 60 * time.Second})
			engine.RunSeq(r, engine.SeqSpec{Name: "c14-app", WorkerArgs: []string{"worker", "c14"}, Alphabet: c14OpsJSON(c14Alphabet(true)), Params: appParams, Depth: 1, Budget: 60 * time.Second})
			engine.RunSeq(r, engine.SeqSpec{Name: "c14-app-core", WorkerArgs: []string{"worker", "c14"}, Alphabet: c14OpsJSON(c14Alphabet(false)), Params: appParams, Depth: 2, Budget: 60 * time.Second})
		} else {
			engine.RunSeq(r, engine.SeqSpec{Name: "c14-core", WorkerArgs: []string{"worker", "c14"}, Alphabet: c14OpsJSON(c14Alphabet(false)), Depth: 4, Budget: 60 * time.Minute})
			engine.RunSeq(r, engine.SeqSpec{Name: "c14-wide", WorkerArgs: []string{"worker", "c14"}, Alphabet: c14OpsJSON(c14Alphabet(true)), Depth: 3, Budget: 60 * time.Minute})
			engine.RunSeq(r, engine.SeqSpec{Name: "c14-app", WorkerArgs: []string{"worker", "c14"}, Alphabet: c14OpsJSON(c14Alphabet(true)), Params: appParams, Depth: 2, Budget: 30 * time.Minute})
		}
	})
}

func c14OpsJSON(ops []c14Op) []json.RawMessage {
	var out []json.RawMessage
	for _, o := range ops {
		b, _ := json.Marshal(o)
		out = append(out, b)
	}
	return out
}
