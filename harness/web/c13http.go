package web

import (
	"encoding/json"
	"fmt"
	"net/http"
	"net/http/httptest"
	"sort"
	"strings"

	"github.com/mimiro-io/datahub/internal/server"
	"github.com/mimiro-io/datahub/internal/verifrt/engine"
)

// C13 at the HTTP layer: "GET /namespaces, @context of every response". After a POST that introduces namespaces,
// every sequence of up to three reads over {entities, changes (each as JSON and as JSON-LD), namespaces, query}
// is issued; after every single read GET /namespaces must be exactly the namespace manager's table and one-to-one,
// and the @context of every plain JSON response must be a part of it. What one response adds for its own use (the
// "core" and "rdf" aliases of a JSON-LD document) must not show up anywhere else.

type c13hResult struct {
	Sequences int                `json:"sequences"`
	Reads     int                `json:"reads"`
	Viol      []engine.Violation `json:"viol,omitempty"`
	Err       string             `json:"err,omitempty"`
}

func (w *c15World) requestAccept(method, path, body, accept string) (code int, out []byte, panicked string) {
	var req *http.Request
	if body != "" || method == http.MethodPost {
		req = httptest.NewRequest(method, path, strings.NewReader(body))
		req.Header.Set("Content-Type", "application/json")
	} else {
		req = httptest.NewRequest(method, path, nil)
	}
	if accept != "" {
		req.Header.Set("Accept", accept)
	}
	rec := httptest.NewRecorder()
	func() {
		defer func() {
			if r := recover(); r != nil {
				panicked = fmt.Sprint(r)
			}
		}()
		w.ws.echo.ServeHTTP(rec, req)
	}()
	return rec.Code, rec.Body.Bytes(), panicked
}

func c13hRun() (res c13hResult) {
	defer func() {
		if r := recover(); r != nil {
			res.Err = fmt.Sprint("panic: ", r)
			c15W = nil
		}
	}()
	w := c15Get()
	fail := func(key, what string) {
		for _, v := range res.Viol {
			if v.Key == key {
				return
			}
		}
		if len(res.Viol) < 40 {
			res.Viol = append(res.Viol, engine.Violation{Key: key, What: what, Engine: "ENUM:c13-http"})
		}
	}
	reads := []string{"entities", "entities-ld", "changes", "changes-ld", "namespaces", "query"}
	var seqs [][]string
	var gen func(cur []string)
	gen = func(cur []string) {
		if len(cur) > 0 {
			seqs = append(seqs, append([]string{}, cur...))
		}
		if len(cur) == 3 {
			return
		}
		for _, r := range reads {
			gen(append(cur, r))
		}
	}
	gen(nil)
	for si, sq := range seqs {
		for _, pub := range []bool{false, true} {
			res.Sequences++
			w.n++
			ds := fmt.Sprintf("n%d", w.n)
			var cfg *server.CreateDatasetConfig
			if pub {
				cfg = &server.CreateDatasetConfig{PublicNamespaces: []string{fmt.Sprintf("http://c13h/%d/a/", w.n)}}
			}
			if _, err := w.jw.W.Dsm.CreateDataset(ds, cfg); err != nil {
				res.Err = err.Error()
				return
			}
			doc := fmt.Sprintf(`[{"id":"@context","namespaces":{"a":"http://c13h/%d/a/","b":"http://c13h/%d/b#"}},{"id":"a:x","props":{"b:p":1},"refs":{"b:r":"a:y"}}]`, w.n, w.n)
			if code, body, pn := w.request(http.MethodPost, "/datasets/"+ds+"/entities", doc); code != 200 || pn != "" {
				res.Err = fmt.Sprintf("POST failed: %d %s %s", code, body, pn)
				return
			}
			// a second document, as another hub would send it: it binds a prefix shaped like this hub's own (ns2) to a
			// namespace of its own; compact and expand must still return the URI the document denotes
			if si%40 == 0 && !pub { // (a dataset with public namespaces serves only those in its context)
				foreign := fmt.Sprintf("http://c13h/%d/other-hub/", w.n)
				doc2 := fmt.Sprintf(`[{"id":"@context","namespaces":{"ns2":"%s"}},{"id":"ns2:z","props":{"ns2:p":1},"refs":{}}]`, foreign)
				if code, body, pn := w.request(http.MethodPost, "/datasets/"+ds+"/entities", doc2); code != 200 || pn != "" {
					fail("C13:http-foreign-prefix-rejected", fmt.Sprintf("POST of a document that binds ns2 to %s answered %d %s %s", foreign, code, short(string(body)), pn))
				} else {
					ents, err := w.feed(ds)
					found := false
					if err == nil {
						for _, e := range ents {
							if e.ID == foreign+"z" {
								found = true
							}
						}
					}
					if !found {
						var ids []string
						for _, e := range ents {
							ids = append(ids, e.ID)
						}
						fail("C13:http-foreign-prefix-not-round-tripped", fmt.Sprintf("a document binding ns2 to %s posted ns2:z; the dataset holds %v, not %sz (err %v)", foreign, ids, foreign, err))
					}
				}
			}
			label := fmt.Sprintf("%v publicNamespaces=%v", sq, pub)
			for ri, rd := range sq {
				res.Reads++
				var code int
				var body []byte
				var pn string
				switch rd {
				case "entities":
					code, body, pn = w.requestAccept(http.MethodGet, "/datasets/"+ds+"/entities", "", "application/json")
				case "entities-ld":
					code, body, pn = w.requestAccept(http.MethodGet, "/datasets/"+ds+"/entities", "", "application/ld+json")
				case "changes":
					code, body, pn = w.requestAccept(http.MethodGet, "/datasets/"+ds+"/changes", "", "application/json")
				case "changes-ld":
					code, body, pn = w.requestAccept(http.MethodGet, "/datasets/"+ds+"/changes", "", "application/ld+json")
				case "namespaces":
					code, body, pn = w.requestAccept(http.MethodGet, "/namespaces", "", "")
				case "query":
					code, body, pn = w.requestAccept(http.MethodPost, "/query", fmt.Sprintf(`{"entityId":"http://c13h/%d/a/x"}`, w.n), "")
				}
				if pn != "" || code != 200 {
					fail("C13:http-read-fails:"+rd, fmt.Sprintf("%s, read %d (%s): status %d %s %s", label, ri+1, rd, code, short(string(body)), pn))
					continue
				}
				// the manager's table
				table := server.VNsTable(w.jw.W.Store)
				// the @context of a plain JSON response is a part of it
				if rd == "entities" || rd == "changes" || rd == "query" {
					var arr []json.RawMessage
					if json.Unmarshal(body, &arr) == nil && len(arr) > 0 {
						var ctx struct {
							Namespaces map[string]string `json:"namespaces"`
						}
						_ = json.Unmarshal(arr[0], &ctx)
						for p, e := range ctx.Namespaces {
							if table[p] != e {
								fail("C13:http-context-not-in-table:"+rd, fmt.Sprintf("%s, read %d (%s): the response context binds %s to %s, the namespace table has %q", label, ri+1, rd, p, e, table[p]))
							}
						}
					}
				}
				// GET /namespaces = the table, one-to-one
				code, body, pn = w.requestAccept(http.MethodGet, "/namespaces", "", "")
				if pn != "" || code != 200 {
					fail("C13:http-namespaces-fails", fmt.Sprintf("%s after read %d (%s): GET /namespaces status %d %s", label, ri+1, rd, code, pn))
					continue
				}
				got := map[string]string{}
				_ = json.Unmarshal(body, &got)
				byExp := map[string][]string{}
				for p, e := range got {
					byExp[e] = append(byExp[e], p)
				}
				for e, ps := range byExp {
					if len(ps) > 1 {
						sort.Strings(ps)
						fail("C13:http-two-prefixes-for-one-expansion", fmt.Sprintf("%s after read %d (%s): GET /namespaces lists the prefixes %v for the one expansion %s", label, ri+1, rd, ps, e))
					}
				}
				if len(got) != len(table) {
					var extra []string
					for p := range got {
						if _, ok := table[p]; !ok {
							extra = append(extra, p+"="+got[p])
						}
					}
					sort.Strings(extra)
					fail("C13:http-namespaces-differ-from-table", fmt.Sprintf("%s after read %d (%s): GET /namespaces has %d entries, the namespace manager %d (only in the response: %v)", label, ri+1, rd, len(got), len(table), extra))
				}
				for p, e := range table {
					if got[p] != e {
						fail("C13:http-namespaces-differ-from-table", fmt.Sprintf("%s after read %d (%s): the namespace manager binds %s to %s, GET /namespaces says %q", label, ri+1, rd, p, e, got[p]))
					}
				}
			}
		}
		_ = si
	}
	return
}

func init() {
	engine.RegisterWorker("c13-http", func(args []string) {
		engine.ServeWorker(func(task []byte) interface{} { return c13hRun() })
	})
}
