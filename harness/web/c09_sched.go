package web

import (
	"encoding/json"
	"fmt"
	"os"
	"sort"
	"strings"
	"time"

	"github.com/labstack/echo/v4"

	"github.com/mimiro-io/datahub/internal/jobs"
	"github.com/mimiro-io/datahub/internal/server"
	"github.com/mimiro-io/datahub/internal/verifrt/engine"
	"github.com/mimiro-io/datahub/internal/verifrt/vsync"
)

// FsScenario: client threads sending full-sync requests while the lease goroutine and the passage
// of time (deadline threads) are scheduled by the explorer.
type FsScenario struct {
	Name    string   `json:"name"`
	Threads [][]FsOp `json:"threads"`
	// Allowed final states "live=..|tomb=.." (computed from the statement: expiry ordered before/after each request)
	Allowed []string `json:"allowed"`
}

func fsRunSched(sc *FsScenario, prefix []int, horizon int) *vsync.Execution {
	jw := jobs.JWorldGet(300)
	h := jw.W.NewHist()
	if err := h.EnsureDatasets("A"); err != nil {
		return &vsync.Execution{HarnessErr: err.Error()}
	}
	f := &fsHarness{jw: jw, h: h, e: echo.New(), handler: &datasetHandler{datasetManager: jw.W.Dsm, store: jw.W.Store, eventBus: server.NoOpBus()}}
	f.job = jobs.JNewSinkDriver(jw, h.DsName("A"))
	ds := jw.W.Dsm.GetDataset(h.DsName("A"))
	if err := ds.StoreEntities(f.jobEntities([]string{"e1", "e2", "e3"})); err != nil {
		return &vsync.Execution{HarnessErr: err.Error()}
	}
	server.VInstallHooks()
	s := vsync.NewSched(prefix, horizon)
	s.NameLock(&ds.WriteLock, "WriteLock:A")
	statuses := make([][]int, len(sc.Threads))
	var bodies []func()
	for ti, th := range sc.Threads {
		ti, th := ti, th
		bodies = append(bodies, func() {
			for _, op := range th {
				switch op.K {
				case "jobstart":
					_ = f.job.Start()
				case "jobbatch":
					_ = f.job.Process(f.jobEntities(op.Ents))
				case "jobend":
					_ = f.job.End()
				case "txn":
					statuses[ti] = append(statuses[ti], f.postTxn(op))
				default:
					statuses[ti] = append(statuses[ti], f.post(op))
				}
			}
		})
	}
	timedOut := s.Run(bodies, nil, 30*time.Second)
	x := vsync.Collect(s, timedOut)
	// unsynchronised accesses to the full-sync state are reported in the evidence only (the property is about what gets deleted)
	x.Races = nil
	if x.Fatal() || len(x.Panics) > 0 {
		return x
	}
	live, tomb, err := f.observe()
	if err != nil {
		x.Viol = append(x.Viol, "C09:observe::"+err.Error())
		return x
	}
	var tl []string
	for id, n := range tomb {
		tl = append(tl, fmt.Sprintf("%s:%d", id, n))
	}
	sort.Strings(tl)
	final := "live=" + keys(live) + "|tomb=" + strings.Join(tl, ",")
	x.Outcome = final + fmt.Sprintf("|status=%v", statuses)
	ok := false
	for _, a := range sc.Allowed {
		// "*": the scenario is only about termination (C05: no deadlock), every outcome is acceptable
		if a == final || a == "*" {
			ok = true
		}
	}
	if !ok {
		x.Viol = append(x.Viol, fmt.Sprintf("C09:sched-outcome::requests %v with the lease expiring at some point ended in %s (statuses %v); the statement allows only %v (expiry ordered before or after each request; an expired sync deletes nothing)", sc.Threads, final, statuses, sc.Allowed))
	}
	return x
}

func init() {
	engine.RegisterWorker("sched-fullsync", func(args []string) {
		defer jobs.JWorldDestroy()
		engine.ServeWorker(func(task []byte) interface{} {
			var t struct {
				Scenario FsScenario `json:"scenario"`
				Prefix   []int      `json:"prefix"`
				Want     []string   `json:"want,omitempty"`
				Root     bool       `json:"root,omitempty"`
				Bound    int        `json:"bound"`
				Horizon  int        `json:"horizon"`
				MaxExec  int        `json:"max_exec"`
				BudgetS  int        `json:"budget_s"`
				NotAfter int64      `json:"not_after,omitempty"`
			}
			if err := json.Unmarshal(task, &t); err != nil {
				return server.SchedResult{HarnessEr: err.Error()}
			}
			ex := &vsync.Explorer{Bound: t.Bound, MaxExec: t.MaxExec, Stats: vsync.NewStats()}
			if t.BudgetS > 0 {
				ex.Deadline = time.Now().Add(time.Duration(t.BudgetS) * time.Second)
			}
			if t.NotAfter > 0 {
				if d := time.Unix(t.NotAfter, 0); ex.Deadline.IsZero() || d.Before(ex.Deadline) {
					ex.Deadline = d
				}
			}
			var herr string
			ex.Run = func(prefix []int) *vsync.Execution {
				x := fsRunSched(&t.Scenario, prefix, t.Horizon)
				if x.HarnessErr != "" && herr == "" {
					herr = x.HarnessErr
				}
				if x.Fatal() || len(x.Panics) > 0 {
					jobs.JWorldAbandon()
				}
				return x
			}
			res := server.SchedResult{Stats: ex.Stats}
			if t.Root {
				x, tasks := ex.RootTasks()
				res.Tasks = tasks
				res.RootLabel = x.Labels()
			} else {
				ex.Explore(t.Prefix, t.Want)
			}
			res.Fatal = ex.FatalSeen
			res.HarnessEr = herr
			if ex.FatalSeen {
				defer func() { go func() { time.Sleep(200 * time.Millisecond); os.Exit(0) }() }()
			}
			return res
		})
	})
}

func c09Sched(r *engine.Run) {
	scs := []FsScenario{
		{Name: "F1-start-end-vs-expiry", Threads: [][]FsOp{{{K: "start", ID: "x", Ents: []string{"e1"}}, {K: "end", ID: "x", Ents: []string{"e4"}}}},
			Allowed: []string{"live=e1,e4|tomb=e2:1,e3:1", "live=e1,e2,e3,e4|tomb=", "live=e1,e2,e3|tomb="}},
		{Name: "F2-start-batch-end-vs-expiry", Threads: [][]FsOp{{{K: "start", ID: "x", Ents: []string{"e1"}}, {K: "batch", ID: "x", Ents: []string{"e2"}}, {K: "end", ID: "x"}}},
			Allowed: []string{"live=e1,e2|tomb=e3:1", "live=e1,e2,e3|tomb="}},
		{Name: "F3-single-request-sync-vs-expiry", Threads: [][]FsOp{{{K: "startend", ID: "x", Ents: []string{"e1", "e2"}}}},
			Allowed: []string{"live=e1,e2|tomb=e3:1", "live=e1,e2,e3|tomb="}},
		{Name: "F4-end-vs-second-client-batch", Threads: [][]FsOp{{{K: "start", ID: "x", Ents: []string{"e1"}}, {K: "end", ID: "x"}}, {{K: "batch", ID: "x", Ents: []string{"e2"}}}},
			Allowed: []string{"live=e1,e2|tomb=e3:1", "live=e1,e2,e3|tomb=", "live=e1,e2|tomb=e2:1,e3:1", "live=e1|tomb=e2:1,e3:1"}},
	}
	for _, sc := range scs {
		// one preemption = time passes (the deadline thread runs) at any single point of the requests; the lease
		// goroutine then runs at the next free choice. thorough adds a second preemption (splitting the lease goroutine).
		bound := 1
		budget := 60
		if !r.Quick() {
			bound = 2
			budget = 300 // per subtree; the scenario as a whole stops after three times that (F4 does not finish at bound 2)
		}
		engine.RunSched(r, engine.SchedSpec{Name: sc.Name, WorkerArgs: []string{"worker", "sched-fullsync"}, Scenario: sc, Bound: bound, Horizon: 2500, BudgetS: budget})
	}
}
