package web

import (
	"encoding/json"
	"fmt"
	"io"
	"net/http"
	"net/http/httptest"
	"sort"
	"strings"
	"sync"
	"time"

	"github.com/mimiro-io/datahub/internal/jobs"
	"github.com/mimiro-io/datahub/internal/server"
	"github.com/mimiro-io/datahub/internal/verifrt/engine"
)

// HTTP-typed job building blocks against a real peer: a second hub of its own (store, web service) behind a real
// loopback listener, plus a small transform endpoint. The local hub runs real jobs (definitions in JSON, added
// through the real scheduler) that pull from the peer (HttpDatasetSource), push to it (HttpDatasetSink) and send
// their batches through an HTTP transform. ENUM over a small box of sizes, batch sizes, job types and peer
// behaviours; the oracles are those of C10 (copy equals source, transform sees every entity exactly once per run,
// a second run changes nothing) and C11 (a run that is killed while the peer stalls ends, is recorded and frees
// its slot).

type peerResult struct {
	Cases int                `json:"cases"`
	Viol  []engine.Violation `json:"viol,omitempty"`
	Err   string             `json:"err,omitempty"`
}

type peerSetup struct {
	local, remote *c15World
	srv           *httptest.Server
	mu            sync.Mutex
	// transform endpoint state
	seen      map[string]int // entity id -> deliveries since the last reset
	failFirst int            // number of requests still to be answered with 503 (after reading the body)
	requests  int
	// stalling source
	stall    chan struct{} // closed to release stalled handlers
	entered  chan struct{} // receives one value per stalled request
	stallNow bool
	// scripted sources
	scripted   map[string][]string
	scriptedAt map[string]int
}

func (p *peerSetup) reset() {
	p.mu.Lock()
	p.seen, p.failFirst, p.requests = map[string]int{}, 0, 0
	p.mu.Unlock()
}

func newPeerSetup() *peerSetup {
	p := &peerSetup{local: c15New(), remote: c15New(), seen: map[string]int{}, stall: make(chan struct{}), entered: make(chan struct{}, 16),
		scripted: map[string][]string{}, scriptedAt: map[string]int{}}
	p.srv = httptest.NewServer(http.HandlerFunc(func(rw http.ResponseWriter, req *http.Request) {
		switch {
		case req.URL.Path == "/transform":
			body, _ := io.ReadAll(req.Body)
			var ents []map[string]interface{}
			_ = json.Unmarshal(body, &ents)
			p.mu.Lock()
			p.requests++
			for _, e := range ents {
				if id, _ := e["id"].(string); id != "" && id != "@context" {
					p.seen[id]++
				}
			}
			fail := p.failFirst > 0
			if fail {
				p.failFirst--
			}
			p.mu.Unlock()
			if fail {
				rw.WriteHeader(http.StatusServiceUnavailable)
				return
			}
			rw.Header().Set("Content-Type", "application/json")
			_, _ = rw.Write(body)
		case strings.HasPrefix(req.URL.Path, "/scripted/"):
			// a source that is not a hub: during the k-th run (the harness says which) it serves the k-th scripted
			// document (continuation token "t<k>"), and an empty page to the request that continues from that token
			name := strings.TrimPrefix(req.URL.Path, "/scripted/")
			p.mu.Lock()
			docs := p.scripted[name]
			k := p.scriptedAt[name]
			p.mu.Unlock()
			tok := fmt.Sprintf("t%d", k+1)
			rw.Header().Set("Content-Type", "application/json")
			if k < len(docs) && req.URL.Query().Get("since") != tok {
				_, _ = rw.Write([]byte(docs[k]))
			} else {
				_, _ = rw.Write([]byte(`[{"id":"@context","namespaces":{}},{"id":"@continuation","token":"` + tok + `"}]`))
			}
		case strings.HasPrefix(req.URL.Path, "/stall/"):
			// a source that starts answering and then stalls
			p.mu.Lock()
			stall := p.stallNow
			p.mu.Unlock()
			if stall {
				rw.Header().Set("Content-Type", "application/json")
				_, _ = rw.Write([]byte(`[{"id":"@context","namespaces":{}}`))
				if f, ok := rw.(http.Flusher); ok {
					f.Flush()
				}
				p.entered <- struct{}{}
				select {
				case <-p.stall:
				case <-req.Context().Done():
				}
				return
			}
			req.URL.Path = strings.TrimPrefix(req.URL.Path, "/stall")
			p.remote.ws.echo.ServeHTTP(rw, req)
		default:
			p.remote.ws.echo.ServeHTTP(rw, req)
		}
	}))
	return p
}

func (p *peerSetup) close() {
	close(p.stall)
	p.srv.Close()
	p.local.destroy()
	p.remote.destroy()
}

// view returns "id=content" lines of a dataset's latest state (ids by their full URI, properties and refs as JSON)
func peerView(w *c15World, ds string) []string {
	d := w.jw.W.Dsm.GetDataset(ds)
	if d == nil {
		return []string{"<no dataset " + ds + ">"}
	}
	r, err := d.GetEntities("", -1)
	if err != nil {
		return []string{"error:" + err.Error()}
	}
	var l []string
	for _, e := range r.Entities {
		n := w.normEntity(e)
		b, _ := json.Marshal(n)
		l = append(l, string(b))
	}
	sort.Strings(l)
	return l
}

func peerFeedLen(w *c15World, ds string) int {
	d := w.jw.W.Dsm.GetDataset(ds)
	if d == nil {
		return -1
	}
	ch, err := d.GetChanges(0, 0, false)
	if err != nil {
		return -1
	}
	return len(ch.Entities)
}

// load writes n entities (ids x0..x(n-1); entity 0 gets a second version; the last one is deleted if n >= 3)
func peerLoad(w *c15World, ds string, n int, tag string) error {
	if _, err := w.jw.W.Dsm.CreateDataset(ds, nil); err != nil {
		return err
	}
	if n == 0 {
		return nil
	}
	var els []string
	for i := 0; i < n; i++ {
		els = append(els, fmt.Sprintf(`{"id":"x%d","props":{"n":%d,"t":"%s"},"refs":{"r":"x0"}}`, i, i, tag))
	}
	els = append(els, `{"id":"x0","props":{"n":0,"t":"second"},"refs":{}}`)
	if n >= 3 {
		els = append(els, fmt.Sprintf(`{"id":"x%d","deleted":true,"props":{},"refs":{}}`, n-1))
	}
	doc := `[{"id":"@context","namespaces":{"_":"http://peer/` + tag + `/"}},` + strings.Join(els, ",") + `]`
	code, body, pn := w.request(http.MethodPost, "/datasets/"+ds+"/entities", doc)
	if code != 200 || pn != "" {
		return fmt.Errorf("load %s: %d %s %s", ds, code, short(string(body)), pn)
	}
	return nil
}

func (p *peerSetup) addJob(def map[string]interface{}) (string, error) {
	b, _ := json.Marshal(def)
	cfg, err := p.local.jw.Sched.Parse(b)
	if err != nil {
		return "", err
	}
	if err := p.local.jw.Sched.AddJob(cfg); err != nil {
		return "", err
	}
	return cfg.ID, nil
}

func (p *peerSetup) lastError(id string) (string, bool) {
	for _, h := range p.local.jw.Sched.GetJobHistory() {
		if h.ID == id {
			return h.LastError, true
		}
	}
	return "", false
}

func peerRun() (res peerResult) {
	defer func() {
		if r := recover(); r != nil {
			res.Err = fmt.Sprint("panic: ", r)
		}
	}()
	p := newPeerSetup()
	defer p.close()
	fail := func(key, what string) {
		for _, v := range res.Viol {
			if v.Key == key {
				return
			}
		}
		if len(res.Viol) < 60 {
			res.Viol = append(res.Viol, engine.Violation{Key: key, What: what, Engine: "ENUM:http-peer"})
		}
	}
	n := 0
	trig := func(jt string) []interface{} {
		return []interface{}{map[string]interface{}{"triggerType": "cron", "jobType": jt, "schedule": "0 0 1 1 *"}}
	}
	// one job object per job id, as in the hub: built once, run by its trigger again and again
	objs := map[string]*jobs.JJob{}
	run := func(id string) string {
		jo := objs[id]
		if jo == nil {
			var err error
			if jo, err = p.local.jw.JLoadStoredJob(id); err != nil {
				return "harness: " + err.Error()
			}
			objs[id] = jo
		}
		return jo.RunSync()
	}
	sizes := []int{0, 1, 3, 5, 12}
	batches := []int{1, 2, 10}
	// ---- pull: HttpDatasetSource -> DatasetSink
	for _, jt := range []string{"incremental", "fullsync"} {
		for _, sz := range sizes {
			for _, b := range batches {
				n++
				res.Cases++
				rds, lds := fmt.Sprintf("r%d", n), fmt.Sprintf("z%d", n)
				cfg := fmt.Sprintf("pull jobType=%s entities=%d batch=%d", jt, sz, b)
				if err := peerLoad(p.remote, rds, sz, "pull"); err != nil {
					res.Err = err.Error()
					return
				}
				if _, err := p.local.jw.W.Dsm.CreateDataset(lds, nil); err != nil {
					res.Err = err.Error()
					return
				}
				id, err := p.addJob(map[string]interface{}{"id": fmt.Sprintf("pull-%d", n), "title": fmt.Sprintf("pull-%d", n), "paused": true, "batchSize": b,
					"source": map[string]interface{}{"Type": "HttpDatasetSource", "Url": p.srv.URL + "/datasets/" + rds + "/changes"},
					"sink":   map[string]interface{}{"Type": "DatasetSink", "Name": lds}, "triggers": trig(jt)})
				if err != nil {
					fail("C10:http-job-rejected|"+cfg, cfg+": the definition was rejected: "+err.Error())
					continue
				}
				if pn := run(id); pn != "" {
					fail("C11:run-crashes-hub|"+cfg, cfg+": the run panics: "+pn)
					continue
				}
				if le, ok := p.lastError(id); !ok || le != "" {
					fail("C10:http-run-fails|"+cfg, fmt.Sprintf("%s: the run did not end as a recorded success (recorded=%v error=%q)", cfg, ok, le))
					continue
				}
				if a, z := peerView(p.remote, rds), peerView(p.local, lds); strings.Join(a, "\n") != strings.Join(z, "\n") {
					fail("C10:http-pull-copy-differs|"+cfg, fmt.Sprintf("%s: after the run the local copy %v differs from the remote dataset %v", cfg, z, a))
				}
				if jt == "incremental" {
					before := peerFeedLen(p.local, lds)
					if pn := run(id); pn != "" {
						fail("C11:run-crashes-hub|"+cfg, cfg+": the second run panics: "+pn)
					}
					if after := peerFeedLen(p.local, lds); after != before {
						fail("C10:http-rerun-changes|"+cfg, fmt.Sprintf("%s: running the job again added %d changes to the sink although nothing changed", cfg, after-before))
					}
				}
			}
		}
	}
	// ---- push: DatasetSource -> HttpDatasetSink
	for _, jt := range []string{"incremental", "fullsync"} {
		for _, sz := range sizes {
			for _, b := range batches {
				if jt == "fullsync" && sz == 0 {
					// left out: the HTTP sink announces a fullsync with its first batch, so a fullsync of an empty source
					// only sends the end and the peer refuses it (410); the run is recorded as failed (DESIGN.md section 9)
					continue
				}
				n++
				res.Cases++
				lds, rds := fmt.Sprintf("a%d", n), fmt.Sprintf("s%d", n)
				cfg := fmt.Sprintf("push jobType=%s entities=%d batch=%d", jt, sz, b)
				if err := peerLoad(p.local, lds, sz, "push"); err != nil {
					res.Err = err.Error()
					return
				}
				// the remote dataset already holds something the source does not have: a fullsync has to remove it
				if err := peerLoad(p.remote, rds, 1, "old"); err != nil {
					res.Err = err.Error()
					return
				}
				id, err := p.addJob(map[string]interface{}{"id": fmt.Sprintf("push-%d", n), "title": fmt.Sprintf("push-%d", n), "paused": true, "batchSize": b,
					"source": map[string]interface{}{"Type": "DatasetSource", "Name": lds},
					"sink":   map[string]interface{}{"Type": "HttpDatasetSink", "Url": p.srv.URL + "/datasets/" + rds + "/entities"}, "triggers": trig(jt)})
				if err != nil {
					fail("C10:http-job-rejected|"+cfg, cfg+": the definition was rejected: "+err.Error())
					continue
				}
				if pn := run(id); pn != "" {
					fail("C11:run-crashes-hub|"+cfg, cfg+": the run panics: "+pn)
					continue
				}
				if le, ok := p.lastError(id); !ok || le != "" {
					fail("C10:http-run-fails|"+cfg, fmt.Sprintf("%s: the run did not end as a recorded success (recorded=%v error=%q)", cfg, ok, le))
					continue
				}
				// what the remote holds for the ids of the source equals the source; the old entity is live unless a fullsync ran
				src := peerView(p.local, lds)
				rem := peerView(p.remote, rds)
				remSet := map[string]bool{}
				for _, l := range rem {
					remSet[l] = true
				}
				for _, l := range src {
					if !remSet[l] {
						fail("C10:http-push-copy-differs|"+cfg, fmt.Sprintf("%s: the remote dataset lacks %s of the source (remote %v)", cfg, l, rem))
					}
				}
				// the same job object runs again after the hub has learned a namespace it did not know during the first run
				if b == 2 {
					doc := fmt.Sprintf(`[{"id":"@context","namespaces":{"_":"http://peer/later-%d/"}},{"id":"y1","props":{"k":1},"refs":{"r":"y2"}}]`, n)
					if code, body, pn := p.local.request(http.MethodPost, "/datasets/"+lds+"/entities", doc); code != 200 || pn != "" {
						res.Err = fmt.Sprintf("second load: %d %s %s", code, short(string(body)), pn)
						return
					}
					if pn := run(id); pn != "" {
						fail("C11:run-crashes-hub|"+cfg, cfg+": the second run panics: "+pn)
						continue
					}
					if le, ok := p.lastError(id); !ok || le != "" {
						fail("C10:http-second-run-fails|"+cfg, fmt.Sprintf("%s: the second run, after the source received an entity in a namespace that is new to the hub, did not succeed: %q", cfg, le))
						if strings.Contains(le, "expansion") || strings.Contains(le, "pars") || strings.Contains(le, "400") {
							fail("C15:http-sink-batch-not-parsed-by-receiver|"+cfg, fmt.Sprintf("%s: a batch the HTTP sink serialised in its second run (an entity in a namespace the hub learned after the first run) was refused by the receiving hub: %q", cfg, le))
						}
						continue
					}
					want := fmt.Sprintf("http://peer/later-%d/y1", n)
					found := false
					for _, l := range peerView(p.remote, rds) {
						if strings.Contains(l, want) {
							found = true
						}
					}
					if !found {
						fail("C10:http-push-copy-differs|"+cfg, fmt.Sprintf("%s: after the second run the remote dataset lacks %s", cfg, want))
					}
				}
			}
		}
	}
	// ---- transform: DatasetSource -> HttpTransform -> DatasetSink
	type trCase struct {
		mode string
		jt   string
		ctx  bool
	}
	var trCases []trCase
	for _, mode := range []string{"ok", "fail-first-request"} {
		trCases = append(trCases, trCase{mode, "incremental", false})
	}
	trCases = append(trCases, trCase{"ok", "fullsync", false}, trCase{"ok", "incremental", true}, trCase{"ok", "fullsync", true})
	for _, tc := range trCases {
		mode := tc.mode
		for _, sz := range []int{1, 3, 5} {
			for _, b := range batches {
				n++
				res.Cases++
				lds, zds := fmt.Sprintf("t%d", n), fmt.Sprintf("u%d", n)
				cfg := fmt.Sprintf("transform endpoint=%s jobType=%s supportContext=%v entities=%d batch=%d", mode, tc.jt, tc.ctx, sz, b)
				if err := peerLoad(p.local, lds, sz, "tr"); err != nil {
					res.Err = err.Error()
					return
				}
				if _, err := p.local.jw.W.Dsm.CreateDataset(zds, nil); err != nil {
					res.Err = err.Error()
					return
				}
				id, err := p.addJob(map[string]interface{}{"id": fmt.Sprintf("tr-%d", n), "title": fmt.Sprintf("tr-%d", n), "paused": true, "batchSize": b,
					"source":    map[string]interface{}{"Type": "DatasetSource", "Name": lds, "LatestOnly": true},
					"transform": map[string]interface{}{"Type": "HttpTransform", "Url": p.srv.URL + "/transform", "SupportContext": tc.ctx},
					"sink":      map[string]interface{}{"Type": "DatasetSink", "Name": zds}, "triggers": trig(tc.jt)})
				if err != nil {
					fail("C10:http-job-rejected|"+cfg, cfg+": the definition was rejected: "+err.Error())
					continue
				}
				p.reset()
				if mode == "fail-first-request" {
					p.mu.Lock()
					p.failFirst = 1
					p.mu.Unlock()
				}
				if pn := run(id); pn != "" {
					fail("C11:run-crashes-hub|"+cfg, cfg+": the run panics: "+pn)
					continue
				}
				le, ok := p.lastError(id)
				p.mu.Lock()
				twice := ""
				for eid, c := range p.seen {
					if c > 1 {
						twice += fmt.Sprintf(" %s x%d", eid, c)
					}
				}
				p.mu.Unlock()
				if twice != "" {
					fail("C10:http-transform-once|"+cfg, fmt.Sprintf("%s: within one run the transform endpoint received%s (want every entity at most once per run)", cfg, twice))
				}
				if mode == "fail-first-request" {
					if !ok || le == "" {
						fail("C10:http-transform-failure-not-recorded|"+cfg, fmt.Sprintf("%s: the endpoint answered 503 to the first batch, the run is recorded as a success (recorded=%v)", cfg, ok))
					}
					// the next run delivers what is missing
					p.reset()
					if pn := run(id); pn != "" {
						fail("C11:run-crashes-hub|"+cfg, cfg+": the second run panics: "+pn)
						continue
					}
					if le2, ok2 := p.lastError(id); !ok2 || le2 != "" {
						fail("C10:http-run-fails|"+cfg, fmt.Sprintf("%s: the run after the failed one did not succeed (error %q)", cfg, le2))
						continue
					}
				} else if !ok || le != "" {
					fail("C10:http-run-fails|"+cfg, fmt.Sprintf("%s: the run did not end as a recorded success (recorded=%v error=%q)", cfg, ok, le))
					continue
				}
				if a, z := peerView(p.local, lds), peerView(p.local, zds); strings.Join(a, "\n") != strings.Join(z, "\n") {
					fail("C10:http-transform-copy-differs|"+cfg, fmt.Sprintf("%s: with an identity transform endpoint the sink %v differs from the source %v", cfg, z, a))
				}
				if tc.jt == "fullsync" {
					// the second run of a fullsync job hands everything to the endpoint and the sink again: nothing changes
					before := peerFeedLen(p.local, zds)
					p.reset()
					if pn := run(id); pn != "" {
						fail("C11:run-crashes-hub|"+cfg, cfg+": the second run panics: "+pn)
						continue
					}
					if after := peerFeedLen(p.local, zds); after != before {
						fail("C10:http-rerun-changes|"+cfg, fmt.Sprintf("%s: running the job again added %d changes to the sink although nothing changed", cfg, after-before))
					}
				}
			}
		}
	}
	// ---- kill while the peer stalls: the run ends, is recorded, frees its slot; the job can run again
	for _, jt := range []string{"incremental", "fullsync"} {
		n++
		res.Cases++
		rds, lds := fmt.Sprintf("k%d", n), fmt.Sprintf("l%d", n)
		cfg := "kill while HttpDatasetSource is blocked in a stalled response, jobType=" + jt
		if err := peerLoad(p.remote, rds, 3, "kill"); err != nil {
			res.Err = err.Error()
			return
		}
		if _, err := p.local.jw.W.Dsm.CreateDataset(lds, nil); err != nil {
			res.Err = err.Error()
			return
		}
		id, err := p.addJob(map[string]interface{}{"id": fmt.Sprintf("kill-%d", n), "title": fmt.Sprintf("kill-%d", n), "paused": true, "batchSize": 2,
			"source": map[string]interface{}{"Type": "HttpDatasetSource", "Url": p.srv.URL + "/stall/datasets/" + rds + "/changes"},
			"sink":   map[string]interface{}{"Type": "DatasetSink", "Name": lds}, "triggers": trig(jt)})
		if err != nil {
			fail("C10:http-job-rejected|"+cfg, cfg+": the definition was rejected: "+err.Error())
			continue
		}
		p.mu.Lock()
		p.stallNow = true
		p.mu.Unlock()
		done := make(chan string, 1)
		go func() { done <- run(id) }()
		select {
		case <-p.entered:
		case pn := <-done:
			fail("C11:http-kill-harness|"+cfg, cfg+": the run ended before the peer stalled: "+pn)
			continue
		case <-time.After(60 * time.Second):
			fail("C11:http-kill-harness|"+cfg, cfg+": the peer was never contacted")
			continue
		}
		p.local.jw.Sched.KillJob(id)
		ended := false
		select {
		case pn := <-done:
			ended = true
			if pn != "" {
				fail("C11:run-crashes-hub|"+cfg, cfg+": the killed run panics: "+pn)
			}
		case <-time.After(45 * time.Second):
		}
		p.mu.Lock()
		p.stallNow = false
		p.mu.Unlock()
		if !ended {
			fail("C11:http-kill-does-not-end-run|"+cfg, cfg+": 45 s after KillJob the run is still blocked in the HTTP read: it keeps its slot and its id, no outcome is recorded")
			// release the handler so that the worker can go on
			p.stall <- struct{}{}
			<-done
			continue
		}
		if len(p.local.jw.Sched.GetRunningJobs()) != 0 {
			fail("C11:slot-not-released|"+cfg, cfg+": after the killed run ended GetRunningJobs still lists it")
		}
		if _, ok := p.lastError(id); !ok {
			fail("C11:no-run-result|"+cfg, cfg+": the killed run ended but no run result was stored")
		}
		// the job can run again, and now copies
		if pn := run(id); pn != "" {
			fail("C11:run-crashes-hub|"+cfg, cfg+": the run after the kill panics: "+pn)
			continue
		}
		if a, z := peerView(p.remote, rds), peerView(p.local, lds); strings.Join(a, "\n") != strings.Join(z, "\n") {
			fail("C10:http-pull-copy-differs|"+cfg, fmt.Sprintf("%s: the run after the kill leaves the local copy %v, the remote has %v", cfg, z, a))
		}
	}
	_ = server.VNamespace
	return
}

// peerNsRun: the identifier side of jobs that talk HTTP (C13). (1) An identity transform endpoint, with and without
// context support, fed with identifiers of every namespace shape (ending in / or #, local parts that contain / after a
// #, nested paths; not local parts with a / in a slash namespace, which a lookup by URI splits elsewhere by design): the sink must hold each entity under the identifier the source holds it under - listing, lookup by
// full URI and internal-id table agree. (2) A source that is not a hub and binds one prefix to different namespaces
// in the documents of two consecutive runs of the same job object: every document is read under its own context.
func peerNsRun() (res peerResult) {
	defer func() {
		if r := recover(); r != nil {
			res.Err = fmt.Sprint("panic: ", r)
		}
	}()
	p := newPeerSetup()
	defer p.close()
	fail := func(key, what string) {
		for _, v := range res.Viol {
			if v.Key == key {
				return
			}
		}
		if len(res.Viol) < 60 {
			res.Viol = append(res.Viol, engine.Violation{Key: key, What: what, Engine: "ENUM:http-peer-ns"})
		}
	}
	trig := func(jt string) []interface{} {
		return []interface{}{map[string]interface{}{"triggerType": "cron", "jobType": jt, "schedule": "0 0 1 1 *"}}
	}
	objs := map[string]*jobs.JJob{}
	run := func(id string) string {
		jo := objs[id]
		if jo == nil {
			var err error
			if jo, err = p.local.jw.JLoadStoredJob(id); err != nil {
				return "harness: " + err.Error()
			}
			objs[id] = jo
		}
		return jo.RunSync()
	}
	aliases := func(cfg string) {
		if al := server.VURIAliases(p.local.jw.W.Store); len(al) > 0 {
			fail("C13:http-two-internal-ids-for-one-uri|"+cfg, fmt.Sprintf("%s: after the run the identifier table holds one URI under several identifier strings: %v", cfg, al))
		}
	}
	lookups := func(cfg, src, dst string) {
		d := p.local.jw.W.Dsm.GetDataset(src)
		if d == nil {
			return
		}
		r, err := d.GetEntities("", -1)
		if err != nil {
			return
		}
		for _, e := range r.Entities {
			n := p.local.normEntity(e)
			if !strings.HasPrefix(n.ID, "http") {
				continue // only http(s) URIs are compacted on lookup
			}
			got, err := p.local.jw.W.Store.GetEntity(n.ID, []string{dst}, true)
			if err != nil || got == nil || got.Recorded == 0 {
				fail("C13:http-entity-not-found-by-its-uri|"+cfg, fmt.Sprintf("%s: the sink lists %s but a lookup by that URI scoped to the sink finds nothing (err %v)", cfg, n.ID, err))
				continue
			}
			if g := p.local.normEntity(got); g.String() != n.String() {
				fail("C13:http-entity-differs-by-uri|"+cfg, fmt.Sprintf("%s: lookup of %s in the sink gives %s, the source holds %s", cfg, n.ID, g, n))
			}
		}
	}
	n := 0
	// (1) identity transform, identifiers of every shape
	shapes := `[{"id":"@context","namespaces":{"_":"http://peer/ns/","h":"http://peer/ns/handbook#","g":"http://peer/ns/a/b/"}},` +
		`{"id":"h:chapter/7","props":{"h:title/long":"x","g:k":1},"refs":{"h:part/of":"h:book","g:r":"g:deeper"}},` +
		`{"id":"h:book","props":{"_:n":1},"refs":{}},{"id":"g:deeper","props":{},"refs":{"_:r":"h:chapter/7"}},` +
		`{"id":"plain","props":{"n":2},"refs":{"r":"h:chapter/7"}}]`
	for _, ctx := range []bool{false, true} {
		for _, jt := range []string{"incremental", "fullsync"} {
			for _, b := range []int{1, 10} {
				n++
				res.Cases++
				lds, zds := fmt.Sprintf("nt%d", n), fmt.Sprintf("nu%d", n)
				cfg := fmt.Sprintf("identity transform endpoint supportContext=%v jobType=%s batch=%d identifiers of every namespace shape", ctx, jt, b)
				for _, ds := range []string{lds, zds} {
					if _, err := p.local.jw.W.Dsm.CreateDataset(ds, nil); err != nil {
						res.Err = err.Error()
						return
					}
				}
				if code, body, pn := p.local.request(http.MethodPost, "/datasets/"+lds+"/entities", shapes); code != 200 || pn != "" {
					res.Err = fmt.Sprintf("load: %d %s %s", code, short(string(body)), pn)
					return
				}
				id, err := p.addJob(map[string]interface{}{"id": fmt.Sprintf("ntr-%d", n), "title": fmt.Sprintf("ntr-%d", n), "paused": true, "batchSize": b,
					"source":    map[string]interface{}{"Type": "DatasetSource", "Name": lds, "LatestOnly": true},
					"transform": map[string]interface{}{"Type": "HttpTransform", "Url": p.srv.URL + "/transform", "SupportContext": ctx},
					"sink":      map[string]interface{}{"Type": "DatasetSink", "Name": zds}, "triggers": trig(jt)})
				if err != nil {
					fail("C13:http-job-rejected|"+cfg, cfg+": the definition was rejected: "+err.Error())
					continue
				}
				for runNo := 1; runNo <= 2; runNo++ {
					if pn := run(id); pn != "" {
						fail("C13:http-run-panics|"+cfg, fmt.Sprintf("%s: run %d panics: %s", cfg, runNo, pn))
						break
					}
					if le, ok := p.lastError(id); !ok || le != "" {
						fail("C13:http-run-fails|"+cfg, fmt.Sprintf("%s: run %d did not end as a recorded success (%q)", cfg, runNo, le))
						break
					}
					if a, z := peerView(p.local, lds), peerView(p.local, zds); strings.Join(a, "\n") != strings.Join(z, "\n") {
						fail("C13:http-transform-copy-differs|"+cfg, fmt.Sprintf("%s: after run %d the sink %v differs from the source %v", cfg, runNo, z, a))
					}
					lookups(cfg, lds, zds)
					aliases(cfg)
				}
			}
		}
	}
	// (2) a scripted source that re-binds a prefix from one run to the next
	for _, jt := range []string{"incremental", "fullsync"} {
		for _, b := range []int{1, 10} {
			n++
			res.Cases++
			name, zds := fmt.Sprintf("s%d", n), fmt.Sprintf("nz%d", n)
			cfg := fmt.Sprintf("scripted source, prefix a bound to another namespace in the second run, jobType=%s batch=%d", jt, b)
			if _, err := p.local.jw.W.Dsm.CreateDataset(zds, nil); err != nil {
				res.Err = err.Error()
				return
			}
			doc := func(ns, id string, v int, tok string) string {
				return fmt.Sprintf(`[{"id":"@context","namespaces":{"a":"%s"}},{"id":"a:%s","props":{"a:kind":%d,"a:name":"%s"},"refs":{"a:rel":"a:%s"}},{"id":"@continuation","token":"%s"}]`, ns, id, v, id, id, tok)
			}
			nsA, nsB := fmt.Sprintf("http://a.example/%d/schema/", n), fmt.Sprintf("http://b.example/%d/schema/", n)
			p.mu.Lock()
			p.scripted[name] = []string{doc(nsA, "x1", 1, "t1"), doc(nsB, "y1", 2, "t2"), doc(nsA, "x2", 3, "t3")}
			p.scriptedAt[name] = 0
			p.mu.Unlock()
			id, err := p.addJob(map[string]interface{}{"id": fmt.Sprintf("nsc-%d", n), "title": fmt.Sprintf("nsc-%d", n), "paused": true, "batchSize": b,
				"source": map[string]interface{}{"Type": "HttpDatasetSource", "Url": p.srv.URL + "/scripted/" + name},
				"sink":   map[string]interface{}{"Type": "DatasetSink", "Name": zds}, "triggers": trig(jt)})
			if err != nil {
				fail("C13:http-job-rejected|"+cfg, cfg+": the definition was rejected: "+err.Error())
				continue
			}
			want := map[string]string{}
			for runNo, w := range []struct {
				ns, id string
				v      int
			}{{nsA, "x1", 1}, {nsB, "y1", 2}, {nsA, "x2", 3}} {
				p.mu.Lock()
				p.scriptedAt[name] = runNo
				p.mu.Unlock()
				if pn := run(id); pn != "" {
					fail("C13:http-run-panics|"+cfg, fmt.Sprintf("%s: run %d panics: %s", cfg, runNo+1, pn))
					break
				}
				if le, ok := p.lastError(id); !ok || le != "" {
					fail("C13:http-run-fails|"+cfg, fmt.Sprintf("%s: run %d did not end as a recorded success (%q)", cfg, runNo+1, le))
					break
				}
				if jt == "fullsync" {
					want = map[string]string{} // a fullsync run replaces what the sink held
				}
				want[w.ns+w.id] = dEnt{ID: w.ns + w.id, Props: map[string]interface{}{w.ns + "kind": float64(w.v), w.ns + "name": w.id}, Refs: map[string]interface{}{w.ns + "rel": w.ns + w.id}}.String()
				d := p.local.jw.W.Dsm.GetDataset(zds)
				r, err := d.GetEntities("", -1)
				if err != nil {
					res.Err = err.Error()
					return
				}
				got := map[string]string{}
				for _, e := range r.Entities {
					if e.IsDeleted {
						continue
					}
					ne := p.local.normEntity(e)
					got[ne.ID] = ne.String()
				}
				for uri, ws := range want {
					if got[uri] != ws {
						fail("C13:http-source-document-read-under-another-context|"+cfg, fmt.Sprintf("%s: after run %d the sink holds %q for %s; the document of that run, read under its own context, denotes %s", cfg, runNo+1, got[uri], uri, ws))
					}
				}
				aliases(cfg)
			}
		}
	}
	return
}

func init() {
	engine.RegisterWorker("http-peer-ns", func(args []string) {
		engine.ServeWorker(func(task []byte) interface{} { return peerNsRun() })
	})
	engine.RegisterWorker("http-peer", func(args []string) {
		engine.ServeWorker(func(task []byte) interface{} { return peerRun() })
	})
}
