package web

// Verification harness for package web (injected by go build -overlay).

import (
	"bytes"
	"encoding/json"
	"fmt"
	"net/http"
	"net/http/httptest"
	"sort"
	"strings"
	"time"

	"github.com/labstack/echo/v4"

	"github.com/mimiro-io/datahub/internal/jobs"
	"github.com/mimiro-io/datahub/internal/server"
	"github.com/mimiro-io/datahub/internal/verifrt/engine"
	"github.com/mimiro-io/datahub/internal/verifrt/model"
	"github.com/mimiro-io/datahub/internal/verifrt/vsync"
)

// FsOp is one request of a full-sync history.
type FsOp struct {
	K    string   `json:"k"`            // start | batch | end | startend | plain | jobstart | jobbatch | jobend | expire
	ID   string   `json:"id,omitempty"` // sync id header
	Ents []string `json:"ents,omitempty"`
}

func (o FsOp) String() string { b, _ := json.Marshal(o); return string(b) }

type fsModel struct {
	live    map[string]string // id -> content tag ("" = never), live (not deleted) entities
	deleted map[string]int    // id -> number of tombstones written by syncs
	active  bool
	id      string
	byJob   bool
	seen    map[string]bool
	// runOwned: the active job sync was started by the failing job run (another sink object than the driver's):
	// the driver's end is then somebody else's end and completes nothing
	runOwned bool
}

type fsHarness struct {
	jw      *jobs.JWorld
	h       *server.VHist
	handler *datasetHandler
	e       *echo.Echo
	job     *jobs.JSinkDriver
	gen     int
	sent    map[string]int // id -> value of g the last request carried for it
}

// holds reports whether the dataset's latest version of id carries the content the last request sent for it.
func (f *fsHarness) holds(id string) bool {
	ds := f.jw.W.Dsm.GetDataset(f.h.DsName("A"))
	e, err := f.jw.W.Store.GetEntity(f.h.URI(id), []string{ds.ID}, true)
	if err != nil || e == nil || e.IsDeleted {
		return false
	}
	g, ok := e.Properties[f.h.Key("g")]
	if !ok {
		return false
	}
	return fmt.Sprint(g) == fmt.Sprint(f.sent[id])
}

func (f *fsHarness) body(ents []string) []byte {
	var l []interface{}
	l = append(l, map[string]interface{}{"id": "@context", "namespaces": map[string]string{"_": server.VNamespace}})
	if f.sent == nil {
		f.sent = map[string]int{}
	}
	for _, id := range ents {
		f.gen++
		f.sent[id] = f.gen
		l = append(l, map[string]interface{}{"id": id + "_" + f.h.Tag, "props": map[string]interface{}{"g": f.gen}, "refs": map[string]interface{}{}})
	}
	b, _ := json.Marshal(l)
	return b
}

// post sends one request through the real handler; returns the HTTP status.
func (f *fsHarness) post(op FsOp) int {
	req := httptest.NewRequest(http.MethodPost, "/datasets/x/entities", bytes.NewReader(f.body(op.Ents)))
	req.Header.Set("Content-Type", "application/json")
	switch op.K {
	case "start":
		req.Header.Set("universal-data-api-full-sync-start", "true")
		req.Header.Set("universal-data-api-full-sync-id", op.ID)
	case "batch":
		if op.ID != "" {
			req.Header.Set("universal-data-api-full-sync-id", op.ID)
		}
	case "end":
		req.Header.Set("universal-data-api-full-sync-end", "true")
		req.Header.Set("universal-data-api-full-sync-id", op.ID)
	case "startend":
		req.Header.Set("universal-data-api-full-sync-start", "true")
		req.Header.Set("universal-data-api-full-sync-end", "true")
		req.Header.Set("universal-data-api-full-sync-id", op.ID)
	}
	rec := httptest.NewRecorder()
	c := f.e.NewContext(req, rec)
	c.SetParamNames("dataset")
	c.SetParamValues(f.h.DsName("A"))
	if err := f.handler.storeEntitiesHandler(c); err != nil {
		if he, ok := err.(*echo.HTTPError); ok {
			return he.Code
		}
		return 500
	}
	return rec.Code
}

// postTxn sends the entities as a transaction document (POST /transactions), the other write path into a dataset.
func (f *fsHarness) postTxn(op FsOp) int {
	var l []interface{}
	for _, id := range op.Ents {
		f.gen++
		l = append(l, map[string]interface{}{"id": id + "_" + f.h.Tag, "props": map[string]interface{}{"g": f.gen}, "refs": map[string]interface{}{}})
	}
	doc := map[string]interface{}{"@context": map[string]interface{}{"namespaces": map[string]string{"_": server.VNamespace}}, f.h.DsName("A"): l}
	b, _ := json.Marshal(doc)
	// "@context" has to be the first key: build the text by hand
	ents, _ := json.Marshal(l)
	ctx, _ := json.Marshal(doc["@context"])
	name, _ := json.Marshal(f.h.DsName("A"))
	b = []byte(`{"@context":` + string(ctx) + `,` + string(name) + `:` + string(ents) + `}`)
	req := httptest.NewRequest(http.MethodPost, "/transactions", bytes.NewReader(b))
	rec := httptest.NewRecorder()
	c := f.e.NewContext(req, rec)
	th := &txnHandler{store: f.jw.W.Store}
	if err := th.processTransaction(c); err != nil {
		if he, ok := err.(*echo.HTTPError); ok {
			return he.Code
		}
		return 500
	}
	return rec.Code
}

func (f *fsHarness) jobEntities(ents []string) []*server.Entity {
	var out []*server.Entity
	for _, id := range ents {
		f.gen++
		e := server.NewEntity(f.h.Curie(id), 0)
		e.Properties[f.h.Key("g")] = f.gen
		out = append(out, e)
	}
	return out
}

// observe returns live ids and tombstone counts of dataset A from its change feed.
func (f *fsHarness) observe() (live map[string]bool, tomb map[string]int, err error) {
	ds := f.jw.W.Dsm.GetDataset(f.h.DsName("A"))
	ch, err := ds.GetChanges(0, 0, false)
	if err != nil {
		return nil, nil, err
	}
	live = map[string]bool{}
	tomb = map[string]int{}
	for _, e := range ch.Entities {
		id := f.h.AbsID(e.ID)
		if e.IsDeleted {
			tomb[id]++
			delete(live, id)
		} else {
			live[id] = true
		}
	}
	return
}

func keys(m map[string]bool) string {
	var l []string
	for k, v := range m {
		if v {
			l = append(l, k)
		}
	}
	sort.Strings(l)
	return strings.Join(l, ",")
}

type fsResult struct {
	viol    []engine.Violation
	key     string
	checks  int
	herr    string
	outcome string
}

// replayFullSync replays a request history inside a controlled run with a single driver thread
// (timers are owned by the scheduler: "expire" lets the lease time out, nothing else does).
// limits of one replayed history (a long history raises them)
var fsHorizon, fsTimeout = 20000, 60 * time.Second

func replayFullSync(hist []FsOp) (res fsResult) {
	jw := jobs.JWorldGet(300)
	h := jw.W.NewHist()
	if err := h.EnsureDatasets("A"); err != nil {
		res.herr = err.Error()
		return
	}
	f := &fsHarness{jw: jw, h: h, e: echo.New(), handler: &datasetHandler{datasetManager: jw.W.Dsm, store: jw.W.Store, eventBus: server.NoOpBus()}}
	f.job = jobs.JNewSinkDriver(jw, h.DsName("A"))
	// preload e1,e2,e3 live
	ds := jw.W.Dsm.GetDataset(h.DsName("A"))
	if err := ds.StoreEntities(f.jobEntities([]string{"e1", "e2", "e3"})); err != nil {
		res.herr = err.Error()
		return
	}
	m := &fsModel{live: map[string]string{"e1": "x", "e2": "x", "e3": "x"}, deleted: map[string]int{}}
	last := ""
	// a job only ends a sync it started itself (the pipeline always calls start first): other sequences are not histories
	jobOpen := false
	for _, op := range hist {
		switch op.K {
		case "jobstart", "jobrunfail":
			jobOpen = true
		case "jobend":
			if !jobOpen {
				res.key = "skip"
				res.outcome = "skip"
				return
			}
			jobOpen = false
		}
	}
	fail := func(clause, what string) {
		key := "C09:" + clause + "|" + last
		for _, v := range res.viol {
			if v.Key == key {
				return
			}
		}
		res.viol = append(res.viol, engine.Violation{Key: key, What: what})
	}
	server.VInstallHooks()
	s := vsync.NewSched(nil, fsHorizon)
	var panicMsg string
	body := func() {
		defer func() {
			if r := recover(); r != nil {
				panicMsg = fmt.Sprint(r)
			}
		}()
		for i, op := range hist {
			if i == len(hist)-1 {
				last = op.String()
			}
			liveBefore, tombBefore, _ := f.observe()
			status := 0
			var jerr error
			switch op.K {
			case "start", "batch", "end", "startend", "plain":
				status = f.post(op)
			case "txn":
				status = f.postTxn(op)
			case "jobstart":
				jerr = f.job.Start()
			case "jobbatch":
				jerr = f.job.Process(f.jobEntities(op.Ents))
			case "jobend":
				jerr = f.job.End()
			case "jobrunfail":
				// a real fullsync job run from an auxiliary dataset holding op.Ents, batch size 1, whose source fails at its
				// second read: the run starts the job's sync, delivers the first entity and is abandoned
				if jw.W.Dsm.GetDataset(h.DsName("S")) == nil {
					if err := h.EnsureDatasets("S"); err != nil {
						res.herr = err.Error()
						return
					}
				}
				if err := jw.W.Dsm.GetDataset(h.DsName("S")).StoreEntities(f.jobEntities(op.Ents)); err != nil {
					res.herr = err.Error()
					return
				}
				le, pn, err := jw.JRunFullSyncFailing(h, "S", "A", 2)
				if err != nil {
					res.herr = err.Error()
					return
				}
				if pn != "" {
					fail("job-run-panics", "the failing fullsync job run panicked: "+pn)
				}
				if le == "" {
					res.herr = "harness: the job run with a failing source recorded no error"
					return
				}
			case "expire":
				vsync.Sleep(time.Millisecond) // every armed timer fires and the lease goroutines run to completion
			}
			accepted := status == 200 || (status == 0 && jerr == nil)
			liveAfter, tombAfter, err := f.observe()
			if err != nil {
				fail("observe", err.Error())
				return
			}
			res.checks++
			stored := func() { // entities of the request are live with new content
				for _, id := range op.Ents {
					if !liveAfter[id] {
						fail("stored-entity-not-live:"+op.K, fmt.Sprintf("%s was accepted but %s is not live afterwards", op, id))
					}
					m.live[id] = "x"
				}
			}
			newTombs := map[string]bool{}
			for id, n := range tombAfter {
				if n > tombBefore[id] {
					newTombs[id] = true
					if n > tombBefore[id]+1 {
						fail("deleted-twice:"+op.K, fmt.Sprintf("%s wrote %d tombstones for %s", op, n-tombBefore[id], id))
					}
				}
			}
			noEffect := func(why string) {
				if keys(liveAfter) != keys(liveBefore) || len(newTombs) > 0 {
					fail("rejected-has-effect:"+op.K, fmt.Sprintf("%s (%s) changed the dataset: live %s -> %s, new tombstones %s", op, why, keys(liveBefore), keys(liveAfter), keys(newTombs)))
				}
			}
			noDeletes := func(why string) {
				if len(newTombs) > 0 {
					fail("deletes-without-completed-sync:"+op.K, fmt.Sprintf("%s (%s) deleted %s", op, why, keys(newTombs)))
				}
			}
			switch op.K {
			case "start":
				if !accepted {
					fail("start-rejected", fmt.Sprintf("%s was rejected with status %d", op, status))
					break
				}
				noDeletes("a start never deletes")
				stored()
				m.active, m.id, m.byJob, m.seen = true, op.ID, false, map[string]bool{}
				for _, id := range op.Ents {
					m.seen[id] = true
				}
			case "txn":
				// a transaction knows nothing about sync ids: it is a write into the dataset; if a sync is active, the
				// entities were written since its start
				noDeletes("a transaction never deletes")
				if accepted {
					stored()
					if m.active {
						for _, id := range op.Ents {
							m.seen[id] = true
						}
					}
				} else {
					noEffect("rejected")
				}
			case "batch", "plain":
				foreign := m.active && op.ID != m.id
				if foreign && !(op.ID == "" && m.byJob) {
					// a batch carrying a different sync id than the active sync: rejected without any effect.
					// (a batch without id while a sync is active is left open by the statement: either answer is fine)
					if op.ID != "" {
						if accepted {
							fail("foreign-batch-accepted", fmt.Sprintf("%s was accepted although sync %q is active", op, m.id))
						}
						noEffect("foreign sync id")
						break
					}
				}
				noDeletes("a batch never deletes")
				if accepted {
					stored()
					if m.active && (op.ID == m.id) {
						for _, id := range op.Ents {
							m.seen[id] = true
						}
					} else if m.active {
						for _, id := range op.Ents {
							m.seen[id] = true // stored while a sync is active: written since its start
						}
					}
				} else {
					noEffect("rejected")
				}
			case "end", "startend", "jobend":
				if op.K == "startend" {
					m.active, m.id, m.byJob, m.seen = true, op.ID, false, map[string]bool{}
				}
				completes := m.active && ((op.K == "jobend" && m.byJob && !m.runOwned) || (op.K != "jobend" && !m.byJob && op.ID == m.id))
				if !completes {
					// superseded, abandoned, expired or foreign: deletes nothing, neither now nor later
					noDeletes("no matching active sync: superseded, expired, foreign or never started")
					if accepted && op.K != "jobend" {
						stored()
					} else if !accepted && op.K != "jobend" {
						// an end that is refused may or may not have stored its own entities (left open). If it has, they
						// are written to the dataset: live, and written since the start of whatever sync is active
						for _, id := range op.Ents {
							if f.holds(id) {
								m.live[id] = "x"
								if m.active {
									m.seen[id] = true
								}
							}
						}
					}
					if op.K == "jobend" && m.active && !m.byJob {
						// the job's end must not terminate somebody else's sync either: left open
					}
					if op.K == "jobend" {
						m.active = m.active && !m.byJob
					}
					break
				}
				if !accepted {
					fail("end-rejected", fmt.Sprintf("%s completes the active sync but was rejected (status %d, err %v)", op, status, jerr))
					break
				}
				for _, id := range op.Ents {
					m.seen[id] = true
					m.live[id] = "x"
				}
				wantDel := map[string]bool{}
				for id := range liveBefore {
					if !m.seen[id] {
						wantDel[id] = true
					}
				}
				if keys(newTombs) != keys(wantDel) {
					fail("end-deletes:"+op.K, fmt.Sprintf("%s completed sync %q which contained %s; previously live were %s; deleted %s, want exactly %s", op, m.id, keys(m.seen), keys(liveBefore), keys(newTombs), keys(wantDel)))
				}
				for id := range m.seen {
					if !liveAfter[id] {
						fail("end-seen-not-live:"+op.K, fmt.Sprintf("%s: %s was written during the sync but is not live after it", op, id))
					}
				}
				m.active = false
			case "jobstart":
				noDeletes("a start never deletes")
				if jerr == nil {
					m.active, m.id, m.byJob, m.seen = true, "", true, map[string]bool{}
					m.runOwned = false
				}
			case "jobrunfail":
				noDeletes("a job run that fails midway abandons its sync: nothing is deleted")
				m.active, m.id, m.byJob, m.seen = true, "", true, map[string]bool{}
				m.runOwned = true
				// the first page was delivered before the source failed
				if liveAfter[op.Ents[0]] {
					m.live[op.Ents[0]] = "x"
					m.seen[op.Ents[0]] = true
				} else {
					fail("job-run-first-page-lost", fmt.Sprintf("%s: the entity of the page delivered before the failure (%s) is not live", op, op.Ents[0]))
				}
			case "jobbatch":
				noDeletes("a batch never deletes")
				if jerr == nil {
					stored()
					if m.active {
						for _, id := range op.Ents {
							m.seen[id] = true
						}
					}
				}
			case "expire":
				noEffect("lease expiry")
				if m.active && !m.byJob {
					m.active = false
				}
			}
		}
	}
	timedOut := s.Run([]func(){body}, []string{"client"}, fsTimeout)
	if timedOut || s.Deadlock || s.HorizonHit {
		fail("hang", fmt.Sprintf("the history does not finish (deadlock=%v %s)", s.Deadlock, s.DeadlockInfo))
		jobs.JWorldAbandon()
		return
	}
	if panicMsg != "" || len(s.Panics) > 0 {
		fail("panic", "panic: "+panicMsg+strings.Join(s.Panics, ";"))
		jobs.JWorldAbandon()
		return
	}
	live, tomb, _ := f.observe()
	tl := []string{}
	for id, n := range tomb {
		tl = append(tl, fmt.Sprintf("%s:%d", id, n))
	}
	sort.Strings(tl)
	dsA := jw.W.Dsm.GetDataset(h.DsName("A"))
	res.key = fmt.Sprintf("live=%s|tomb=%s|active=%v,%s,%v|seen=%s|jobOpen=%v|impl=%s", keys(live), strings.Join(tl, ","), m.active, m.id, fmt.Sprint(m.byJob, m.runOwned), keys(m.seen), jobOpen, dsA.VFullSyncState())
	res.outcome = res.key
	return
}

func init() {
	engine.RegisterWorker("fullsync", func(args []string) {
		defer jobs.JWorldDestroy()
		engine.ServeWorker(func(task []byte) interface{} {
			var t engine.SeqTask
			if err := json.Unmarshal(task, &t); err != nil {
				return engine.SeqResult{HarnessEr: err.Error()}
			}
			var hist []FsOp
			for _, raw := range t.Hist {
				var op FsOp
				_ = json.Unmarshal(raw, &op)
				hist = append(hist, op)
			}
			fsHorizon, fsTimeout = 20000, 60*time.Second
			if string(t.Params) == `{"large":true}` {
				fsHorizon, fsTimeout = 5000000, 800*time.Second
			}
			r := replayFullSync(hist)
			if r.key == "skip" {
				return engine.SeqResult{Key: "skip", Skip: true}
			}
			return engine.SeqResult{Key: r.key, Viol: r.viol, Checks: r.checks, Outcome: r.outcome, HarnessEr: r.herr}
		})
	})
	engine.RegisterCheck("C09", func(r *engine.Run) {
		r.Rule = "SEQ: every sequence up to the stated depth of full-sync requests through the real HTTP handler (start/batch/end with ids x,y or none, single-request start+end, plain writes, POST /transactions) and through the real job sink (start/batch/end; a real fullsync job run whose source fails at its second read), plus lease expiry (timers owned by the controlled scheduler), on a dataset preloaded with 3 live entities; after every request: a foreign-id batch has no effect, nothing but a completing end deletes, a completing end deletes exactly the previously live entities not written since the start (each once), superseded/expired/abandoned syncs delete nothing. SCHED: the lease goroutine and the passage of time interleaved with end/batch/start requests"
		r.Assumptions = []string{"whether a write without sync id is accepted while a sync is active, and whether a batch with an id is accepted when no sync is active, is left open (both answers accepted; consequences checked)", "time only passes when the explorer lets a deadline thread run"}
		var alpha []FsOp
		for _, id := range []string{"x", "y"} {
			alpha = append(alpha, FsOp{K: "start", ID: id, Ents: []string{"e1"}}, FsOp{K: "batch", ID: id, Ents: []string{"e2"}}, FsOp{K: "end", ID: id, Ents: []string{"e4"}})
		}
		// an end request without a sync id, and a write through POST /transactions
		alpha = append(alpha, FsOp{K: "end", ID: "", Ents: []string{"e4"}}, FsOp{K: "txn", Ents: []string{"e2"}})
		alpha = append(alpha, FsOp{K: "batch", Ents: []string{"e3"}}, FsOp{K: "startend", ID: "x", Ents: []string{"e1", "e2"}},
			FsOp{K: "jobstart"}, FsOp{K: "jobbatch", Ents: []string{"e1", "e4"}}, FsOp{K: "jobend"}, FsOp{K: "expire"},
			FsOp{K: "jobrunfail", Ents: []string{"e1", "e4"}})
		var raw []json.RawMessage
		for _, o := range alpha {
			b, _ := json.Marshal(o)
			raw = append(raw, b)
		}
		depth, budget := 4, 120
		if !r.Quick() {
			depth, budget = 5, 2400
		}
		engine.RunSeq(r, engine.SeqSpec{Name: "c09-seq", WorkerArgs: []string{"worker", "fullsync"}, Alphabet: raw, Depth: depth, Budget: time.Duration(budget) * time.Second})
		// one long history: a dataset larger than the batches the completion works in (1000): load n entities, a first
		// sync that leaves one early entity out (a tombstone on the first page), a second one that only carries the first
		// 1200: everything else - more than 1000 entities - must be deleted, each once
		{
			n := 2500
			if !r.Quick() {
				n = 6000
			}
			var all, allBut, first []string
			for i := 0; i < n; i++ {
				id := fmt.Sprintf("p%04d", i)
				all = append(all, id)
				if i != 10 {
					allBut = append(allBut, id)
					if i < 1200 {
						first = append(first, id)
					}
				}
			}
			var hist []json.RawMessage
			for _, o := range []FsOp{{K: "batch", Ents: all}, {K: "startend", ID: "x", Ents: allBut}, {K: "startend", ID: "y", Ents: first}} {
				b, _ := json.Marshal(o)
				hist = append(hist, b)
			}
			tb, _ := json.Marshal(engine.SeqTask{Hist: hist, Params: json.RawMessage(`{"large":true}`)})
			pl := &engine.Pool{N: 1, Args: []string{"worker", "fullsync"}, Timeout: 900 * time.Second}
			out := pl.Do([]json.RawMessage{tb}, nil)
			var lr engine.SeqResult
			if out[0].Err != "" || json.Unmarshal(out[0].Out, &lr) != nil || lr.HarnessEr != "" {
				r.Cap("c09-large: worker problem " + out[0].Err + " " + lr.HarnessEr)
			} else {
				for _, v := range lr.Viol {
					v.Engine = "ENUM:c09-large"
					if len(v.Key) > 200 {
						v.Key = v.Key[:200]
					}
					if len(v.What) > 1500 {
						v.What = v.What[:1500] + " ..."
					}
					v.Replay = map[string]interface{}{"worker": []string{"worker", "fullsync"}, "entities": n}
					r.AddViolation(v)
				}
				r.Evaluations += lr.Checks
				r.Traces++
				r.AddPart(map[string]interface{}{"engine": "ENUM", "name": "c09-large-fullsync", "entities": n, "checks": lr.Checks})
			}
		}
		c09Sched(r)
	})
	_ = model.NewWorld
}
