package web

// HTTP face of C01 / C02 / C03: the same write histories as the store-level searches, observed through the
// real echo handlers (GET /datasets/{ds}/entities, GET /datasets/{ds}/changes, POST /query) with their paging
// tokens, parsed back with the real EntityStreamParser and compared with the reference model.

import (
	"bytes"
	"encoding/base64"
	"encoding/json"
	"fmt"
	"net/http"
	"net/http/httptest"
	"net/url"
	"sort"
	"strings"

	"github.com/mimiro-io/datahub/internal/server"
	"github.com/mimiro-io/datahub/internal/verifrt/engine"
	"github.com/mimiro-io/datahub/internal/verifrt/model"
)

type httpObs struct {
	w    *c15World
	h    *server.VHist
	viol []engine.Violation
	n    int
	last string
}

func (o *httpObs) fail(clause, what string) {
	key := clause + "|" + o.last
	for _, v := range o.viol {
		if v.Key == key {
			return
		}
	}
	o.viol = append(o.viol, engine.Violation{Key: key, What: what})
}

// page: GET a stream, return the entities and the continuation token (empty if none).
func (o *httpObs) page(path string) ([]*server.Entity, string, error) {
	code, body, pn := o.w.request(http.MethodGet, path, "")
	if pn != "" || code != 200 {
		return nil, "", fmt.Errorf("GET %s: status %d %s", path, code, pn)
	}
	var ents []*server.Entity
	tok := ""
	esp := server.NewEntityStreamParser(o.w.jw.W.Store)
	err := esp.ParseStream(bytes.NewReader(body), func(e *server.Entity) error {
		if e.ID == "@continuation" {
			if t, ok := e.Properties["token"].(string); ok {
				tok = t
			}
			return nil
		}
		ents = append(ents, e)
		return nil
	})
	return ents, tok, err
}

func (o *httpObs) c01(ids []string) {
	h := o.h
	for _, md := range h.M.LiveInOrder() {
		want := md.LatestView()
		name := url.PathEscape(h.DsName(md.Name))
		for _, limit := range []int{0, 1, 2} {
			o.n++
			seen := map[string]int{}
			from := ""
			pages := 0
			bad := false
			for {
				q := "/datasets/" + name + "/entities?"
				if limit > 0 {
					q += fmt.Sprintf("limit=%d&", limit)
				}
				if from != "" {
					q += "from=" + url.QueryEscape(from)
				}
				ents, tok, err := o.page(q)
				if err != nil {
					o.fail(fmt.Sprintf("C01:http:list-error:%s:limit=%d", md.Name, limit), err.Error())
					bad = true
					break
				}
				pages++
				for _, e := range ents {
					id := h.AbsID(e.ID)
					seen[id]++
					w, ok := want[id]
					if !ok {
						o.fail("C01:http:list-extra:"+md.Name, fmt.Sprintf("GET entities of %s (limit %d) returns %s which the model does not have", md.Name, limit, id))
					} else if got := h.AbsContent(e); !got.Equal(w) {
						o.fail("C01:http:list-content:"+md.Name+":"+id, fmt.Sprintf("GET entities of %s (limit %d): %s is %s, last stored version is %s", md.Name, limit, id, got, w))
					}
				}
				if limit > 0 && len(ents) > limit {
					o.fail(fmt.Sprintf("C01:http:page-size:%s:limit=%d", md.Name, limit), fmt.Sprintf("a page holds %d entities", len(ents)))
				}
				if len(ents) == 0 || limit == 0 {
					if limit == 0 && tok != "" {
						// the token after a complete listing yields nothing more
						e2, _, err := o.page("/datasets/" + name + "/entities?from=" + url.QueryEscape(tok))
						if err == nil && len(e2) != 0 {
							o.fail("C01:http:token-after-end:"+md.Name, fmt.Sprintf("the token returned after a complete listing yields %d more entities", len(e2)))
						}
					}
					break
				}
				if tok == "" || tok == from {
					o.fail(fmt.Sprintf("C01:http:token-stuck:%s:limit=%d", md.Name, limit), "a non-empty page came without a new continuation token")
					bad = true
					break
				}
				from = tok
				if pages > len(want)+10 {
					o.fail(fmt.Sprintf("C01:http:list-loop:%s:limit=%d", md.Name, limit), "paging does not terminate")
					bad = true
					break
				}
			}
			if bad {
				continue
			}
			for id := range want {
				if seen[id] != 1 {
					o.fail(fmt.Sprintf("C01:http:list-once:%s:%s:limit=%d", md.Name, id, limit), fmt.Sprintf("GET entities of %s with limit %d returns %s %d times (want exactly once)", md.Name, limit, id, seen[id]))
				}
			}
		}
	}
	// lookups through POST /query {entityId}
	scopes := [][]string{nil}
	for _, d := range h.M.LiveInOrder() {
		scopes = append(scopes, []string{d.Name})
	}
	for _, id := range ids {
		for _, sc := range scopes {
			o.n++
			q := map[string]interface{}{"entityId": h.URI(id)}
			if sc != nil {
				q["datasets"] = []string{h.DsName(sc[0])}
			}
			b, _ := json.Marshal(q)
			code, body, pn := o.w.request(http.MethodPost, "/query", string(b))
			if pn != "" || code != 200 {
				o.fail("C01:http:lookup-error:"+id, fmt.Sprintf("POST /query %s: status %d %s", b, code, pn))
				continue
			}
			var res []json.RawMessage
			if err := json.Unmarshal(body, &res); err != nil || len(res) != 2 {
				o.fail("C01:http:lookup-shape:"+id, "POST /query {entityId} does not answer [context, entity]: "+short(string(body)))
				continue
			}
			e := &server.Entity{}
			_ = json.Unmarshal(res[1], e)
			want, parts, anyDel := h.M.Merged(id, sc, -1)
			if parts == 0 {
				want = model.Content{Props: map[string]interface{}{}, Refs: map[string]interface{}{}, Deleted: anyDel}
			}
			if e.Properties == nil {
				e.Properties = map[string]interface{}{}
			}
			if e.References == nil {
				e.References = map[string]interface{}{}
			}
			got := h.AbsContent(e)
			if !got.Equal(want) {
				o.fail(fmt.Sprintf("C01:http:lookup-content:%s:%v", id, sc), fmt.Sprintf("POST /query {entityId:%s, datasets:%v} returns %s; the model gives %s", id, sc, got, want))
			}
		}
	}
}

func (o *httpObs) c02() {
	h := o.h
	for _, md := range h.M.LiveInOrder() {
		name := url.PathEscape(h.DsName(md.Name))
		for _, lo := range []bool{false, true} {
			want := md.Feed
			if lo {
				want = md.LatestOnlyFeed()
			}
			for _, limit := range []int{0, 1, 2} {
				o.n++
				var got []*server.Entity
				since := ""
				pages := 0
				bad := false
				for {
					q := fmt.Sprintf("/datasets/%s/changes?latestOnly=%v", name, lo)
					if limit > 0 {
						q += fmt.Sprintf("&limit=%d", limit)
					}
					if since != "" {
						q += "&since=" + url.QueryEscape(since)
					}
					ents, tok, err := o.page(q)
					if err != nil {
						o.fail(fmt.Sprintf("C02:http:error:%s", md.Name), err.Error())
						bad = true
						break
					}
					pages++
					got = append(got, ents...)
					if limit > 0 && len(ents) > limit {
						o.fail(fmt.Sprintf("C02:http:page-size:%s:limit=%d", md.Name, limit), fmt.Sprintf("a page holds %d entries", len(ents)))
					}
					if len(ents) == 0 {
						if tok != since && since != "" && !lo {
							o.fail("C02:http:empty-page-moves-token:"+md.Name, fmt.Sprintf("an empty page changed the token from %s to %s", since, tok))
						}
						break
					}
					if tok == "" || tok == since {
						o.fail(fmt.Sprintf("C02:http:token-stuck:%s:limit=%d", md.Name, limit), "a non-empty page came without a new continuation token")
						bad = true
						break
					}
					since = tok
					if pages > len(md.Feed)+10 {
						o.fail(fmt.Sprintf("C02:http:loop:%s:limit=%d", md.Name, limit), "paging does not terminate")
						bad = true
						break
					}
				}
				if bad {
					continue
				}
				ok := len(got) == len(want)
				for i := 0; ok && i < len(got); i++ {
					if h.AbsID(got[i].ID) != want[i].ID || !h.AbsContent(got[i]).Equal(want[i].C) {
						ok = false
					}
				}
				if !ok {
					var gl []string
					for _, e := range got {
						gl = append(gl, h.AbsID(e.ID)+"="+h.AbsContent(e).String())
					}
					o.fail(fmt.Sprintf("C02:http:feed:%s:lo=%v:limit=%d", md.Name, lo, limit), fmt.Sprintf("GET changes of %s (latestOnly=%v, limit %d, following tokens) gives %v; the feed is %v", md.Name, lo, limit, gl, model.FeedStrings(want)))
				}
			}
		}
	}
}

func (o *httpObs) c03(ids []string) {
	h := o.h
	var live []string
	for _, d := range h.M.LiveInOrder() {
		live = append(live, d.Name)
	}
	scopes := [][]string{nil}
	for _, n := range live {
		scopes = append(scopes, []string{n})
	}
	if len(live) > 1 {
		scopes = append(scopes, live)
	}
	for _, start := range ids {
		for _, pred := range []string{"p", "q", "*"} {
			for _, inv := range []bool{false, true} {
				for _, sc := range scopes {
					// expected from the model graph
					want := map[string]bool{}
					for e := range h.M.Graph(sc, -1) {
						if pred != "*" && e.Pred != pred {
							continue
						}
						if !inv && e.Src == start {
							want[e.Pred+">"+e.Dst] = true
						}
						if inv && e.Dst == start {
							want[e.Pred+">"+e.Src] = true
						}
					}
					for _, limit := range []int{0, 1, 2} {
						o.n++
						q := map[string]interface{}{"startingEntities": []string{h.URI(start)}, "inverse": inv, "limit": limit}
						if pred == "*" {
							q["predicate"] = "*"
						} else {
							q["predicate"] = h.KeyURI(pred)
						}
						if sc != nil {
							var names []string
							for _, n := range sc {
								names = append(names, h.DsName(n))
							}
							q["datasets"] = names
						}
						got := map[string]int{}
						pages := 0
						failed := false
						for {
							b, _ := json.Marshal(q)
							code, body, pn := o.w.request(http.MethodPost, "/query", string(b))
							if pn != "" || code != 200 {
								if strings.Contains(string(body), "could not load predicate") || strings.Contains(string(body), "invalid query startpoint") || strings.Contains(string(body), "not found") {
									failed = len(want) == 0 // an unknown predicate or start point has no relations
									if !failed {
										o.fail("C03:http:error", fmt.Sprintf("POST /query %s: status %d %s", b, code, short(string(body))))
										failed = true
									}
									break
								}
								o.fail("C03:http:error", fmt.Sprintf("POST /query %s: status %d %s %s", b, code, short(string(body)), pn))
								failed = true
								break
							}
							var res []json.RawMessage
							if err := json.Unmarshal(body, &res); err != nil || len(res) < 2 {
								o.fail("C03:http:shape", "POST /query does not answer [context, relations(, continuations)]: "+short(string(body)))
								failed = true
								break
							}
							var rels [][]json.RawMessage
							_ = json.Unmarshal(res[1], &rels)
							for _, r := range rels {
								if len(r) != 3 {
									continue
								}
								var p string
								_ = json.Unmarshal(r[1], &p)
								e := &server.Entity{}
								_ = json.Unmarshal(r[2], e)
								got[h.AbsKey(p)+">"+h.AbsID(e.ID)]++
							}
							var conts []string
							if len(res) > 2 {
								_ = json.Unmarshal(res[2], &conts)
							}
							if limit == 0 || len(conts) == 0 {
								break
							}
							q = map[string]interface{}{"continuations": conts, "limit": limit}
							pages++
							if pages > 50 {
								o.fail("C03:http:loop", "the continuation chain does not terminate")
								failed = true
								break
							}
						}
						if failed {
							continue
						}
						same := len(got) == len(want)
						for k, n := range got {
							if !want[k] || n != 1 {
								same = false
							}
						}
						if !same {
							dir := "out"
							if inv {
								dir = "in"
							}
							clause := fmt.Sprintf("C03:http:set:%s/%s/%s/%v:limit=%d", start, pred, dir, sc, limit)
							if inv && pred == "*" && h.KFWildcardIncoming(start, sc, got, want) {
								clause = "C03:KF-incoming-wildcard-multipred:http:" + clause
							}
							var gl, wl []string
							for k, n := range got {
								gl = append(gl, fmt.Sprintf("%s x%d", k, n))
							}
							for k := range want {
								wl = append(wl, k)
							}
							sort.Strings(gl)
							sort.Strings(wl)
							o.fail(clause, fmt.Sprintf("POST /query %s/%s/%s scope %v limit %d (following continuations) returns %v; the graph of latest versions gives %v", start, pred, dir, sc, limit, gl, wl))
						}
					}
				}
			}
		}
	}
}

// c03multi: POST /query with SEVERAL starting entities and small limits, continuations followed: several continuation
// tokens travel in one request; the union over the start entities must come back, every relation once.
func (o *httpObs) c03multi(ids []string) {
	h := o.h
	var starts []string
	for _, id := range ids {
		starts = append(starts, h.URI(id))
	}
	for _, pred := range []string{"p", "*"} {
		for _, inv := range []bool{false, true} {
			want := map[string]bool{}
			for e := range h.M.Graph(nil, -1) {
				if pred != "*" && e.Pred != pred {
					continue
				}
				for _, start := range ids {
					if !inv && e.Src == start {
						want[start+"|"+e.Pred+">"+e.Dst] = true
					}
					if inv && e.Dst == start {
						want[start+"|"+e.Pred+">"+e.Src] = true
					}
				}
			}
			for _, limit := range []int{1, 2} {
				o.n++
				q := map[string]interface{}{"startingEntities": starts, "inverse": inv, "limit": limit}
				if pred == "*" {
					q["predicate"] = "*"
				} else {
					q["predicate"] = h.KeyURI(pred)
				}
				got := map[string]int{}
				pages, failed, maxTokens := 0, false, 0
				for {
					b, _ := json.Marshal(q)
					code, body, pn := o.w.request(http.MethodPost, "/query", string(b))
					if pn != "" || code != 200 {
						if strings.Contains(string(body), "could not load predicate") || strings.Contains(string(body), "invalid query startpoint") || strings.Contains(string(body), "not found") {
							failed = true // unknown predicate / start point: covered by the single-start observation
							break
						}
						o.fail("C03:http:error", fmt.Sprintf("POST /query %s: status %d %s %s", b, code, short(string(body)), pn))
						failed = true
						break
					}
					var res []json.RawMessage
					if err := json.Unmarshal(body, &res); err != nil || len(res) < 2 {
						o.fail("C03:http:shape", "POST /query does not answer [context, relations(, continuations)]: "+short(string(body)))
						failed = true
						break
					}
					var rels [][]json.RawMessage
					_ = json.Unmarshal(res[1], &rels)
					for _, r := range rels {
						if len(r) != 3 {
							continue
						}
						var st, p string
						_ = json.Unmarshal(r[0], &st)
						_ = json.Unmarshal(r[1], &p)
						e := &server.Entity{}
						_ = json.Unmarshal(r[2], e)
						got[h.AbsID(st)+"|"+h.AbsKey(p)+">"+h.AbsID(e.ID)]++
					}
					var conts []string
					if len(res) > 2 {
						_ = json.Unmarshal(res[2], &conts)
					}
					if len(conts) > maxTokens {
						maxTokens = len(conts)
					}
					if len(conts) == 0 {
						break
					}
					q = map[string]interface{}{"continuations": conts, "limit": limit}
					pages++
					if pages > 60 {
						o.fail("C03:http:loop", "the continuation chain of a query with several starting entities does not terminate")
						failed = true
						break
					}
				}
				if failed {
					continue
				}
				same := len(got) == len(want)
				for k, n := range got {
					if !want[k] || n != 1 {
						same = false
					}
				}
				if !same {
					dir := "out"
					if inv {
						dir = "in"
					}
					var gl, wl []string
					for k, n := range got {
						gl = append(gl, fmt.Sprintf("%s x%d", k, n))
					}
					for k := range want {
						wl = append(wl, k)
					}
					sort.Strings(gl)
					sort.Strings(wl)
					clause := fmt.Sprintf("C03:http:multi-start:%s/%s:limit=%d", pred, dir, limit)
					if inv && pred == "*" {
						known := true
						for _, start := range ids {
							g1, w1 := map[string]int{}, map[string]bool{}
							for k, n := range got {
								if strings.HasPrefix(k, start+"|") {
									g1[strings.TrimPrefix(k, start+"|")] = n
								}
							}
							for k := range want {
								if strings.HasPrefix(k, start+"|") {
									w1[strings.TrimPrefix(k, start+"|")] = true
								}
							}
							eq := len(g1) == len(w1)
							for k, n := range g1 {
								if !w1[k] || n != 1 {
									eq = false
								}
							}
							if !eq && !h.KFWildcardIncoming(start, nil, g1, w1) {
								known = false
							}
						}
						if known {
							clause = "C03:KF-incoming-wildcard-multipred:http:" + clause
						}
					}
					o.fail(clause, fmt.Sprintf("POST /query with starting entities %v, %s/%s, limit %d (following continuations, up to %d tokens per request) returns %v; the graph of latest versions gives %v", ids, pred, dir, limit, maxTokens, gl, wl))
				}
			}
		}
	}
}

// c02ld: the same feed rendered as JSON-LD (Accept: application/ld+json): the sequence of entity ids, per limit and
// with latestOnly, tokens followed.
func (o *httpObs) c02ld() {
	h := o.h
	for _, md := range h.M.LiveInOrder() {
		name := url.PathEscape(h.DsName(md.Name))
		for _, lo := range []bool{false, true} {
			feed := md.Feed
			if lo {
				feed = md.LatestOnlyFeed()
			}
			var want []string
			for _, v := range feed {
				want = append(want, v.ID)
			}
			for _, limit := range []int{0, 2} {
				o.n++
				var got []string
				since := ""
				bad := false
				for pages := 0; pages < len(md.Feed)+10; pages++ {
					q := fmt.Sprintf("/datasets/%s/changes?latestOnly=%v", name, lo)
					if limit > 0 {
						q += fmt.Sprintf("&limit=%d", limit)
					}
					if since != "" {
						q += "&since=" + url.QueryEscape(since)
					}
					code, body, pn := o.w.requestAccept(http.MethodGet, q, "", "application/ld+json")
					if pn != "" || code != 200 {
						o.fail("C02:http-ld:error:"+md.Name, fmt.Sprintf("GET %s as JSON-LD: status %d %s", q, code, pn))
						bad = true
						break
					}
					var arr []map[string]interface{}
					if err := json.Unmarshal(body, &arr); err != nil {
						o.fail("C02:http-ld:unparsable:"+md.Name, fmt.Sprintf("GET %s as JSON-LD is not a JSON array of objects: %v", q, err))
						bad = true
						break
					}
					n, tok := 0, ""
					for _, el := range arr {
						if t, ok := el["core:token"].(string); ok {
							tok = t
							continue
						}
						if id, ok := el["@id"].(string); ok {
							got = append(got, h.AbsID(id))
							n++
						}
					}
					if n == 0 || tok == "" || tok == since {
						break
					}
					since = tok
				}
				if bad {
					continue
				}
				if strings.Join(got, " ") != strings.Join(want, " ") {
					o.fail(fmt.Sprintf("C02:http-ld:feed:%s:lo=%v:limit=%d", md.Name, lo, limit), fmt.Sprintf("GET changes of %s as JSON-LD (latestOnly=%v, limit %d, following tokens) lists %v; the feed is %v", md.Name, lo, limit, got, want))
				}
			}
		}
	}
}

// c02rev: GET changes?reverse=true with every limit, tokens followed: the feed backwards, nothing skipped or repeated.
func (o *httpObs) c02rev() {
	h := o.h
	for _, md := range h.M.LiveInOrder() {
		name := url.PathEscape(h.DsName(md.Name))
		var want []*model.Version
		for i := len(md.Feed) - 1; i >= 0; i-- {
			want = append(want, md.Feed[i])
		}
		for _, limit := range []int{0, 1, 2, 3} {
			o.n++
			var got []*server.Entity
			since := ""
			pages := 0
			bad := false
			for {
				q := fmt.Sprintf("/datasets/%s/changes?reverse=true", name)
				if limit > 0 {
					q += fmt.Sprintf("&limit=%d", limit)
				}
				if since != "" {
					q += "&since=" + url.QueryEscape(since)
				}
				ents, tok, err := o.page(q)
				if err != nil {
					o.fail("C02:http:reverse-error:"+md.Name, err.Error())
					bad = true
					break
				}
				pages++
				got = append(got, ents...)
				if len(ents) == 0 || tok == "" || limit == 0 {
					break
				}
				if tok == since {
					o.fail(fmt.Sprintf("C02:http:reverse-token-stuck:%s:limit=%d", md.Name, limit), "a non-empty reverse page came with the same token")
					bad = true
					break
				}
				since = tok
				if pages > len(md.Feed)+10 {
					o.fail(fmt.Sprintf("C02:http:reverse-loop:%s:limit=%d", md.Name, limit), "reverse paging does not terminate")
					bad = true
					break
				}
			}
			if bad {
				continue
			}
			ok := len(got) == len(want)
			for i := 0; ok && i < len(got); i++ {
				if h.AbsID(got[i].ID) != want[i].ID || !h.AbsContent(got[i]).Equal(want[i].C) {
					ok = false
				}
			}
			if !ok {
				var gl []string
				for _, e := range got {
					gl = append(gl, h.AbsID(e.ID)+"="+h.AbsContent(e).String())
				}
				o.fail(fmt.Sprintf("C02:http:reverse:%s:limit=%d", md.Name, limit), fmt.Sprintf("GET changes?reverse=true of %s (limit %d, following tokens) gives %v; the feed backwards is %v", md.Name, limit, gl, model.FeedStrings(want)))
			}
		}
	}
}

// js runs a query script through POST /query (Content-Type application/x-javascript-query): the JavaScript
// bindings Query / PagedQuery / FindById / GetDatasetChanges are observation points of C01-C03.
func (o *httpObs) js(code string) ([]map[string]interface{}, error) {
	b, _ := json.Marshal(map[string]string{"query": base64.StdEncoding.EncodeToString([]byte(code))})
	req := httptest.NewRequest(http.MethodPost, "/query", bytes.NewReader(b))
	req.Header.Set("Content-Type", "application/x-javascript-query")
	rec := httptest.NewRecorder()
	pn := ""
	func() {
		defer func() {
			if r := recover(); r != nil {
				pn = fmt.Sprint(r)
			}
		}()
		o.w.ws.echo.ServeHTTP(rec, req)
	}()
	if pn != "" || rec.Code != 200 {
		return nil, fmt.Errorf("javascript query: status %d %s %s", rec.Code, pn, short(rec.Body.String()))
	}
	var out []map[string]interface{}
	if err := json.Unmarshal(rec.Body.Bytes(), &out); err != nil {
		return nil, fmt.Errorf("javascript query answer undecodable: %v: %s", err, short(rec.Body.String()))
	}
	return out, nil
}

func jsList(l []string) string { b, _ := json.Marshal(l); return string(b) }

// c03js: Query (unpaged) and PagedQuery (page size 1) through the JavaScript bindings.
func (o *httpObs) c03js(ids []string) {
	h := o.h
	var live []string
	for _, d := range h.M.LiveInOrder() {
		live = append(live, d.Name)
	}
	scopes := [][]string{nil}
	for _, n := range live {
		scopes = append(scopes, []string{n})
	}
	for _, start := range ids {
		for _, pred := range []string{"p", "*"} {
			for _, inv := range []bool{false, true} {
				for _, sc := range scopes {
					want := map[string]bool{}
					for e := range h.M.Graph(sc, -1) {
						if pred != "*" && e.Pred != pred {
							continue
						}
						if !inv && e.Src == start {
							want[e.Pred+">"+e.Dst] = true
						}
						if inv && e.Dst == start {
							want[e.Pred+">"+e.Src] = true
						}
					}
					pu := "*"
					if pred != "*" {
						pu = h.KeyURI(pred)
					}
					var names []string
					for _, n := range sc {
						names = append(names, h.DsName(n))
					}
					if names == nil {
						names = []string{}
					}
					scripts := map[string]string{
						"Query": fmt.Sprintf(`function do_query() { var r = Query([%q], %q, %v, %s); if (r == null) { return; } for (var i = 0; i < r.length; i++) { WriteQueryResult({p: r[i][1], id: r[i][2].ID}); } }`,
							h.URI(start), pu, inv, jsList(names)),
						"PagedQuery": fmt.Sprintf(`function do_query() { PagedQuery({StartURIs: [%q], Via: %q, Inverse: %v, Datasets: %s}, 1, function(res) { for (var i = 0; i < res.length; i++) { WriteQueryResult({p: res[i].PredicateURI, id: res[i].RelatedEntity.ID}); } return true; }); }`,
							h.URI(start), pu, inv, jsList(names)),
					}
					for name, code := range scripts {
						o.n++
						res, err := o.js(code)
						if err != nil {
							o.fail("C03:js:error:"+name, err.Error())
							continue
						}
						got := map[string]int{}
						for _, r := range res {
							p, _ := r["p"].(string)
							id, _ := r["id"].(string)
							got[h.AbsKey(p)+">"+h.AbsID(id)]++
						}
						same := len(got) == len(want)
						for k, n := range got {
							if !want[k] || n != 1 {
								same = false
							}
						}
						if !same {
							dir := "out"
							if inv {
								dir = "in"
							}
							clause := fmt.Sprintf("C03:js:%s:%s/%s/%s/%v", name, start, pred, dir, sc)
							if inv && pred == "*" && h.KFWildcardIncoming(start, sc, got, want) {
								clause = "C03:KF-incoming-wildcard-multipred:js:" + clause
							}
							var gl, wl []string
							for k, n := range got {
								gl = append(gl, fmt.Sprintf("%s x%d", k, n))
							}
							for k := range want {
								wl = append(wl, k)
							}
							sort.Strings(gl)
							sort.Strings(wl)
							o.fail(clause, fmt.Sprintf("JavaScript %s %s/%s/%s scope %v returns %v; the graph of latest versions gives %v", name, start, pred, dir, sc, gl, wl))
						}
					}
				}
			}
		}
	}
}

// c02js: GetDatasetChanges (latest-only by definition) paged with limit 1 and 2 from JavaScript.
func (o *httpObs) c02js() {
	h := o.h
	for _, md := range h.M.LiveInOrder() {
		want := md.LatestOnlyFeed()
		for _, limit := range []int{0, 1, 2} {
			o.n++
			code := fmt.Sprintf(`function do_query() { var since = 0; for (var n = 0; n < 50; n++) { var c = GetDatasetChanges(%q, since, %d); if (c == null || c.Entities == null || c.Entities.length == 0) { break; } for (var i = 0; i < c.Entities.length; i++) { var e = c.Entities[i]; WriteQueryResult({id: e.ID, deleted: e.IsDeleted, props: e.Properties, refs: e.References}); } if (c.NextToken == since) { break; } since = c.NextToken; if (%d == 0) { break; } } }`,
				h.DsName(md.Name), limit, limit)
			res, err := o.js(code)
			if err != nil {
				o.fail("C02:js:error", err.Error())
				continue
			}
			ok := len(res) == len(want)
			var gl []string
			for i, r := range res {
				e := &server.Entity{}
				b, _ := json.Marshal(map[string]interface{}{"id": r["id"], "deleted": r["deleted"], "props": r["props"], "refs": r["refs"]})
				_ = json.Unmarshal(b, e)
				if e.Properties == nil {
					e.Properties = map[string]interface{}{}
				}
				if e.References == nil {
					e.References = map[string]interface{}{}
				}
				gl = append(gl, h.AbsID(e.ID)+"="+h.AbsContent(e).String())
				if ok && (h.AbsID(e.ID) != want[i].ID || !h.AbsContent(e).Equal(want[i].C)) {
					ok = false
				}
			}
			if !ok {
				o.fail(fmt.Sprintf("C02:js:changes:%s:limit=%d", md.Name, limit), fmt.Sprintf("JavaScript GetDatasetChanges of %s (limit %d, tokens followed) gives %v; the latest-only feed is %v", md.Name, limit, gl, model.FeedStrings(want)))
			}
		}
	}
}

// queryPage: one POST /query; the relations as "start|pred>other" -> count, and the continuation tokens of the answer.
func (o *httpObs) queryPage(q map[string]interface{}) (got map[string]int, conts []string, ok bool) {
	h := o.h
	got = map[string]int{}
	b, _ := json.Marshal(q)
	code, body, pn := o.w.request(http.MethodPost, "/query", string(b))
	if pn != "" || code != 200 {
		return got, nil, false
	}
	var res []json.RawMessage
	if err := json.Unmarshal(body, &res); err != nil || len(res) < 2 {
		return got, nil, false
	}
	var rels [][]json.RawMessage
	_ = json.Unmarshal(res[1], &rels)
	for _, r := range rels {
		if len(r) != 3 {
			continue
		}
		var st, p string
		_ = json.Unmarshal(r[0], &st)
		_ = json.Unmarshal(r[1], &p)
		e := &server.Entity{}
		_ = json.Unmarshal(r[2], e)
		got[h.AbsID(st)+"|"+h.AbsKey(p)+">"+h.AbsID(e.ID)]++
	}
	if len(res) > 2 {
		_ = json.Unmarshal(res[2], &conts)
	}
	return got, conts, true
}

func httpStoreReplay(task engine.SeqTask) (res engine.SeqResult) {
	var p server.StoreParams
	_ = json.Unmarshal(task.Params, &p)
	defer func() {
		if r := recover(); r != nil {
			res.Viol = append(res.Viol, engine.Violation{Key: "panic|" + fmt.Sprint(r), What: fmt.Sprintf("panic while replaying history: %v", r)})
			c15W = nil
		}
	}()
	w := c15Get()
	w.n++
	h := w.jw.W.NewHist()
	if err := h.EnsureDatasets(p.Datasets...); err != nil {
		res.HarnessEr = err.Error()
		return
	}
	o := &httpObs{w: w, h: h}
	// a client that started a paged POST /query with several starting entities (limit 1) and fetches the remaining
	// pages after later writes (ops qstart / qcont): the continuation tokens pin the instant
	var pq struct {
		conts []string
		label string
		got   map[string]int
		want  map[string]bool
	}
	pit := false
	for _, ob := range p.Obs {
		if ob == "c06pit" {
			pit = true
		}
	}
	type pitInstant struct {
		t     int64
		label string
		q     int
		truth map[string]int
	}
	type pitQ struct {
		pred string
		inv  bool
	}
	pitQueries := []pitQ{{"*", false}, {h.KeyURI("p"), true}}
	pitStarts := []string{h.URI("e1"), h.URI("e2"), h.URI("e3")}
	pitPrev := map[int]map[string]int{0: {}, 1: {}}
	var pitInst []pitInstant
	for i, raw := range task.Hist {
		var op server.VOp
		if err := json.Unmarshal(raw, &op); err != nil {
			res.HarnessEr = err.Error()
			return
		}
		if i == len(task.Hist)-1 {
			o.last = op.String()
		}
		if op.K == "qstart" {
			starts, pred := []string{"e1", "e2", "e3"}, "*"
			if op.LO {
				starts, pred = []string{"e2", "e3"}, "p"
			}
			q := map[string]interface{}{"inverse": op.LO, "limit": 1}
			var su []string
			for _, s := range starts {
				su = append(su, h.URI(s))
			}
			q["startingEntities"] = su
			if pred == "*" {
				q["predicate"] = "*"
			} else {
				q["predicate"] = h.KeyURI(pred)
			}
			got, conts, ok := o.queryPage(q)
			if !ok || len(conts) == 0 {
				res.Skip, res.Key = true, "skip"
				return
			}
			pq.conts, pq.got = conts, got
			pq.label = fmt.Sprintf("%v/%s/inverse=%v started after operation %d", starts, pred, op.LO, i)
			pq.want = map[string]bool{}
			for e := range h.M.Graph(nil, -1) {
				for _, s := range starts {
					if !op.LO && e.Src == s {
						pq.want[s+"|"+e.Pred+">"+e.Dst] = true
					}
					if op.LO && e.Dst == s && e.Pred == "p" {
						pq.want[s+"|"+e.Pred+">"+e.Src] = true
					}
				}
			}
			continue
		}
		if op.K == "qcont" {
			if pq.conts == nil {
				res.Skip, res.Key = true, "skip"
				return
			}
			for n := 0; len(pq.conts) > 0 && n < 60; n++ {
				g, conts, ok := o.queryPage(map[string]interface{}{"continuations": pq.conts, "limit": 1})
				if !ok {
					o.fail("C06:http:continued-query-error", "continuing a paged POST /query failed")
					break
				}
				for k, c := range g {
					pq.got[k] += c
				}
				pq.conts = conts
			}
			if i == len(task.Hist)-1 {
				o.n++
				same := len(pq.got) == len(pq.want)
				for k, c := range pq.got {
					if !pq.want[k] || c != 1 {
						same = false
					}
				}
				if !same {
					var gl, wl []string
					for k, c := range pq.got {
						gl = append(gl, fmt.Sprintf("%s x%d", k, c))
					}
					for k := range pq.want {
						wl = append(wl, k)
					}
					sort.Strings(gl)
					sort.Strings(wl)
					o.fail("C06:http:continued-current-state-query", fmt.Sprintf("a paged POST /query (%s, limit 1) continued after later writes returned %v in total; when it was started the graph gave %v", pq.label, gl, wl))
				}
			}
			pq.conts, pq.got, pq.want = nil, nil, nil
			continue
		}
		if op.K == "badbatch" || op.K == "badtxn" {
			if err := h.ApplyRefused(op); err != nil {
				res.HarnessEr = err.Error()
				return
			}
			continue
		}
		if pit {
			// point in time through POST /query: the unpaged current-state answer right after every write is the truth
			// for the instants exactly at and 1 ns after its commit, the answer before it for the instant 1 ns before
			t, err := h.ApplyWriteT(op)
			if err != nil {
				o.fail("C01:write-rejected", "valid write rejected: "+err.Error())
				continue
			}
			for qi, q := range pitQueries {
				got, _, ok := o.queryPage(map[string]interface{}{"startingEntities": pitStarts, "predicate": q.pred, "inverse": q.inv, "limit": 0})
				if !ok {
					// the predicate has never been used in the hub (the handler answers "could not load predicate"):
					// nothing to pin for this query at this step
					pitPrev[qi] = map[string]int{}
					continue
				}
				if t != 0 {
					pitInst = append(pitInst, pitInstant{t - 1, fmt.Sprintf("just-before-commit-%d", i+1), qi, pitPrev[qi]},
						pitInstant{t, fmt.Sprintf("exactly-at-commit-%d", i+1), qi, got}, pitInstant{t + 1, fmt.Sprintf("just-after-commit-%d", i+1), qi, got})
				}
				pitPrev[qi] = got
			}
			continue
		}
		if err := h.ApplyWrite(op); err != nil {
			o.fail("C01:write-rejected", "valid write rejected: "+err.Error())
		}
	}
	// every recorded instant again, as a client would that kept a continuation token pinned to it: the tokens are the
	// handler's own encoding (base64 of the JSON of a RelatedFrom) for the instant, one per starting entity
	for _, in := range pitInst {
		q := pitQueries[in.q]
		pred := q.pred
		rfs, err := w.jw.W.Store.ToRelatedFrom(pitStarts, pred, q.inv, nil, in.t)
		if err != nil {
			continue // a start entity that did not exist yet
		}
		var toks []string
		for _, rf := range rfs {
			if rf != nil {
				b, _ := json.Marshal(rf)
				toks = append(toks, base64.StdEncoding.EncodeToString(b))
			}
		}
		if len(toks) == 0 && len(in.truth) == 0 {
			continue
		}
		for _, limit := range []int{0, 1} {
			o.n++
			got := map[string]int{}
			conts := toks
			failed := false
			for n := 0; len(conts) > 0 && n < 60; n++ {
				g, c2, ok := o.queryPage(map[string]interface{}{"continuations": conts, "limit": limit})
				if !ok {
					failed = true
					break
				}
				for k, c := range g {
					got[k] += c
				}
				conts = c2
				if limit == 0 {
					break
				}
			}
			same := !failed && len(got) == len(in.truth)
			for k, c := range got {
				if in.truth[k] != 1 || c != 1 {
					same = false
				}
			}
			if !same {
				var gl, wl []string
				for k, c := range got {
					gl = append(gl, fmt.Sprintf("%s x%d", k, c))
				}
				for k := range in.truth {
					wl = append(wl, k)
				}
				sort.Strings(gl)
				sort.Strings(wl)
				dir := "out"
				if q.inv {
					dir = "in"
				}
				o.fail(fmt.Sprintf("C06:http:pinned-query:%s:%s/%s:limit=%d", strings.SplitN(in.label, "-commit", 2)[0], q.pred, dir, limit), fmt.Sprintf("POST /query continued from tokens pinned to the instant %s (%s %s, limit %d) returns %v; the current-state answer at that instant was %v", in.label, q.pred, dir, limit, gl, wl))
			}
		}
	}
	for _, ob := range p.Obs {
		switch ob {
		case "c01":
			o.c01(p.IDs)
		case "c02":
			o.c02()
			o.c02ld()
			o.c02rev()
			o.c02js()
		case "c03":
			o.c03(p.IDs)
			o.c03multi(p.IDs)
			o.c03js(p.IDs)
		}
	}
	extra := ""
	if pq.conts != nil {
		var gl, wl []string
		for k := range pq.got {
			gl = append(gl, k)
		}
		for k := range pq.want {
			wl = append(wl, k)
		}
		sort.Strings(gl)
		sort.Strings(wl)
		extra = fmt.Sprintf("|pending-query:%s:got=%v:want=%v", pq.label[:strings.Index(pq.label, " started")], gl, wl)
	}
	res.Key = h.Canon(append(append([]string{}, p.IDs...), "e4"), p.Datasets, extra)
	res.Viol = o.viol
	res.Checks = o.n
	res.Outcome = res.Key[:8]
	return
}

func init() {
	engine.RegisterWorker("http-store", func(args []string) {
		defer func() {
			if c15W != nil {
				c15W.destroy()
			}
		}()
		engine.ServeWorker(func(task []byte) interface{} {
			var t engine.SeqTask
			if err := json.Unmarshal(task, &t); err != nil {
				return engine.SeqResult{HarnessEr: err.Error()}
			}
			return httpStoreReplay(t)
		})
	})
}
