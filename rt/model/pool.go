package model

import (
	"fmt"
	"strings"
)

// PoolItem is a named content of the content pool K (abstract names:
// property keys v,w,x; predicates p,q; ids e1..e4).
type PoolItem struct {
	Name string
	C    Content
}

func props(kv ...interface{}) map[string]interface{} {
	m := map[string]interface{}{}
	for i := 0; i+1 < len(kv); i += 2 {
		m[kv[i].(string)] = kv[i+1]
	}
	return m
}

// Pool returns the content pool. pad is the number (as integer with the right
// number of digits) that makes {v:1,x:pad} serialise to the same length as
// {v:1,deleted:true} under the implementation's key prefix; the harness
// computes it (see PadFor) so that equal-length pairs are found, not hand-picked.
func Pool(pad int) []PoolItem {
	no := map[string]interface{}{}
	items := []PoolItem{
		{"v1", Content{Props: props("v", 1), Refs: no}},
		{"v2", Content{Props: props("v", 2), Refs: no}},
		{"dv1", Content{Props: props("v", 1), Refs: no, Deleted: true}},
		{"r2", Content{Props: props(), Refs: props("p", "e2")}},
		{"d", Content{Props: props(), Refs: no, Deleted: true}},
		{"v1pad", Content{Props: props("v", 1, "x", pad), Refs: no}},
		// ---- the narrow pool ends here (NarrowPool) ----
		{"pad", Content{Props: props("x", pad), Refs: no}},
		{"s", Content{Props: props("v", "ab"), Refs: no}},
		{"arr", Content{Props: props("v", []interface{}{1, 2}), Refs: no}},
		{"nest", Content{Props: props("v", map[string]interface{}{"id": "n9", "props": map[string]interface{}{"w": 1}, "refs": map[string]interface{}{}}), Refs: no}},
		{"r23", Content{Props: props(), Refs: props("p", []interface{}{"e2", "e3"})}},
		{"pq2", Content{Props: props(), Refs: props("p", "e2", "q", "e2")}},
		{"v1r2", Content{Props: props("v", 1), Refs: props("p", "e2")}},
		{"v2r2", Content{Props: props("v", 2), Refs: props("p", "e2")}},
		{"dr2", Content{Props: props(), Refs: props("p", "e2"), Deleted: true}},
		{"q3", Content{Props: props(), Refs: props("q", "e3")}},
		{"r1", Content{Props: props(), Refs: props("p", "e1")}},
		{"e", Content{Props: props(), Refs: no}},
		// ---- equal-length partners of earlier items (same serialised length, different meaning) ----
		{"dv2", Content{Props: props("v", 2), Refs: no, Deleted: true}},
		{"r3", Content{Props: props(), Refs: props("p", "e3")}},
		{"r32", Content{Props: props(), Refs: props("p", []interface{}{"e3", "e2"})}},
		{"arr21", Content{Props: props("v", []interface{}{2, 1}), Refs: no}},
		{"psa", Content{Props: props(), Refs: props("p", "e2", "q", []interface{}{"e2"})}},
		{"pas", Content{Props: props(), Refs: props("p", []interface{}{"e2"}, "q", "e2")}},
		{"r223", Content{Props: props(), Refs: props("p", []interface{}{"e2", "e2", "e3"})}},
		{"nest2", Content{Props: props("v", map[string]interface{}{"id": "n9", "props": map[string]interface{}{"w": 2}, "refs": map[string]interface{}{}}), Refs: no}},
		// an array of arrays of whole numbers, as a transform or a job sink hands it over (Go ints, not float64)
		{"arrarr", Content{Props: props("v", []interface{}{[]interface{}{1, 2}, []interface{}{3}}), Refs: no}},
	}
	return items
}

const NarrowPool = 6

func PoolIndex(pool []PoolItem, name string) int {
	for i, p := range pool {
		if p.Name == name {
			return i
		}
	}
	panic("no pool item " + name)
}

// PadFor computes the pad integer: extra bytes needed = len(`,"deleted":true`) = 15;
// the extra property serialises as `,"<prefix>:x":<digits>`.
func PadFor(prefix string) int {
	fixed := len(`,"` + prefix + `:x":`)
	digits := 15 - fixed
	if digits < 1 {
		return -1
	}
	s := "1" + strings.Repeat("0", digits-1)
	var n int
	fmt.Sscanf(s, "%d", &n)
	return n
}
