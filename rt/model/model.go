// Package model is the reference model of the datahub entity store used by the
// verification harness. It is deliberately boring: maps and slices, no datahub
// imports. It defines only what the properties define.
package model

import (
	"encoding/json"
	"fmt"
	"reflect"
	"sort"
	"strings"
)

// Content is the property-relevant content of one entity version, in abstract
// names (the harness maps "v" -> "<prefix>:v" etc.).
type Content struct {
	Props   map[string]interface{} `json:"props"`
	Refs    map[string]interface{} `json:"refs"` // string or []interface{} of strings (JSON shape kept)
	Deleted bool                   `json:"deleted,omitempty"`
}

// Norm returns the JSON-normalised deep copy (numbers float64, slices []interface{}).
func Norm(v interface{}) interface{} {
	b, err := json.Marshal(v)
	if err != nil {
		panic(err)
	}
	var out interface{}
	if err := json.Unmarshal(b, &out); err != nil {
		panic(err)
	}
	return out
}

func (c Content) Clone() Content {
	n := Content{Deleted: c.Deleted, Props: map[string]interface{}{}, Refs: map[string]interface{}{}}
	for k, v := range c.Props {
		n.Props[k] = Norm(v)
	}
	for k, v := range c.Refs {
		n.Refs[k] = Norm(v)
	}
	return n
}

// Equal is semantic identity of two versions: same JSON value of props, refs and deleted flag.
func (c Content) Equal(o Content) bool {
	if c.Deleted != o.Deleted {
		return false
	}
	return jsonEq(c.Props, o.Props) && jsonEq(c.Refs, o.Refs)
}

func jsonEq(a, b map[string]interface{}) bool {
	if len(a) != len(b) {
		return false
	}
	for k, v := range a {
		w, ok := b[k]
		if !ok {
			return false
		}
		if !reflect.DeepEqual(Norm(v), Norm(w)) {
			return false
		}
	}
	return true
}

func (c Content) String() string {
	b, _ := json.Marshal(c)
	return string(b)
}

// RefTargets returns predicate -> list of targets.
func (c Content) RefTargets() map[string][]string {
	out := map[string][]string{}
	for p, v := range c.Refs {
		switch t := v.(type) {
		case string:
			out[p] = []string{t}
		case []string:
			out[p] = append([]string{}, t...)
		case []interface{}:
			for _, x := range t {
				if s, ok := x.(string); ok {
					out[p] = append(out[p], s)
				}
			}
		}
	}
	return out
}

// Ent is one element of a write: abstract id + content.
type Ent struct {
	ID string  `json:"id"`
	C  Content `json:"c"`
}

// Version is a stored version.
type Version struct {
	ID     string
	C      Content
	Commit int // index of the write operation (all versions of one batch/txn share it)
	Seq    int // global order of storing
}

type Dataset struct {
	Name     string
	Inc      int                   // incarnation number (unique over the world's life)
	Versions map[string][]*Version // id -> versions in order
	Feed     []*Version            // change feed
	Order    []string              // ids in order of first storage
	Foreign  map[string]bool       // ids stored by a harness outside the model's id space (counted, not modelled)
}

func (d *Dataset) Latest(id string) *Version {
	vs := d.Versions[id]
	if len(vs) == 0 {
		return nil
	}
	return vs[len(vs)-1]
}

// World is the model of the whole store.
type World struct {
	Datasets map[string]*Dataset // live datasets by name
	Created  []string            // live dataset names in creation order (incarnation order)
	Dead     []*Dataset          // deleted incarnations
	commit   int
	seq      int
	inc      int
}

func NewWorld() *World {
	return &World{Datasets: map[string]*Dataset{}}
}

func (w *World) Create(name string) *Dataset {
	if d, ok := w.Datasets[name]; ok {
		return d
	}
	w.inc++
	d := &Dataset{Name: name, Inc: w.inc, Versions: map[string][]*Version{}}
	w.Datasets[name] = d
	w.Created = append(w.Created, name)
	return d
}

func (w *World) Delete(name string) bool {
	d, ok := w.Datasets[name]
	if !ok {
		return false
	}
	delete(w.Datasets, name)
	w.Dead = append(w.Dead, d)
	for i, n := range w.Created {
		if n == name {
			w.Created = append(w.Created[:i:i], w.Created[i+1:]...)
			break
		}
	}
	return true
}

func (w *World) Rename(old, nw string) bool {
	d, ok := w.Datasets[old]
	if !ok {
		return false
	}
	if _, exists := w.Datasets[nw]; exists {
		return false
	}
	delete(w.Datasets, old)
	d.Name = nw
	w.Datasets[nw] = d
	for i, n := range w.Created {
		if n == old {
			w.Created[i] = nw
		}
	}
	return true
}

// LiveInOrder returns live datasets ordered by incarnation (= internal dataset id order).
func (w *World) LiveInOrder() []*Dataset {
	out := []*Dataset{}
	for _, d := range w.Datasets {
		out = append(out, d)
	}
	sort.Slice(out, func(i, j int) bool { return out[i].Inc < out[j].Inc })
	return out
}

// storeOne applies one entity of a write; returns true if a version was added.
func (w *World) storeOne(d *Dataset, e Ent) bool {
	cur := d.Latest(e.ID)
	if cur != nil && cur.C.Equal(e.C) {
		return false
	}
	w.seq++
	v := &Version{ID: e.ID, C: e.C.Clone(), Commit: w.commit, Seq: w.seq}
	if cur == nil {
		d.Order = append(d.Order, e.ID)
	}
	d.Versions[e.ID] = append(d.Versions[e.ID], v)
	d.Feed = append(d.Feed, v)
	return true
}

// Batch applies a batch write to one dataset. Returns number of versions added.
func (w *World) Batch(ds string, ents []Ent) (int, error) {
	d, ok := w.Datasets[ds]
	if !ok {
		return 0, fmt.Errorf("no dataset %s", ds)
	}
	if len(ents) == 0 {
		return 0, nil
	}
	w.commit++
	n := 0
	for _, e := range ents {
		if w.storeOne(d, e) {
			n++
		}
	}
	return n, nil
}

// Txn applies a multi-dataset transaction (one commit).
func (w *World) Txn(parts map[string][]Ent) error {
	for ds := range parts {
		if _, ok := w.Datasets[ds]; !ok {
			return fmt.Errorf("no dataset %s", ds)
		}
	}
	w.commit++
	names := []string{}
	for ds := range parts {
		names = append(names, ds)
	}
	sort.Strings(names)
	for _, ds := range names {
		for _, e := range parts[ds] {
			w.storeOne(w.Datasets[ds], e)
		}
	}
	return nil
}

func (w *World) CommitIndex() int { return w.commit }

// ---- views ----

// LatestView: id -> latest content for a dataset (ids in Order).
func (d *Dataset) LatestView() map[string]Content {
	out := map[string]Content{}
	for id, vs := range d.Versions {
		out[id] = vs[len(vs)-1].C
	}
	return out
}

// LatestAt returns the latest version of id in d with Commit <= commit (nil if none).
func (d *Dataset) LatestAt(id string, commit int) *Version {
	var r *Version
	for _, v := range d.Versions[id] {
		if v.Commit <= commit {
			r = v
		}
	}
	return r
}

// Merged returns the model's unscoped/scoped merged view of id as of commit
// (commit<0: now): the per-dataset latest non-deleted versions in dataset
// internal-id order, merged the way the documentation describes (same key ->
// values concatenated into a list). scope nil/empty = all live datasets.
// found=false when no in-scope dataset has a non-deleted latest version;
// anyDeleted reports whether some in-scope dataset's latest version is deleted.
func (w *World) Merged(id string, scope []string, commit int) (c Content, parts int, anyDeleted bool) {
	c = Content{Props: map[string]interface{}{}, Refs: map[string]interface{}{}}
	for _, d := range w.LiveInOrder() {
		if len(scope) > 0 && !contains(scope, d.Name) {
			continue
		}
		var v *Version
		if commit < 0 {
			v = d.Latest(id)
		} else {
			v = d.LatestAt(id, commit)
		}
		if v == nil {
			continue
		}
		if v.C.Deleted {
			anyDeleted = true
			continue
		}
		parts++
		mergeInto(c.Props, v.C.Props)
		mergeInto(c.Refs, v.C.Refs)
	}
	return
}

func mergeInto(t, s map[string]interface{}) {
	for k, sv := range s {
		sv = Norm(sv)
		tv, ok := t[k]
		if !ok {
			t[k] = sv
			continue
		}
		var vals []interface{}
		if l, isl := tv.([]interface{}); isl {
			vals = append(vals, l...)
		} else {
			vals = append(vals, tv)
		}
		if l, isl := sv.([]interface{}); isl {
			vals = append(vals, l...)
		} else {
			vals = append(vals, sv)
		}
		t[k] = vals
	}
}

func contains(l []string, s string) bool {
	for _, x := range l {
		if x == s {
			return true
		}
	}
	return false
}

// Edge is one (source, predicate, target) of the graph of latest versions.
type Edge struct{ Src, Pred, Dst string }

func (e Edge) String() string { return e.Src + " -" + e.Pred + "-> " + e.Dst }

// Graph returns the edge set implied by latest versions (as of commit; <0 = now)
// of in-scope, live datasets whose latest version of the source is not deleted.
func (w *World) Graph(scope []string, commit int) map[Edge]bool {
	out := map[Edge]bool{}
	for _, d := range w.LiveInOrder() {
		if len(scope) > 0 && !contains(scope, d.Name) {
			continue
		}
		for id := range d.Versions {
			var v *Version
			if commit < 0 {
				v = d.Latest(id)
			} else {
				v = d.LatestAt(id, commit)
			}
			if v == nil || v.C.Deleted {
				continue
			}
			for p, ts := range v.C.RefTargets() {
				for _, t := range ts {
					out[Edge{id, p, t}] = true
				}
			}
		}
	}
	return out
}

// EdgeList returns a sorted printable list.
func EdgeList(m map[Edge]bool) []string {
	out := []string{}
	for e := range m {
		out = append(out, e.String())
	}
	sort.Strings(out)
	return out
}

// FeedStrings renders a feed for messages.
func FeedStrings(f []*Version) []string {
	out := []string{}
	for _, v := range f {
		out = append(out, v.ID+"="+v.C.String())
	}
	return out
}

// LatestOnlyFeed: the feed restricted to entries that are the newest version of their entity.
func (d *Dataset) LatestOnlyFeed() []*Version {
	out := []*Version{}
	for _, v := range d.Feed {
		if d.Latest(v.ID) == v {
			out = append(out, v)
		}
	}
	return out
}

// DistinctIDs is the number of distinct ids ever stored in the dataset.
func (d *Dataset) DistinctIDs() int { return len(d.Versions) + len(d.Foreign) }

// Describe returns a compact dump for messages.
func (w *World) Describe() string {
	var sb strings.Builder
	for _, d := range w.LiveInOrder() {
		fmt.Fprintf(&sb, "%s: %v\n", d.Name, FeedStrings(d.Feed))
	}
	return sb.String()
}

// ForceDup appends a version identical to the latest one (a legacy duplicate that today's write path refuses).
func (w *World) ForceDup(ds, id string) {
	d := w.Datasets[ds]
	if d == nil || d.Latest(id) == nil {
		return
	}
	w.commit++
	w.seq++
	v := &Version{ID: id, C: d.Latest(id).C.Clone(), Commit: w.commit, Seq: w.seq}
	d.Versions[id] = append(d.Versions[id], v)
	d.Feed = append(d.Feed, v)
}

// Compact removes every version that is identical to its immediate predecessor (deduplicating compaction).
// It returns the number of versions removed.
func (w *World) Compact(ds string) int {
	d := w.Datasets[ds]
	if d == nil {
		return 0
	}
	removed := map[*Version]bool{}
	for id, vs := range d.Versions {
		var kept []*Version
		for i, v := range vs {
			if i > 0 && v.C.Equal(kept[len(kept)-1].C) {
				removed[v] = true
				continue
			}
			kept = append(kept, v)
		}
		d.Versions[id] = kept
	}
	var feed []*Version
	for _, v := range d.Feed {
		if !removed[v] {
			feed = append(feed, v)
		}
	}
	d.Feed = feed
	return len(removed)
}


// NoteForeignID records that an entity with the given (non-harness) id was stored in the dataset: it counts as one
// distinct id for DistinctIDs and is otherwise invisible to the model.
func (d *Dataset) NoteForeignID(id string) {
	if d.Foreign == nil {
		d.Foreign = map[string]bool{}
	}
	d.Foreign[id] = true
}
