// Package engine holds the generic drivers of the verification machinery:
// a worker-process pool, the explicit-state BFS over operation sequences (SEQ),
// the evidence writer and the violation/known-finding bookkeeping.
package engine

import (
	"bufio"
	"encoding/json"
	"fmt"
	"io"
	"os"
	"os/exec"
	"runtime"
	"sync"
	"time"
)

// Task/Result are opaque JSON for the pool.
type Result struct {
	Out    json.RawMessage
	Err    string // worker died / timed out (not a verdict)
	Killed bool
}

// Pool runs tasks on N worker subprocesses (self-exec).
type Pool struct {
	N       int
	Args    []string      // arguments after the binary name
	Timeout time.Duration // per task
	Env     []string
}

func DefaultWorkers() int {
	n := runtime.NumCPU()
	if v := os.Getenv("VERIF_WORKERS"); v != "" {
		fmt.Sscanf(v, "%d", &n)
	}
	if n < 1 {
		n = 1
	}
	return n
}

type workerProc struct {
	cmd *exec.Cmd
	in  io.WriteCloser
	out *bufio.Reader
}

func (p *Pool) start() (*workerProc, error) {
	exe, err := os.Executable()
	if err != nil {
		return nil, err
	}
	cmd := exec.Command(exe, p.Args...)
	cmd.Env = append(os.Environ(), "GOMAXPROCS=2")
	cmd.Env = append(cmd.Env, p.Env...)
	cmd.Stderr = os.Stderr
	in, err := cmd.StdinPipe()
	if err != nil {
		return nil, err
	}
	out, err := cmd.StdoutPipe()
	if err != nil {
		return nil, err
	}
	if err := cmd.Start(); err != nil {
		return nil, err
	}
	return &workerProc{cmd: cmd, in: in, out: bufio.NewReaderSize(out, 1<<20)}, nil
}

func (w *workerProc) kill() {
	if w == nil {
		return
	}
	_ = w.in.Close()
	_ = w.cmd.Process.Kill()
	_, _ = w.cmd.Process.Wait()
}

// Do runs all tasks and returns results in task order. A worker that dies or
// exceeds the timeout is restarted; its task gets Err set.
func (p *Pool) Do(tasks []json.RawMessage, progress func(done int)) []Result {
	return p.DoStop(tasks, func(int, Result) bool { return false })
}

// DoStop is Do with a per-result callback (called serially); when it returns
// true no further tasks are started and the remaining results get Err "skipped".
func (p *Pool) DoStop(tasks []json.RawMessage, onResult func(i int, res Result) bool) []Result {
	var progress func(int)
	stopped := false
	n := p.N
	if n <= 0 {
		n = DefaultWorkers()
	}
	if n > len(tasks) {
		n = len(tasks)
	}
	results := make([]Result, len(tasks))
	if len(tasks) == 0 {
		return results
	}
	timeout := p.Timeout
	if timeout == 0 {
		timeout = 120 * time.Second
	}
	var mu sync.Mutex
	next := 0
	done := 0
	var wg sync.WaitGroup
	for i := 0; i < n; i++ {
		wg.Add(1)
		go func() {
			defer wg.Done()
			var w *workerProc
			defer func() { w.kill() }()
			for {
				mu.Lock()
				if stopped {
					for next < len(tasks) {
						results[next] = Result{Err: "skipped"}
						next++
					}
				}
				if next >= len(tasks) {
					mu.Unlock()
					return
				}
				idx := next
				next++
				mu.Unlock()
				if w == nil {
					var err error
					w, err = p.start()
					if err != nil {
						results[idx] = Result{Err: "start: " + err.Error()}
						continue
					}
				}
				type rd struct {
					line []byte
					err  error
				}
				ch := make(chan rd, 1)
				_, werr := w.in.Write(append(append([]byte{}, tasks[idx]...), '\n'))
				if werr != nil {
					results[idx] = Result{Err: "write: " + werr.Error()}
					w.kill()
					w = nil
				} else {
					go func(w *workerProc) {
						line, err := w.out.ReadBytes('\n')
						ch <- rd{line, err}
					}(w)
					select {
					case r := <-ch:
						if r.err != nil {
							results[idx] = Result{Err: "worker died: " + r.err.Error(), Killed: true}
							w.kill()
							w = nil
						} else {
							results[idx] = Result{Out: json.RawMessage(r.line)}
						}
					case <-time.After(timeout):
						results[idx] = Result{Err: "timeout", Killed: true}
						w.kill()
						w = nil
					}
				}
				mu.Lock()
				done++
				d := done
				if onResult != nil && !stopped && onResult(idx, results[idx]) {
					stopped = true
				}
				mu.Unlock()
				if progress != nil {
					progress(d)
				}
			}
		}()
	}
	wg.Wait()
	return results
}

// ServeWorker is the worker side: reads one JSON task per line from stdin,
// writes one JSON result per line to stdout.
func ServeWorker(handle func(task []byte) interface{}) {
	in := bufio.NewReaderSize(os.Stdin, 1<<20)
	out := bufio.NewWriter(os.Stdout)
	for {
		line, err := in.ReadBytes('\n')
		if len(line) > 0 {
			res := handle(line)
			b, merr := json.Marshal(res)
			if merr != nil {
				b, _ = json.Marshal(map[string]string{"error": merr.Error()})
			}
			out.Write(b)
			out.WriteByte('\n')
			out.Flush()
		}
		if err != nil {
			return
		}
	}
}
