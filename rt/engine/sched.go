package engine

import (
	"encoding/json"
	"fmt"
	"os"
	"regexp"
	"sort"
	"strings"
	"time"

	"github.com/mimiro-io/datahub/internal/verifrt/vsync"
)

// SchedSpec describes one preemption-bounded exploration of a scenario.
type SchedSpec struct {
	Name       string
	WorkerArgs []string
	Scenario   interface{} // JSON-serialisable scenario understood by the worker
	Bound      int
	Horizon    int
	BudgetS    int // per-subtree time budget
	MaxExec    int // per-subtree execution cap
}

type schedTask struct {
	Scenario interface{} `json:"scenario"`
	Prefix   []int       `json:"prefix"`
	Want     []string    `json:"want,omitempty"`
	Root     bool        `json:"root,omitempty"`
	Bound    int         `json:"bound"`
	Horizon  int         `json:"horizon"`
	MaxExec  int         `json:"max_exec"`
	BudgetS  int         `json:"budget_s"`
	NotAfter int64       `json:"not_after,omitempty"` // unix seconds: the scenario's overall deadline
	Single   bool        `json:"single,omitempty"`
}

type schedResult struct {
	Stats     *vsync.Stats `json:"stats"`
	Tasks     [][]int      `json:"tasks,omitempty"`
	RootLabel []string     `json:"root_labels,omitempty"`
	Fatal     bool         `json:"fatal"`
	HarnessEr string       `json:"harness_error,omitempty"`
}

var unnamedLock = regexp.MustCompile(`(\*vsync\.[A-Za-z]+)@0x[0-9a-f]+`)

// RunSched explores all schedules of the scenario with at most Bound
// preemptions: the root execution is run first, then every first-level
// alternative subtree is explored (DFS) by a worker process.
func RunSched(r *Run, spec SchedSpec) *vsync.Stats {
	start := time.Now()
	pool := &Pool{Args: spec.WorkerArgs, Timeout: time.Duration(spec.BudgetS+90) * time.Second}
	total := vsync.NewStats()
	mk := func(t schedTask) json.RawMessage {
		t.Scenario = spec.Scenario
		t.Bound = spec.Bound
		t.Horizon = spec.Horizon
		t.MaxExec = spec.MaxExec
		t.BudgetS = spec.BudgetS
		if spec.BudgetS > 0 {
			// the budget is per subtree; the scenario as a whole gets three times that (subtrees run in parallel)
			t.NotAfter = start.Add(time.Duration(3*spec.BudgetS) * time.Second).Unix()
		}
		b, _ := json.Marshal(t)
		return b
	}
	decode := func(res Result) (*schedResult, bool) {
		if res.Err != "" {
			return nil, false
		}
		var sr schedResult
		if err := json.Unmarshal(res.Out, &sr); err != nil {
			r.Cap(spec.Name + ": undecodable sched result: " + err.Error())
			return nil, false
		}
		if sr.HarnessEr != "" {
			r.Cap(spec.Name + ": harness error: " + sr.HarnessEr)
		}
		return &sr, true
	}
	rootRes := pool.Do([]json.RawMessage{mk(schedTask{Root: true})}, nil)
	root, ok := decode(rootRes[0])
	if !ok {
		r.Cap(spec.Name + ": root execution failed: " + rootRes[0].Err)
		if strings.Contains(rootRes[0].Err, "worker died") {
			// the default schedule (no preemption at all) terminates the process: not a matter of budget
			r.AddViolation(Violation{Key: spec.Name + ":process-dies|default schedule", Engine: "SCHED:" + spec.Name,
				What:   "running the scenario under the default schedule (no preemption) terminates the worker process with an unrecoverable error: " + rootRes[0].Err,
				Replay: map[string]interface{}{"worker": spec.WorkerArgs, "scenario": spec.Scenario, "choices": []int{}, "horizon": spec.Horizon}})
		}
		return total
	}
	total.Merge(root.Stats)
	var tasks []json.RawMessage
	for _, p := range root.Tasks {
		want := root.RootLabel
		if len(p)-1 < len(want) {
			want = want[:len(p)-1]
		}
		tasks = append(tasks, mk(schedTask{Prefix: p, Want: want}))
	}
	results := pool.Do(tasks, nil)
	var retry []json.RawMessage
	for i, res := range results {
		if sr, ok := decode(res); ok {
			total.Merge(sr.Stats)
		} else {
			retry = append(retry, tasks[i])
		}
	}
	if len(retry) > 0 {
		for i, res := range pool.Do(retry, nil) {
			if sr, ok := decode(res); ok {
				total.Merge(sr.Stats)
			} else {
				r.Cap(fmt.Sprintf("%s: subtree task failed twice (%s): %s", spec.Name, res.Err, string(retry[i])[:120]))
				if strings.Contains(res.Err, "worker died") {
					r.AddViolation(Violation{Key: spec.Name + ":process-dies|subtree", Engine: "SCHED:" + spec.Name,
						What:   "exploring a subtree of schedules terminated the worker process twice with an unrecoverable error (" + res.Err + "); task " + string(retry[i]),
						Replay: map[string]interface{}{"worker": spec.WorkerArgs, "scenario": spec.Scenario, "task": json.RawMessage(retry[i]), "horizon": spec.Horizon}})
				}
			}
		}
	}
	if total.Capped != "" {
		r.Cap(spec.Name + ": " + total.Capped)
	}
	if total.Divergences > 0 {
		r.Cap(fmt.Sprintf("%s: %d subtrees skipped because replay stayed nondeterministic", spec.Name, total.Divergences))
	}
	// findings -> violations (deduplicated by kind + first line)
	for _, f := range total.Findings {
		if f.Kind == "stuck" {
			// an execution that ran into the real-time watchdog: a thread blocked in something the scheduler does not
			// control (an unbuffered channel send, I/O). That is a limit of the harness, not a verdict on the code: the
			// scenario is reported as not explored (exhaustive: false), never as a violation and never silently
			r.Cap(fmt.Sprintf("%s: an execution did not finish under the controlled scheduler (blocked outside its control; choices %v): the scenario is NOT explored", spec.Name, f.Choices))
			continue
		}
		first := f.What
		if i := strings.Index(first, "\n"); i > 0 {
			first = first[:i]
		}
		if len(first) > 160 {
			first = first[:160]
		}
		key := spec.Name + ":" + f.Kind + "|" + first
		if i := strings.Index(f.What, "::"); f.Kind == "oracle" && i > 0 && i < 80 {
			// the oracle names the violated clause: "<clause>::<text>"
			key = f.What[:i] + "|" + spec.Name
			f.What = f.What[i+2:]
		}
		r.AddViolation(Violation{Key: key, What: f.What, Engine: "SCHED:" + spec.Name,
			Replay: map[string]interface{}{"worker": spec.WorkerArgs, "scenario": spec.Scenario, "choices": f.Choices, "labels": f.Labels, "horizon": spec.Horizon}})
	}
	var outcomes []string
	for o := range total.Outcomes {
		outcomes = append(outcomes, o)
		r.AddDistinct(spec.Name + ":" + o)
	}
	sort.Strings(outcomes)
	r.mu.Lock()
	r.States += len(total.Outcomes)
	r.Transitions += total.Points
	r.Traces += total.Executions
	r.Evaluations += total.Executions
	r.mu.Unlock()
	// locks without a name appear by address (a fresh one per execution): reported as one class
	edgeSet := map[string]bool{}
	for e := range total.LockEdges {
		edgeSet[unnamedLock.ReplaceAllString(e, "$1@(unnamed)")] = true
	}
	var edges []string
	for e := range edgeSet {
		edges = append(edges, e)
	}
	sort.Strings(edges)
	cycles := vsync.CyclesIn(total.LockEdges)
	fmt.Fprintf(os.Stderr, "[%s] bound=%d: %d executions, %d scheduling points (max %d per execution), %d distinct outcomes, %d deadlocks, %d redraws (%.1fs)\n",
		spec.Name, spec.Bound, total.Executions, total.Points, total.MaxPoints, len(total.Outcomes), total.Deadlocks, total.Redraws, time.Since(start).Seconds())
	if len(outcomes) > 3 {
		outcomes = outcomes[:3]
	}
	r.AddSample(map[string]interface{}{"scenario": spec.Scenario, "root_schedule_labels": root.RootLabel, "outcomes": outcomes})
	r.AddPart(map[string]interface{}{"engine": "SCHED", "scenario": spec.Name, "preemption_bound": spec.Bound, "executions": total.Executions,
		"scheduling_points": total.Points, "max_points_per_execution": total.MaxPoints, "distinct_outcomes": len(total.Outcomes), "deadlocks": total.Deadlocks,
		"first_level_subtrees": len(tasks), "redraws": total.Redraws, "lock_order_edges": edges, "lock_order_cycles_informational": cycles,
		"capped": total.Capped, "wall_s": time.Since(start).Seconds()})
	return total
}
