package engine

import (
	"encoding/json"
	"fmt"
	"os"
	"sort"
	"time"
)

// CrashOutcome mirrors the harness' crash task result.
type CrashOutcome struct {
	Count *struct {
		Commits int            `json:"commits"`
		Points  map[string]int `json:"points"`
		Acks    int            `json:"acks"`
		Async   int            `json:"async"`
	} `json:"count,omitempty"`
	Acked     int         `json:"acked"`
	Died      bool        `json:"died"`
	Key       string      `json:"key"`
	Matched   int         `json:"matched"`
	Viol      []Violation `json:"viol,omitempty"`
	Checks    int         `json:"checks"`
	HarnessEr string      `json:"harness_error,omitempty"`
}

// RunCrash enumerates every kill point of every base experiment: first a
// counting pass (no kill) learns the number N of durable commits and the hit
// counts of the named points of each history, then one real-SIGKILL experiment
// is run for every commit boundary 1..N and for every (point, hit).
func RunCrash(r *Run, name string, workerArgs []string, bases []map[string]interface{}, maxKills int) {
	start := time.Now()
	pool := &Pool{Args: workerArgs, Timeout: 150 * time.Second}
	mk := func(base map[string]interface{}, kill map[string]interface{}) json.RawMessage {
		m := map[string]interface{}{}
		for k, v := range base {
			m[k] = v
		}
		m["kill"] = kill
		b, _ := json.Marshal(m)
		return b
	}
	var countTasks []json.RawMessage
	for _, b := range bases {
		countTasks = append(countTasks, mk(b, map[string]interface{}{}))
	}
	counts := pool.Do(countTasks, nil)
	type killTask struct {
		base  int
		kind  string
		label string
	}
	var tasks []json.RawMessage
	var meta []killTask
	totalCommits := 0
	for i, res := range counts {
		var out CrashOutcome
		if res.Err != "" || json.Unmarshal(res.Out, &out) != nil || out.HarnessEr != "" || out.Count == nil {
			r.Cap(fmt.Sprintf("%s: counting pass failed for base %d: %s %s", name, i, res.Err, out.HarnessEr))
			continue
		}
		for _, v := range out.Viol {
			v.Engine = "CRASH:" + name
			v.Replay = map[string]interface{}{"worker": workerArgs, "spec": bases[i]}
			r.AddViolation(v)
		}
		totalCommits += out.Count.Commits
		for k := 1; k <= out.Count.Commits+1; k++ {
			tasks = append(tasks, mk(bases[i], map[string]interface{}{"commit": k}))
			meta = append(meta, killTask{i, "commit", fmt.Sprintf("commit#%d", k)})
		}
		for k := 1; k <= out.Count.Async; k++ {
			tasks = append(tasks, mk(bases[i], map[string]interface{}{"async": k}))
			meta = append(meta, killTask{i, "async", fmt.Sprintf("async#%d", k)})
		}
		var names []string
		for n := range out.Count.Points {
			names = append(names, n)
		}
		sort.Strings(names)
		for _, n := range names {
			for h := 1; h <= out.Count.Points[n]; h++ {
				tasks = append(tasks, mk(bases[i], map[string]interface{}{"point": n, "n": h}))
				meta = append(meta, killTask{i, "point", fmt.Sprintf("%s#%d", n, h)})
			}
		}
	}
	if maxKills > 0 && len(tasks) > maxKills {
		r.Cap(fmt.Sprintf("%s: %d kill experiments > cap %d; only the first %d were run", name, len(tasks), maxKills, maxKills))
		tasks = tasks[:maxKills]
		meta = meta[:maxKills]
	}
	results := pool.Do(tasks, nil)
	// retry tasks whose worker died (recovery may have crashed the process: must be reproducible to count)
	var retryIdx []int
	var retry []json.RawMessage
	for i, res := range results {
		if res.Err != "" {
			retryIdx = append(retryIdx, i)
			retry = append(retry, tasks[i])
		}
	}
	if len(retry) > 0 {
		rr := pool.Do(retry, nil)
		for j, res := range rr {
			results[retryIdx[j]] = res
			if res.Err != "" {
				var spec interface{}
				_ = json.Unmarshal(tasks[retryIdx[j]], &spec)
				r.AddViolation(Violation{Key: "recovery-crash|" + string(tasks[retryIdx[j]]), Engine: "CRASH:" + name,
					What:   "reopening the store after the kill terminated or hung the process twice (" + res.Err + ")",
					Replay: map[string]interface{}{"worker": workerArgs, "spec": spec}})
			}
		}
	}
	commitKeys := map[int]map[string]bool{}
	pointKeys := map[int]map[string]string{}
	kills, checks, notReached := 0, 0, 0
	matched := map[int]int{}
	for i, res := range results {
		if res.Err != "" {
			continue
		}
		var out CrashOutcome
		if err := json.Unmarshal(res.Out, &out); err != nil {
			r.Cap(name + ": undecodable crash result")
			continue
		}
		if out.HarnessEr != "" {
			r.Cap(fmt.Sprintf("%s: harness error: %s", name, out.HarnessEr))
			continue
		}
		if out.Matched == -2 {
			notReached++
			continue
		}
		kills++
		checks += out.Checks
		var spec interface{}
		_ = json.Unmarshal(tasks[i], &spec)
		for _, v := range out.Viol {
			v.Engine = "CRASH:" + name
			v.Replay = map[string]interface{}{"worker": workerArgs, "spec": spec}
			r.AddViolation(v)
		}
		if out.Key != "" {
			r.AddDistinct(name + ":" + out.Key)
			m := meta[i]
			if m.kind == "commit" {
				if commitKeys[m.base] == nil {
					commitKeys[m.base] = map[string]bool{}
				}
				commitKeys[m.base][out.Key] = true
			} else if m.kind == "point" {
				if pointKeys[m.base] == nil {
					pointKeys[m.base] = map[string]string{}
				}
				pointKeys[m.base][out.Key] = m.label
			}
		}
		matched[out.Matched-out.Acked]++
		if kills%53 == 1 {
			r.AddSample(map[string]interface{}{"experiment": spec, "acked": out.Acked, "recovered_matches_ops_applied": out.Matched})
		}
	}
	// completeness cross-check of the two enumerations
	for b, pk := range pointKeys {
		for k, lbl := range pk {
			if !commitKeys[b][k] {
				r.Cap(fmt.Sprintf("%s: recovered state after kill at %s is not among the states of the commit-boundary enumeration (hook list incomplete?)", name, lbl))
			}
		}
	}
	if notReached > 0 {
		r.Cap(fmt.Sprintf("%s: %d kill points were not reached when re-running (nondeterministic commit count)", name, notReached))
	}
	r.mu.Lock()
	r.Evaluations += kills
	r.States += len(r.Distinct)
	r.Transitions += kills
	r.Traces += kills
	r.mu.Unlock()
	fmt.Fprintf(os.Stderr, "[%s] %d base histories, %d commits, %d kill experiments, in-flight op absent/present: %d/%d (%.1fs)\n", name, len(bases), totalCommits, kills, matched[0], matched[1], time.Since(start).Seconds())
	r.AddPart(map[string]interface{}{"engine": "CRASH", "name": name, "base_histories": len(bases), "durable_commits": totalCommits, "kill_experiments": kills,
		"oracle_checks": checks, "inflight_absent": matched[0], "inflight_present": matched[1], "wall_s": time.Since(start).Seconds()})
}
