package engine

import (
	"encoding/json"
	"fmt"
	"os"
	"strings"
	"time"
)

// SeqTask is what a SEQ worker receives: a whole history to replay on a fresh
// namespace of the real implementation.
type SeqTask struct {
	Hist   []json.RawMessage `json:"hist"`
	Params json.RawMessage   `json:"params,omitempty"`
}

// SeqResult is what a SEQ worker returns.
type SeqResult struct {
	Key       string      `json:"key"`            // canonical state key computed from the implementation
	Skip      bool        `json:"skip,omitempty"` // last op not applicable in this state (not a transition)
	Viol      []Violation `json:"viol,omitempty"`
	Checks    int         `json:"checks"`            // oracle comparisons performed on this path
	Outcome   string      `json:"outcome,omitempty"` // short digest of what was observed (for distinct-outcome counting)
	HarnessEr string      `json:"harness_error,omitempty"`
}

// SeqSpec describes one explicit-state search.
type SeqSpec struct {
	Name       string
	WorkerArgs []string
	Alphabet   []json.RawMessage
	Params     json.RawMessage
	Depth      int
	Budget     time.Duration // soft budget: a level is only started if time remains
	Workers    int
	MaxFront   int // safety cap on frontier size (0 = none)
}

// RunSeq performs the level-by-level BFS with canonical-state deduplication.
// Every explored transition is an execution of the real implementation
// (history replayed on a fresh namespace + 1 op) compared with the reference
// model by the worker.
func RunSeq(r *Run, spec SeqSpec) {
	start := time.Now()
	pool := &Pool{N: spec.Workers, Args: spec.WorkerArgs, Timeout: 180 * time.Second}
	seen := map[string]bool{}
	frontier := [][]json.RawMessage{{}}
	// root
	rootTask, _ := json.Marshal(SeqTask{Hist: nil, Params: spec.Params})
	res := pool.Do([]json.RawMessage{rootTask}, nil)
	states, transitions, checks := 0, 0, 0
	if rr, ok := decodeSeq(r, spec, res[0], nil); ok {
		seen[rr.Key] = true
		states = 1
		checks += rr.Checks
	}
	depthDone := 0
	levelStats := []map[string]interface{}{}
	for depth := 1; depth <= spec.Depth; depth++ {
		if spec.Budget > 0 && time.Since(start) > spec.Budget {
			r.Cap(fmt.Sprintf("%s: time budget reached before depth %d", spec.Name, depth))
			break
		}
		var tasks []json.RawMessage
		var hists [][]json.RawMessage
		for _, h := range frontier {
			for _, op := range spec.Alphabet {
				nh := append(append([]json.RawMessage{}, h...), op)
				t, _ := json.Marshal(SeqTask{Hist: nh, Params: spec.Params})
				tasks = append(tasks, t)
				hists = append(hists, nh)
			}
		}
		lstart := time.Now()
		decoded := make([]*SeqResult, len(tasks))
		stoppedEarly := ""
		results := pool.DoStop(tasks, func(i int, res Result) bool {
			rr, ok := decodeSeq(r, spec, res, hists[i])
			if ok {
				decoded[i] = &rr
			}
			if r.ViolationCount() >= 40 {
				stoppedEarly = "40 distinct violations found"
				return true
			}
			if spec.Budget > 0 && time.Since(start) > spec.Budget+spec.Budget/2 {
				stoppedEarly = "time budget exceeded inside a level"
				return true
			}
			return false
		})
		// a history on which the worker process died: replay it alone; a second death is the implementation (or the
		// harness) terminating the process on this history, not a matter of budget
		died := 0
		for i, res := range results {
			if !strings.Contains(res.Err, "worker died") || died >= 5 {
				continue
			}
			died++
			again := pool.Do([]json.RawMessage{tasks[i]}, nil)
			if strings.Contains(again[0].Err, "worker died") {
				r.AddViolation(Violation{Key: spec.Name + ":process-dies|" + histString(hists[i]), Engine: "SEQ:" + spec.Name,
					What:   "replaying this history terminates the worker process with an unrecoverable error, twice in a row (" + again[0].Err + "): " + histString(hists[i]),
					Replay: map[string]interface{}{"worker": spec.WorkerArgs, "hist": hists[i], "params": spec.Params}})
			} else if rr, ok := decodeSeq(r, spec, again[0], hists[i]); ok {
				decoded[i] = &rr
			}
		}
		var next [][]json.RawMessage
		newStates := 0
		ltrans := 0
		for i := range results {
			if decoded[i] == nil || decoded[i].Skip {
				continue
			}
			rr := *decoded[i]
			ltrans++
			checks += rr.Checks
			if rr.Outcome != "" {
				r.AddDistinct(spec.Name + ":" + rr.Outcome)
			}
			if !seen[rr.Key] {
				seen[rr.Key] = true
				newStates++
				next = append(next, hists[i])
				if newStates%97 == 1 {
					r.AddSample(map[string]interface{}{"search": spec.Name, "history": hists[i]})
				}
			}
		}
		transitions += ltrans
		states += newStates
		if stoppedEarly != "" {
			r.Cap(fmt.Sprintf("%s: depth %d stopped early: %s", spec.Name, depth, stoppedEarly))
			break
		}
		depthDone = depth
		levelStats = append(levelStats, map[string]interface{}{"depth": depth, "executions": len(tasks), "transitions": ltrans,
			"new_states": newStates, "wall_s": time.Since(lstart).Seconds()})
		fmt.Fprintf(os.Stderr, "[%s] depth %d: %d executions, %d transitions, %d new states (%.1fs)\n", spec.Name, depth, len(tasks), ltrans, newStates, time.Since(lstart).Seconds())
		frontier = next
		if spec.MaxFront > 0 && len(frontier) > spec.MaxFront && depth < spec.Depth {
			r.Cap(fmt.Sprintf("%s: frontier %d > cap %d after depth %d; deeper levels not explored", spec.Name, len(frontier), spec.MaxFront, depth))
			break
		}
		if len(frontier) == 0 {
			break
		}
	}
	r.mu.Lock()
	r.States += states
	r.Transitions += transitions
	r.Traces += transitions + 1
	r.Evaluations += checks
	r.mu.Unlock()
	r.AddPart(map[string]interface{}{"engine": "SEQ", "search": spec.Name, "alphabet": len(spec.Alphabet), "depth_completed": depthDone,
		"depth_requested": spec.Depth, "states": states, "transitions": transitions, "oracle_checks": checks, "levels": levelStats,
		"wall_s": time.Since(start).Seconds()})
}

func decodeSeq(r *Run, spec SeqSpec, res Result, hist []json.RawMessage) (SeqResult, bool) {
	var rr SeqResult
	if res.Err == "skipped" {
		return rr, false
	}
	if res.Err != "" {
		r.Cap(fmt.Sprintf("%s: worker problem (%s) on history %s", spec.Name, res.Err, histString(hist)))
		return rr, false
	}
	if err := json.Unmarshal(res.Out, &rr); err != nil {
		r.Cap(fmt.Sprintf("%s: undecodable worker result: %v", spec.Name, err))
		return rr, false
	}
	if rr.HarnessEr != "" {
		r.Cap(fmt.Sprintf("%s: harness error %s on history %s", spec.Name, rr.HarnessEr, histString(hist)))
		return rr, false
	}
	for _, v := range rr.Viol {
		if v.Engine == "" {
			v.Engine = "SEQ:" + spec.Name
		}
		if v.Replay == nil {
			v.Replay = map[string]interface{}{"worker": spec.WorkerArgs, "hist": hist, "params": spec.Params}
		}
		r.AddViolation(v)
	}
	return rr, true
}

func histString(h []json.RawMessage) string {
	b, _ := json.Marshal(h)
	if len(b) > 600 {
		return string(b[:600]) + "..."
	}
	return string(b)
}
