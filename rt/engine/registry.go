package engine

import (
	"fmt"
	"os"
	"sort"
)

var workers = map[string]func(args []string){}
var checks = map[string]func(r *Run){}

// RegisterWorker registers a worker entry point (called in a worker subprocess).
func RegisterWorker(name string, fn func(args []string)) { workers[name] = fn }

// RegisterCheck registers the driver of a property check (called in the master process).
func RegisterCheck(id string, fn func(r *Run)) { checks[id] = fn }

func RunWorker(name string, args []string) {
	fn, ok := workers[name]
	if !ok {
		fmt.Fprintln(os.Stderr, "unknown worker", name)
		os.Exit(2)
	}
	fn(args)
}

func CheckIDs() []string {
	var l []string
	for k := range checks {
		l = append(l, k)
	}
	sort.Strings(l)
	return l
}

// RunCheck runs the check of one property and returns the exit code.
func RunCheck(id, tier string) int {
	fn, ok := checks[id]
	if !ok {
		fmt.Fprintln(os.Stderr, "no check registered for", id)
		return 2
	}
	scratch, err := os.MkdirTemp(scratchBase(), "verif-run-")
	if err == nil {
		os.Setenv("VERIF_SCRATCH", scratch)
		defer os.RemoveAll(scratch)
	}
	_ = os.RemoveAll(VerifRoot() + "/findings/" + id)
	r := NewRun(id, tier)
	fn(r)
	return r.Finish()
}

func scratchBase() string {
	if v := os.Getenv("VERIF_SCRATCH_BASE"); v != "" {
		return v
	}
	if st, err := os.Stat("/dev/shm"); err == nil && st.IsDir() {
		return "/dev/shm"
	}
	return os.TempDir()
}

// Quick reports whether the tier is the quick one.
func (r *Run) Quick() bool { return r.Tier != "thorough" }
