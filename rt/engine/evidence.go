package engine

import (
	"crypto/sha1"
	"encoding/hex"
	"encoding/json"
	"fmt"
	"os"
	"path/filepath"
	"sort"
	"strings"
	"sync"
	"time"
)

// VerifRoot is /verif unless VERIF_ROOT is set (background snapshot runs).
func VerifRoot() string {
	if v := os.Getenv("VERIF_ROOT"); v != "" {
		return v
	}
	return "/verif"
}

// Violation is one property violation found by a check.
type Violation struct {
	Property string      `json:"property"`
	Key      string      `json:"key"`  // class key used for known-finding matching
	What     string      `json:"what"` // human readable
	Engine   string      `json:"engine"`
	Replay   interface{} `json:"replay"` // engine-specific replay payload (history / schedule / config)
	Detail   interface{} `json:"detail,omitempty"`
}

type KnownFinding struct {
	Property string `json:"property"`
	Key      string `json:"key"` // prefix match against Violation.Key
	What     string `json:"what"`
	Status   string `json:"status"` // open | fixed
	Commit   string `json:"commit,omitempty"`
}

type knownFile struct {
	Findings []KnownFinding `json:"findings"`
}

func LoadKnown() []KnownFinding {
	b, err := os.ReadFile(filepath.Join(VerifRoot(), "known_findings.json"))
	if err != nil {
		return nil
	}
	var k knownFile
	if err := json.Unmarshal(b, &k); err != nil {
		fmt.Fprintln(os.Stderr, "known_findings.json unreadable:", err)
		return nil
	}
	return k.Findings
}

// Run collects everything a check run produces.
type Run struct {
	Property string
	Tier     string
	Seed     int64
	Level    string
	start    time.Time

	mu          sync.Mutex
	States      int
	Transitions int
	Evaluations int
	Traces      int
	Distinct    map[string]bool
	Samples     []interface{}
	Rule        string
	Exhaustive  bool
	Caps        []string
	Assumptions []string
	Extra       map[string]interface{}
	Violations  []Violation
	Parts       []map[string]interface{}
	known       []KnownFinding
}

func NewRun(property, tier string) *Run {
	seed := int64(0)
	if v := os.Getenv("VERIF_SEED"); v != "" {
		fmt.Sscanf(v, "%d", &seed)
	}
	return &Run{Property: property, Tier: tier, Seed: seed, Level: "model_checking", start: time.Now(),
		Distinct: map[string]bool{}, Exhaustive: true, Extra: map[string]interface{}{}}
}

func (r *Run) AddSample(s interface{}) {
	r.mu.Lock()
	defer r.mu.Unlock()
	if len(r.Samples) < 6 {
		r.Samples = append(r.Samples, s)
	}
}

func (r *Run) AddDistinct(k string) {
	r.mu.Lock()
	r.Distinct[k] = true
	r.mu.Unlock()
}

func (r *Run) Cap(what string) {
	r.mu.Lock()
	r.Exhaustive = false
	r.Caps = append(r.Caps, what)
	r.mu.Unlock()
}

func (r *Run) AddViolation(v Violation) {
	r.mu.Lock()
	defer r.mu.Unlock()
	v.Property = r.Property
	for _, o := range r.Violations {
		if o.Key == v.Key {
			return
		}
	}
	r.Violations = append(r.Violations, v)
}

// ViolationCount returns the number of violations found so far that are not listed as open known findings
// (used to stop a search early once plenty of unlisted violations are known).
func (r *Run) ViolationCount() int {
	r.mu.Lock()
	defer r.mu.Unlock()
	if r.known == nil {
		r.known = LoadKnown()
		if r.known == nil {
			r.known = []KnownFinding{}
		}
	}
	n := 0
	for _, v := range r.Violations {
		listed := false
		for _, k := range r.known {
			if k.Status == "open" && k.Property == r.Property && strings.HasPrefix(v.Key, k.Key) {
				listed = true
				break
			}
		}
		if !listed {
			n++
		}
	}
	return n
}

// AddPart records a sub-result (engine part) in the evidence.
func (r *Run) AddPart(p map[string]interface{}) {
	r.mu.Lock()
	r.Parts = append(r.Parts, p)
	r.mu.Unlock()
}

// Finish writes the evidence file, prints KNOWN-FINDING / VIOLATION lines and
// returns the process exit code.
func (r *Run) Finish() int {
	known := LoadKnown()
	var unlisted []Violation
	printedKnown := map[string]bool{}
	sort.Slice(r.Violations, func(i, j int) bool { return r.Violations[i].Key < r.Violations[j].Key })
	for _, v := range r.Violations {
		matched := false
		for _, k := range known {
			if k.Status == "open" && k.Property == r.Property && strings.HasPrefix(v.Key, k.Key) {
				matched = true
				if !printedKnown[k.Key] {
					printedKnown[k.Key] = true
					fmt.Printf("KNOWN-FINDING: property=%s %s [%s]\n", r.Property, k.What, k.Key)
				}
				break
			}
		}
		if !matched {
			unlisted = append(unlisted, v)
		}
	}
	if len(unlisted) > 0 {
		clauses := map[string]int{}
		for _, v := range unlisted {
			cl := v.Key
			if i := strings.Index(cl, "|"); i >= 0 {
				cl = cl[:i]
			}
			clauses[cl]++
		}
		var cl []string
		for k, n := range clauses {
			cl = append(cl, fmt.Sprintf("%s x%d", k, n))
		}
		sort.Strings(cl)
		fmt.Printf("violated clauses: %s\n", strings.Join(cl, "; "))
	}
	code := 0
	fdir := filepath.Join(VerifRoot(), "findings", r.Property)
	if len(unlisted) > 0 {
		_ = os.MkdirAll(fdir, 0o755)
		if f, err := os.Create(filepath.Join(fdir, "all.jsonl")); err == nil {
			for _, v := range unlisted {
				b, _ := json.Marshal(v)
				f.Write(append(b, '\n'))
			}
			f.Close()
		}
	}
	perClause := map[string]int{}
	written := 0
	for _, v := range unlisted {
		cl := v.Key
		if i := strings.Index(cl, "|"); i >= 0 {
			cl = cl[:i]
		}
		perClause[cl]++
		if perClause[cl] > 2 || written >= 40 {
			code = 1
			continue
		}
		written++
		_ = os.MkdirAll(fdir, 0o755)
		h := sha1.Sum([]byte(v.Key))
		path := filepath.Join(fdir, hex.EncodeToString(h[:6])+".json")
		b, _ := json.MarshalIndent(v, "", " ")
		_ = os.WriteFile(path, b, 0o644)
		fmt.Printf("VIOLATION property=%s replay=%s\n", r.Property, path)
		fmt.Printf("  key=%s\n  what=%s\n", v.Key, v.What)
		code = 1
	}
	if len(unlisted) > written {
		fmt.Printf("  (+%d more violations not written)\n", len(unlisted)-written)
	}
	cov := map[string]interface{}{
		"states":                        r.States,
		"transitions":                   r.Transitions,
		"traces_validated_against_impl": r.Traces,
		"evaluations":                   r.Evaluations,
		"distinct_nontrivial":           len(r.Distinct),
		"rule":                          r.Rule,
		"samples":                       r.Samples,
		"exhaustive":                    r.Exhaustive,
		"caps_hit":                      r.Caps,
		"parts":                         r.Parts,
		"known_findings_reported":       len(printedKnown),
	}
	for k, v := range r.Extra {
		cov[k] = v
	}
	if r.Samples == nil {
		cov["samples"] = []interface{}{}
	}
	ev := map[string]interface{}{
		"property_id": r.Property,
		"tier":        r.Tier,
		"seed":        r.Seed,
		"level":       r.Level,
		"coverage":    cov,
		"assumptions": r.Assumptions,
		"wall_s":      time.Since(r.start).Seconds(),
		"violations":  len(unlisted),
	}
	if r.Assumptions == nil {
		ev["assumptions"] = []string{}
	}
	b, _ := json.MarshalIndent(ev, "", " ")
	edir := filepath.Join(VerifRoot(), "evidence")
	_ = os.MkdirAll(edir, 0o755)
	if err := os.WriteFile(filepath.Join(edir, r.Property+".json"), b, 0o644); err != nil {
		fmt.Fprintln(os.Stderr, "cannot write evidence:", err)
		return 2
	}
	fmt.Printf("%s tier=%s states=%d transitions=%d evaluations=%d distinct=%d exhaustive=%v violations=%d known=%d wall=%.1fs\n",
		r.Property, r.Tier, r.States, r.Transitions, r.Evaluations, len(r.Distinct), r.Exhaustive, len(unlisted), len(printedKnown), time.Since(r.start).Seconds())
	return code
}
