package vsync

import (
	"bytes"
	"fmt"
	"runtime"
	"runtime/debug"
	"strconv"
	"strings"
	"sync"
	"sync/atomic"
	"time"
)

// op is a pending operation of a thread at a scheduling point.
type op struct {
	kind    string
	obj     interface{}
	label   string
	enabled func() bool
	sleeper bool // low priority: only runs when nothing else can
}

func (o *op) isEnabled() bool {
	if o == nil || o.enabled == nil {
		return true
	}
	return o.enabled()
}

type thread struct {
	id       int
	name     string
	wake     chan struct{}
	pending  *op
	started  bool
	finished bool
	timer    bool
	vc       []int // vector clock
	held     []interface{}
	steps    int
	spawned  bool // started by the code under test
}

// PointRec is one scheduling decision of an execution.
type PointRec struct {
	Enabled []int  // thread ids that were enabled, canonical order (current first)
	Chosen  int    // index into Enabled
	Cur     int    // thread that was running (-1 none)
	CurOK   bool   // the running thread was still enabled (choosing another one is a preemption)
	Label   string // label of the chosen thread's pending op
}

// Race is a pair of conflicting accesses unordered by happens-before.
type Race struct {
	Field  string
	First  string
	Second string
}

type access struct {
	tid   int
	vc    []int
	write bool
	where string
}

// Sched is one controlled run.
type Sched struct {
	MapPoints bool
	// Coarse, if set, limits scheduling points to the operations whose label it accepts (plus operations that
	// actually have to block). For scenarios whose executions have too many fine-grained points to enumerate, when
	// the oracle only depends on the coarse ones (e.g. snapshot reads against commits).
	Coarse      func(label string) bool
	Horizon     int
	ticks       []*thread
	clockOffset atomic.Int64 // virtual clock = real clock + offset (ns); timers advance it
	// TimerDurations records the delay requested by every AfterFunc of this run
	TimerDurations []time.Duration

	mu      sync.Mutex
	threads []*thread
	byGoid  sync.Map // goid -> *thread
	prefix  []int
	Points  []PointRec
	cur     *thread

	Deadlock     bool
	DeadlockInfo string
	HorizonHit   bool
	Diverged     string
	HarnessErr   string
	Panics       []string
	doneCh       chan struct{}
	doneOnce     sync.Once

	// happens-before monitor
	objVC   map[interface{}][]int
	lastAcc map[string][]access
	Races   []Race
	// lock order graph: edges between lock names
	lockName  map[interface{}]string
	LockEdges map[[2]string]bool
	// invariants evaluated at every scheduling point
	Invariant func() string
	InvViol   []string
}

var active atomic.Pointer[Sched]

// Active returns the scheduler of the running controlled execution (nil outside).
func Active() *Sched { return active.Load() }

func goid() int64 {
	var buf [64]byte
	n := runtime.Stack(buf[:], false)
	// "goroutine 123 [running]:..."
	b := buf[:n]
	b = b[len("goroutine "):]
	i := bytes.IndexByte(b, ' ')
	id, _ := strconv.ParseInt(string(b[:i]), 10, 64)
	return id
}

func current() (*Sched, *thread) {
	s := active.Load()
	if s == nil {
		return nil, nil
	}
	if v, ok := s.byGoid.Load(goid()); ok {
		return s, v.(*thread)
	}
	return s, nil
}

// Controlled reports whether the caller is a thread of a controlled run.
func Controlled() bool {
	_, t := current()
	return t != nil
}

func (s *Sched) harnessError(msg string) {
	s.mu.Lock()
	if s.HarnessErr == "" {
		s.HarnessErr = msg
	}
	s.mu.Unlock()
}

// NameLock gives a lock object a readable name for the lock-order graph and labels.
func (s *Sched) NameLock(obj interface{}, name string) {
	s.mu.Lock()
	s.lockName[obj] = name
	s.mu.Unlock()
}

func (s *Sched) nameOf(obj interface{}) string {
	if n, ok := s.lockName[obj]; ok {
		return n
	}
	return fmt.Sprintf("%T@%p", obj, obj)
}

// ---- vector clocks ----

func vcJoin(a, b []int) []int {
	if len(b) > len(a) {
		a = append(a, make([]int, len(b)-len(a))...)
	}
	for i, v := range b {
		if v > a[i] {
			a[i] = v
		}
	}
	return a
}

func vcLeq(a, b []int) bool { // a happens-before-or-equal b
	for i, v := range a {
		if v == 0 {
			continue
		}
		if i >= len(b) || v > b[i] {
			return false
		}
	}
	return true
}

func (s *Sched) tick(t *thread) {
	for len(t.vc) <= t.id {
		t.vc = append(t.vc, 0)
	}
	t.vc[t.id]++
}

func (s *Sched) hbRelease(t *thread, obj interface{}) {
	s.mu.Lock()
	s.objVC[obj] = vcJoin(append([]int{}, s.objVC[obj]...), t.vc)
	s.tick(t)
	s.mu.Unlock()
}

func (s *Sched) hbAcquire(t *thread, obj interface{}) {
	s.mu.Lock()
	t.vc = vcJoin(t.vc, s.objVC[obj])
	s.mu.Unlock()
}

func (s *Sched) acquired(t *thread, lock interface{}) {
	s.hbAcquire(t, lock)
	s.mu.Lock()
	n := s.nameOf(lock)
	for _, h := range t.held {
		s.LockEdges[[2]string{s.nameOf(h), n}] = true
	}
	t.held = append(t.held, lock)
	s.mu.Unlock()
}

func (s *Sched) released(t *thread, lock interface{}) {
	s.hbRelease(t, lock)
	s.mu.Lock()
	for i := len(t.held) - 1; i >= 0; i-- {
		if t.held[i] == lock {
			t.held = append(t.held[:i], t.held[i+1:]...)
			break
		}
	}
	s.mu.Unlock()
}

// Access records a read/write of a named shared field for the happens-before monitor.
func (s *Sched) Access(t *thread, key string, write bool, where string) {
	s.mu.Lock()
	defer s.mu.Unlock()
	cur := access{tid: t.id, vc: append([]int{}, t.vc...), write: write, where: where}
	for _, a := range s.lastAcc[key] {
		if a.tid == t.id {
			continue
		}
		if !(a.write || write) {
			continue
		}
		if !vcLeq(a.vc, t.vc) {
			s.Races = append(s.Races, Race{Field: key, First: fmt.Sprintf("T%d %s write=%v", a.tid, a.where, a.write), Second: fmt.Sprintf("T%d %s write=%v", t.id, where, write)})
		}
	}
	// keep last access per thread (and last write)
	l := s.lastAcc[key]
	kept := l[:0]
	for _, a := range l {
		if a.tid != t.id || (a.write && !write) {
			kept = append(kept, a)
		}
	}
	s.lastAcc[key] = append(kept, cur)
	s.tick(t)
}

// ---- the scheduler proper ----

// NewSched creates a scheduler that replays prefix and then always takes choice 0.
func NewSched(prefix []int, horizon int) *Sched {
	if horizon <= 0 {
		horizon = 2000
	}
	return &Sched{prefix: prefix, Horizon: horizon, doneCh: make(chan struct{}),
		objVC: map[interface{}][]int{}, lastAcc: map[string][]access{}, lockName: map[interface{}]string{}, LockEdges: map[[2]string]bool{}}
}

func (s *Sched) newThread(name string, timer bool, parent *thread) *thread {
	s.mu.Lock()
	t := &thread{id: len(s.threads), name: name, wake: make(chan struct{}, 1), timer: timer}
	if parent != nil {
		t.vc = append([]int{}, parent.vc...)
	}
	s.threads = append(s.threads, t)
	s.mu.Unlock()
	s.tick(t)
	if parent != nil {
		s.tick(parent)
	}
	return t
}

// LiveSpawned: goroutines started by the code under test (not the scenario's own threads, not timers) that have not
// finished yet - running, waiting or not even started.
func (s *Sched) LiveSpawned() int {
	s.mu.Lock()
	defer s.mu.Unlock()
	n := 0
	for _, t := range s.threads {
		if t.spawned && !t.timer && !t.finished {
			n++
		}
	}
	return n
}

func (s *Sched) spawn(parent *thread, fn func(), name string, timer bool) *thread {
	t := s.newThread(name, timer, parent)
	t.spawned = true
	t.pending = &op{kind: "start:" + name}
	s.launch(t, fn)
	return t
}

func (s *Sched) launch(t *thread, fn func()) {
	ready := make(chan struct{})
	go func() {
		s.byGoid.Store(goid(), t)
		close(ready)
		<-t.wake
		if t.finished { // cancelled timer
			return
		}
		t.started = true
		t.pending = nil
		defer func() {
			if r := recover(); r != nil {
				s.mu.Lock()
				s.Panics = append(s.Panics, fmt.Sprintf("T%d(%s): %v\n%s", t.id, t.name, r, debug.Stack()))
				s.mu.Unlock()
			}
			t.finished = true
			s.schedule(t)
		}()
		fn()
	}()
	<-ready
}

func (s *Sched) advanceClockPast(deadline time.Time) {
	if d := deadline.Sub(Now()); d >= 0 {
		s.clockOffset.Add(int64(d) + int64(time.Millisecond))
	}
}

func (s *Sched) addTick(t *thread) {
	s.mu.Lock()
	s.ticks = append(s.ticks, t)
	s.mu.Unlock()
}

// dropTicks removes the deadline threads of cancelled contexts (called when a later deadline is armed).
func (s *Sched) dropTicks() {
	s.mu.Lock()
	ticks := s.ticks
	s.ticks = nil
	s.mu.Unlock()
	for _, t := range ticks {
		s.cancelTimer(t)
	}
}

func (s *Sched) cancelTimer(t *thread) bool {
	s.mu.Lock()
	defer s.mu.Unlock()
	if t == nil || t.started || t.finished {
		return false
	}
	t.finished = true
	t.wake <- struct{}{} // let the parked goroutine exit
	return true
}

func (s *Sched) yield(t *thread, o *op) {
	if o.label == "" {
		o.label = o.kind
		if o.obj != nil {
			s.mu.Lock()
			if n, ok := s.lockName[o.obj]; ok {
				o.label = o.kind + " " + n
			}
			s.mu.Unlock()
		}
	}
	if s.Coarse != nil && !s.Coarse(o.label) && !o.sleeper && (o.enabled == nil || o.enabled()) {
		return // not a scheduling point in a coarse run: the operation can proceed at once
	}
	t.pending = o
	t.steps++
	s.schedule(t)
	t.pending = nil
}

// AccessPoint is a scheduling point followed by an access record of the happens-before monitor.
func (s *Sched) AccessPoint(key string, write bool, where string) {
	if _, t := current(); t != nil {
		lbl := key
		if i := strings.Index(lbl, "@"); i >= 0 {
			lbl = lbl[:i] // object identities differ between executions; labels must not
		}
		s.yield(t, &op{kind: "access", label: "access " + lbl})
		s.Access(t, key, write, where)
	}
}

// Point is a plain scheduling point with a label (verifhook.Point, badger hook).
func (s *Sched) Point(label string) {
	if _, t := current(); t != nil {
		s.yield(t, &op{kind: label, label: label})
	}
}

func (s *Sched) finish() {
	s.doneOnce.Do(func() { close(s.doneCh) })
}

// schedule picks the next thread to run. Called by the running thread from.
func (s *Sched) schedule(from *thread) {
	if s.Invariant != nil {
		if msg := s.Invariant(); msg != "" {
			s.mu.Lock()
			if len(s.InvViol) < 5 {
				s.InvViol = append(s.InvViol, msg)
			}
			s.mu.Unlock()
		}
	}
	s.mu.Lock()
	var enabled []int
	curOK := false
	if from != nil && !from.finished && from.pending.isEnabled() {
		enabled = append(enabled, from.id)
		curOK = true
	}
	allDone := true
	for _, t := range s.threads {
		if t.finished {
			continue
		}
		allDone = false
		if t == from {
			continue
		}
		if t.pending != nil && t.pending.isEnabled() {
			enabled = append(enabled, t.id)
		}
	}
	// sleepers only run when no other thread is enabled
	var awake []int
	for _, id := range enabled {
		if p := s.threads[id].pending; p == nil || !p.sleeper {
			awake = append(awake, id)
		}
	}
	if len(awake) > 0 && len(awake) < len(enabled) {
		enabled = awake
		if curOK && (from.pending != nil && from.pending.sleeper) {
			curOK = false
		}
	}
	if allDone {
		// every thread (timers included: an armed timer eventually fires unless it was stopped) has finished
		s.mu.Unlock()
		s.finish()
		return
	}
	if len(enabled) == 0 {
		s.Deadlock = true
		info := ""
		for _, t := range s.threads {
			if !t.finished {
				lbl := "?"
				if t.pending != nil {
					lbl = t.pending.label
				}
				info += fmt.Sprintf("T%d(%s) blocked at %s; ", t.id, t.name, lbl)
			}
		}
		s.DeadlockInfo = info
		s.mu.Unlock()
		s.finish()
		if from != nil && !from.finished {
			select {} // park forever; the worker process abandons this world
		}
		return
	}
	if len(s.Points) >= s.Horizon {
		s.HorizonHit = true
		s.mu.Unlock()
		s.finish()
		select {}
	}
	idx := 0
	n := len(s.Points)
	if n < len(s.prefix) {
		idx = s.prefix[n]
		if idx >= len(enabled) {
			s.Diverged = fmt.Sprintf("point %d: prefix wants choice %d but only %d threads enabled", n, idx, len(enabled))
			idx = 0
		}
	}
	chosen := s.threads[enabled[idx]]
	lbl := ""
	if chosen.pending != nil {
		lbl = chosen.pending.label
	}
	curID := -1
	if from != nil {
		curID = from.id
	}
	s.Points = append(s.Points, PointRec{Enabled: enabled, Chosen: idx, Cur: curID, CurOK: curOK, Label: fmt.Sprintf("T%d:%s", chosen.id, lbl)})
	s.cur = chosen
	s.mu.Unlock()
	if chosen == from {
		return
	}
	chosen.wake <- struct{}{}
	if from != nil && !from.finished {
		<-from.wake
	}
}

// Run executes the thread bodies under the scheduler and waits for the end of
// the execution (all finished, deadlock, or horizon). watchdog bounds the real
// time (an execution stuck in an un-modelled blocking call).
func (s *Sched) Run(bodies []func(), names []string, watchdog time.Duration) (timedOut bool) {
	if !active.CompareAndSwap(nil, s) {
		panic("vsync: a controlled run is already active")
	}
	defer active.Store(nil)
	for i, b := range bodies {
		name := fmt.Sprintf("t%d", i)
		if i < len(names) {
			name = names[i]
		}
		t := s.newThread(name, false, nil)
		t.pending = &op{kind: "start:" + name}
		s.launch(t, b)
	}
	s.schedule(nil)
	if watchdog == 0 {
		watchdog = 30 * time.Second
	}
	select {
	case <-s.doneCh:
		return false
	case <-time.After(watchdog):
		return true
	}
}

// Preemptions counts the preemptions of the recorded execution.
func Preemptions(points []PointRec, upto int) int {
	n := 0
	for i := 0; i < upto && i < len(points); i++ {
		if points[i].CurOK && points[i].Chosen != 0 {
			n++
		}
	}
	return n
}
