package vsync

import (
	"fmt"
	"sort"
	"strings"
	"time"
)

// Execution is the result of one controlled execution.
type Execution struct {
	Choices    []int
	Points     []PointRec
	Deadlock   string
	HorizonHit bool
	TimedOut   bool
	Diverged   string
	HarnessErr string
	Panics     []string
	Races      []Race
	InvViol    []string
	LockEdges  [][2]string
	Outcome    string   // digest of the final observation (set by the scenario)
	Viol       []string // oracle violations found by the scenario's check
}

// Fatal reports whether the world used by this execution must be abandoned.
func (x *Execution) Fatal() bool {
	return x.Deadlock != "" || x.HorizonHit || x.TimedOut
}

func (x *Execution) Labels() []string {
	var l []string
	for _, p := range x.Points {
		l = append(l, p.Label)
	}
	return l
}

// RunFn runs one execution with the given choice prefix.
type RunFn func(prefix []int) *Execution

// Collect builds an Execution from a finished scheduler.
func Collect(s *Sched, timedOut bool) *Execution {
	x := &Execution{Points: s.Points, HorizonHit: s.HorizonHit, TimedOut: timedOut, Diverged: s.Diverged, HarnessErr: s.HarnessErr,
		Panics: s.Panics, Races: s.Races, InvViol: s.InvViol}
	if s.Deadlock {
		x.Deadlock = s.DeadlockInfo
	}
	for _, p := range s.Points {
		x.Choices = append(x.Choices, p.Chosen)
	}
	for e := range s.LockEdges {
		x.LockEdges = append(x.LockEdges, e)
	}
	return x
}

// Stats aggregates an exploration.
type Stats struct {
	Executions  int
	Points      int
	MaxPoints   int
	Outcomes    map[string]int
	Deadlocks   int
	Divergences int
	Redraws     int
	Capped      string
	LockEdges   map[string]bool // "held -> acquired"
	Races       map[string]Race
	Findings    []Finding
}

// Finding is a violation found in one execution, with its schedule.
type Finding struct {
	Kind    string   `json:"kind"` // deadlock | panic | oracle | race | invariant | hang
	What    string   `json:"what"`
	Choices []int    `json:"choices"`
	Labels  []string `json:"labels,omitempty"`
}

func NewStats() *Stats {
	return &Stats{Outcomes: map[string]int{}, LockEdges: map[string]bool{}, Races: map[string]Race{}}
}

func (st *Stats) Merge(o *Stats) {
	st.Executions += o.Executions
	st.Points += o.Points
	if o.MaxPoints > st.MaxPoints {
		st.MaxPoints = o.MaxPoints
	}
	for k, v := range o.Outcomes {
		st.Outcomes[k] += v
	}
	st.Deadlocks += o.Deadlocks
	st.Divergences += o.Divergences
	st.Redraws += o.Redraws
	if o.Capped != "" {
		st.Capped = o.Capped
	}
	for e := range o.LockEdges {
		st.LockEdges[e] = true
	}
	for k, r := range o.Races {
		st.Races[k] = r
	}
	st.Findings = append(st.Findings, o.Findings...)
}

// Record adds one execution to the statistics.
func (st *Stats) Record(x *Execution) {
	st.Executions++
	st.Points += len(x.Points)
	if len(x.Points) > st.MaxPoints {
		st.MaxPoints = len(x.Points)
	}
	if x.Outcome != "" {
		st.Outcomes[x.Outcome]++
	}
	for _, e := range x.LockEdges {
		st.LockEdges[e[0]+" -> "+e[1]] = true
	}
	add := func(kind, what string) {
		if len(st.Findings) < 20 {
			st.Findings = append(st.Findings, Finding{Kind: kind, What: what, Choices: x.Choices, Labels: x.Labels()})
		}
	}
	if x.Deadlock != "" {
		st.Deadlocks++
		add("deadlock", "deadlock: no enabled thread: "+x.Deadlock)
	}
	if x.HorizonHit {
		add("hang", "execution exceeded the horizon of scheduling points (livelock or unbounded loop)")
	}
	if x.TimedOut {
		add("stuck", "the execution did not finish in real time (watchdog): a thread is blocked in an operation outside the scheduler's control (a channel operation or select, I/O) and nothing that is under control can make progress")
	}
	for _, p := range x.Panics {
		add("panic", "panic: "+firstLines(p, 12))
	}
	for _, r := range x.Races {
		k := r.Field
		if i := strings.Index(k, "@"); i >= 0 {
			k = k[:i]
		}
		if _, ok := st.Races[k]; !ok {
			st.Races[k] = r
			add("race", fmt.Sprintf("unsynchronised conflicting accesses to %s: %s / %s", k, r.First, r.Second))
		}
	}
	for _, v := range x.InvViol {
		add("invariant", v)
	}
	for _, v := range x.Viol {
		add("oracle", v)
	}
}

func firstLines(s string, n int) string {
	l := strings.Split(s, "\n")
	if len(l) > n {
		l = l[:n]
	}
	return strings.Join(l, "\n")
}

// Explorer is the preemption-bounded DFS of the guidance.
type Explorer struct {
	Run      RunFn
	Bound    int // max preemptions (<0: unbounded)
	MaxExec  int // cap on executions (0 = none)
	Deadline time.Time
	Stats    *Stats
	// StopOnFatal: a deadlock/hang poisons the world; stop exploring this subtree
	// after recording it (the caller restarts the worker).
	FatalSeen bool
}

// runStable runs prefix; if the replayed part diverges from the labels recorded
// for that prefix (environment nondeterminism such as Go map iteration order),
// it is re-drawn up to 1500 times.
func (e *Explorer) runStable(prefix []int, want []string) *Execution {
	for try := 0; ; try++ {
		x := e.Run(prefix)
		if x.Fatal() {
			return x
		}
		ok := x.Diverged == ""
		if ok && want != nil {
			l := x.Labels()
			for i := 0; i < len(prefix) && i < len(want) && i < len(l); i++ {
				if l[i] != want[i] {
					ok = false
					break
				}
			}
		}
		if ok {
			return x
		}
		e.Stats.Redraws++
		if try >= 1500 {
			e.Stats.Divergences++
			x.Diverged = "replay of a recorded prefix diverged 1500 times: " + x.Diverged
			return x
		}
	}
}

// Explore explores the subtree below prefix (prefix itself included).
func (e *Explorer) Explore(prefix []int, want []string) {
	if e.FatalSeen {
		return
	}
	if e.MaxExec > 0 && e.Stats.Executions >= e.MaxExec {
		e.Stats.Capped = fmt.Sprintf("execution cap %d reached", e.MaxExec)
		return
	}
	if !e.Deadline.IsZero() && time.Now().After(e.Deadline) {
		e.Stats.Capped = "time budget reached"
		return
	}
	x := e.runStable(prefix, want)
	if x.Diverged != "" && !x.Fatal() {
		e.Stats.Capped = "nondeterministic replay: " + x.Diverged
		return
	}
	e.Stats.Record(x)
	if x.Fatal() {
		e.FatalSeen = true
		return
	}
	labels := x.Labels()
	for i := len(prefix); i < len(x.Points); i++ {
		p := x.Points[i]
		cost := Preemptions(x.Points, i)
		if p.CurOK {
			cost++
		}
		if e.Bound >= 0 && cost > e.Bound {
			continue
		}
		for alt := 1; alt < len(p.Enabled); alt++ {
			np := append(append([]int{}, x.Choices[:i]...), alt)
			e.Explore(np, labels[:i])
			if e.FatalSeen {
				return
			}
		}
	}
}

// RootTasks runs the root execution and returns it together with the first-level alternative prefixes.
func (e *Explorer) RootTasks() (*Execution, [][]int) {
	x := e.runStable(nil, nil)
	e.Stats.Record(x)
	var out [][]int
	if x.Fatal() {
		return x, nil
	}
	for i := 0; i < len(x.Points); i++ {
		p := x.Points[i]
		cost := Preemptions(x.Points, i)
		if p.CurOK {
			cost++
		}
		if e.Bound >= 0 && cost > e.Bound {
			continue
		}
		for alt := 1; alt < len(p.Enabled); alt++ {
			out = append(out, append(append([]int{}, x.Choices[:i]...), alt))
		}
	}
	return x, out
}

// CyclesIn finds cycles in the lock-order graph (edges held -> acquiring).
func CyclesIn(edges map[string]bool) [][]string {
	adj := map[string][]string{}
	for es := range edges {
		e := strings.SplitN(es, " -> ", 2)
		if len(e) != 2 || e[0] == e[1] {
			continue
		}
		adj[e[0]] = append(adj[e[0]], e[1])
	}
	for k := range adj {
		sort.Strings(adj[k])
	}
	var cycles [][]string
	seen := map[string]bool{}
	var nodes []string
	for k := range adj {
		nodes = append(nodes, k)
	}
	sort.Strings(nodes)
	for _, start := range nodes {
		// DFS for a path back to start using only nodes >= start (each cycle reported once)
		var path []string
		var dfs func(n string, visited map[string]bool) bool
		dfs = func(n string, visited map[string]bool) bool {
			path = append(path, n)
			visited[n] = true
			for _, m := range adj[n] {
				if m == start {
					key := strings.Join(path, ">")
					if !seen[key] {
						seen[key] = true
						cycles = append(cycles, append([]string{}, path...))
					}
					continue
				}
				if m < start || visited[m] {
					continue
				}
				dfs(m, visited)
			}
			path = path[:len(path)-1]
			return false
		}
		dfs(start, map[string]bool{})
	}
	return cycles
}
