// Package vsync is a drop-in replacement for the parts of package sync (and a
// few time/context functions) that datahub uses. Outside a controlled run every
// operation delegates to the real primitive. Inside a controlled run (a Sched
// is active and the calling goroutine is one of its threads) every operation is
// a scheduling point of the cooperative scheduler in sched.go.
//
// Mutual exclusion is still provided by the real mutex embedded in each shim
// type: the scheduler only decides WHEN a thread may try to take it.
package vsync

import (
	"context"
	"reflect"
	"sync"
	"time"
)

type Locker = sync.Locker
type Once = sync.Once
type Pool = sync.Pool
type Cond = sync.Cond

func NewCond(l Locker) *Cond { return sync.NewCond(l) }

// ---------------------------------------------------------------- Mutex

type Mutex struct {
	mu   sync.Mutex
	held bool // shadow state, only meaningful inside a controlled run
}

func (m *Mutex) Lock() {
	if s, t := current(); t != nil {
		s.yield(t, &op{kind: "Lock", obj: m, enabled: func() bool { return !m.held }})
		if !m.mu.TryLock() {
			s.harnessError("mutex shadow state says free but real mutex is held (uncontrolled goroutine holds it)")
			m.mu.Lock()
		}
		m.held = true
		s.acquired(t, m)
		return
	}
	m.mu.Lock()
}

func (m *Mutex) TryLock() bool {
	if s, t := current(); t != nil {
		s.yield(t, &op{kind: "TryLock", obj: m})
		if m.held {
			return false
		}
		if !m.mu.TryLock() {
			return false
		}
		m.held = true
		s.acquired(t, m)
		return true
	}
	return m.mu.TryLock()
}

func (m *Mutex) Unlock() {
	if s, t := current(); t != nil {
		s.released(t, m)
		m.held = false
		m.mu.Unlock()
		return
	}
	m.mu.Unlock()
}

// ---------------------------------------------------------------- RWMutex

type RWMutex struct {
	mu      sync.RWMutex
	writer  bool
	readers int
}

func (m *RWMutex) Lock() {
	if s, t := current(); t != nil {
		s.yield(t, &op{kind: "Lock", obj: m, enabled: func() bool { return !m.writer && m.readers == 0 }})
		m.mu.Lock()
		m.writer = true
		s.acquired(t, m)
		return
	}
	m.mu.Lock()
}

func (m *RWMutex) Unlock() {
	if s, t := current(); t != nil {
		s.released(t, m)
		m.writer = false
		m.mu.Unlock()
		return
	}
	m.mu.Unlock()
}

func (m *RWMutex) RLock() {
	if s, t := current(); t != nil {
		s.yield(t, &op{kind: "RLock", obj: m, enabled: func() bool { return !m.writer }})
		m.mu.RLock()
		m.readers++
		s.acquired(t, m)
		return
	}
	m.mu.RLock()
}

func (m *RWMutex) RUnlock() {
	if s, t := current(); t != nil {
		s.released(t, m)
		m.readers--
		m.mu.RUnlock()
		return
	}
	m.mu.RUnlock()
}

func (m *RWMutex) RLocker() Locker { return (*rlocker)(m) }

type rlocker RWMutex

func (r *rlocker) Lock()   { (*RWMutex)(r).RLock() }
func (r *rlocker) Unlock() { (*RWMutex)(r).RUnlock() }

// ---------------------------------------------------------------- WaitGroup

type WaitGroup struct {
	wg sync.WaitGroup
	n  int // shadow counter
	mu sync.Mutex
}

func (w *WaitGroup) Add(delta int) {
	w.mu.Lock()
	w.n += delta
	w.mu.Unlock()
	if s, t := current(); t != nil && delta < 0 {
		s.hbRelease(t, w)
	}
	w.wg.Add(delta)
}

func (w *WaitGroup) Done() { w.Add(-1) }

func (w *WaitGroup) Wait() {
	if s, t := current(); t != nil {
		s.yield(t, &op{kind: "Wait", obj: w, enabled: func() bool {
			w.mu.Lock()
			defer w.mu.Unlock()
			return w.n <= 0
		}})
		s.hbAcquire(t, w)
		w.wg.Wait()
		return
	}
	w.wg.Wait()
}

// ---------------------------------------------------------------- Map

type Map struct {
	m sync.Map
}

func (m *Map) point(kind string) {
	if s, t := current(); t != nil && s.MapPoints {
		s.yield(t, &op{kind: kind, obj: m})
	}
}

func (m *Map) Load(key any) (value any, ok bool) { m.point("Map.Load"); return m.m.Load(key) }
func (m *Map) Store(key, value any)              { m.point("Map.Store"); m.m.Store(key, value) }
func (m *Map) Delete(key any)                    { m.point("Map.Delete"); m.m.Delete(key) }
func (m *Map) Range(f func(key, value any) bool) {
	m.point("Map.Range")
	m.m.Range(f)
}
func (m *Map) LoadOrStore(key, value any) (actual any, loaded bool) {
	m.point("Map.LoadOrStore")
	return m.m.LoadOrStore(key, value)
}
func (m *Map) LoadAndDelete(key any) (value any, loaded bool) {
	m.point("Map.LoadAndDelete")
	return m.m.LoadAndDelete(key)
}
func (m *Map) Swap(key, value any) (previous any, loaded bool) {
	m.point("Map.Swap")
	return m.m.Swap(key, value)
}
func (m *Map) CompareAndSwap(key, old, new any) bool {
	m.point("Map.CompareAndSwap")
	return m.m.CompareAndSwap(key, old, new)
}
func (m *Map) CompareAndDelete(key, old any) bool {
	m.point("Map.CompareAndDelete")
	return m.m.CompareAndDelete(key, old)
}

// ---------------------------------------------------------------- goroutines, channels

// Go replaces a go statement.
func Go(fn func()) {
	if s, t := current(); t != nil {
		s.spawn(t, fn, "go", false)
		return
	}
	go fn()
}

// Recv replaces a unary channel receive `<-ch`.
func Recv[T any](ch <-chan T) T {
	if s, t := current(); t != nil {
		var val T
		got := false
		s.yield(t, &op{kind: "Recv", obj: ch, enabled: func() bool {
			if got {
				return true
			}
			select {
			case v := <-ch:
				val = v
				got = true
				return true
			default:
				return false
			}
		}})
		s.hbAcquire(t, chanKey(ch))
		return val
	}
	return <-ch
}

func chanKey[T any](ch <-chan T) interface{} { return ch }

// ---------------------------------------------------------------- timers, contexts

// Sleep replaces time.Sleep in retry/poll loops: inside a controlled run a sleeping thread is only
// scheduled when no other thread can run (waiting is made visible instead of spinning).
func Sleep(d time.Duration) {
	if s, t := current(); t != nil {
		s.yield(t, &op{kind: "Sleep", sleeper: true})
		return
	}
	time.Sleep(d)
}

// Timer mirrors the part of *time.Timer that callers of AfterFunc use.
type Timer struct {
	real *time.Timer
	th   *thread
	s    *Sched
}

func (t *Timer) Stop() bool {
	if t.real != nil {
		return t.real.Stop()
	}
	return t.s.cancelTimer(t.th)
}

// AfterFunc replaces time.AfterFunc: inside a controlled run the function runs
// as a new thread whose start is the "timer fires" event chosen by the explorer.
func AfterFunc(d time.Duration, f func()) *Timer {
	if s, t := current(); t != nil {
		th := s.spawn(t, f, "timer", true)
		s.mu.Lock()
		s.TimerDurations = append(s.TimerDurations, d)
		s.mu.Unlock()
		return &Timer{th: th, s: s}
	}
	return &Timer{real: time.AfterFunc(d, f)}
}

type timerCtx struct {
	context.Context
	mu       sync.Mutex
	done     chan struct{}
	err      error
	deadline time.Time
	s        *Sched
	th       *thread
}

func (c *timerCtx) Deadline() (time.Time, bool) { return c.deadline, true }
func (c *timerCtx) Done() <-chan struct{}       { return c.done }
func (c *timerCtx) Err() error {
	c.mu.Lock()
	defer c.mu.Unlock()
	return c.err
}

func (c *timerCtx) finish(err error) {
	c.mu.Lock()
	defer c.mu.Unlock()
	if c.err == nil {
		c.err = err
		close(c.done)
	}
}

// WithTimeout replaces context.WithTimeout: inside a controlled run the timeout
// fires only when the explorer schedules the "deadline" timer thread.
func WithTimeout(parent context.Context, d time.Duration) (context.Context, context.CancelFunc) {
	if s, t := current(); t != nil {
		c := &timerCtx{Context: parent, done: make(chan struct{}), deadline: Now().Add(d), s: s}
		// the "deadline" thread is the passage of time: when the explorer lets it run, the (virtual) clock
		// moves past the deadline and, unless the context was cancelled before, the timeout is delivered.
		// A cancel does NOT remove it: time can also pass after a cancel (code that compares the clock with
		// the deadline after being woken by a cancel must cope with that).
		// a newer deadline lies later than every cancelled one: its thread also stands for their passage of time
		s.dropTicks()
		c.th = s.spawn(t, func() {
			s.advanceClockPast(c.deadline)
			if s2, t2 := current(); t2 != nil {
				s2.hbRelease(t2, chanKey[struct{}](c.done))
			}
			c.finish(context.DeadlineExceeded)
		}, "deadline", true)
		return c, func() {
			if s2, t2 := current(); t2 != nil {
				s2.hbRelease(t2, chanKey[struct{}](c.done))
			}
			c.finish(context.Canceled)
			s.addTick(c.th) // from now on the thread only stands for "time passes"
		}
	}
	return context.WithTimeout(parent, d)
}

// Now replaces time.Now in instrumented packages: real time plus the virtual offset of the active controlled run.
func Now() time.Time {
	if s := active.Load(); s != nil {
		return time.Now().Add(time.Duration(s.clockOffset.Load()))
	}
	return time.Now()
}

// ---------------------------------------------------------------- select

// SelCase is one communication clause of a select statement that blocks (no default clause): vgen replaces such a
// statement by a call of Select and a switch over the clause it chose.
type SelCase struct {
	c reflect.SelectCase
}

// RecvCase / SendCase take the channel (and the value to send) as they stand in the clause, whatever their types.
func RecvCase(ch interface{}) SelCase {
	return SelCase{reflect.SelectCase{Dir: reflect.SelectRecv, Chan: reflect.ValueOf(ch)}}
}

func SendCase(ch interface{}, v interface{}) SelCase {
	c := reflect.ValueOf(ch)
	var sv reflect.Value
	if c.IsValid() && c.Kind() == reflect.Chan {
		et := c.Type().Elem()
		if v == nil {
			sv = reflect.Zero(et)
		} else {
			sv = reflect.ValueOf(v)
			if sv.Type() != et && sv.Type().ConvertibleTo(et) {
				sv = sv.Convert(et)
			}
		}
	}
	return SelCase{reflect.SelectCase{Dir: reflect.SelectSend, Chan: c, Send: sv}}
}

// Select performs the select: it returns the index of the clause that communicated, and for a receive the value and
// whether the channel was open. Inside a controlled run the thread is enabled as soon as one clause can communicate
// (a nil channel never can); the communication happens at that moment.
func Select(cases ...SelCase) (int, reflect.Value, bool) {
	rc := make([]reflect.SelectCase, 0, len(cases)+1)
	for _, c := range cases {
		rc = append(rc, c.c)
	}
	if s, t := current(); t != nil {
		withDefault := append(rc, reflect.SelectCase{Dir: reflect.SelectDefault})
		chosen, val, ok, got := -1, reflect.Value{}, false, false
		s.yield(t, &op{kind: "Select", enabled: func() bool {
			if got {
				return true
			}
			i, v, o := reflect.Select(withDefault)
			if i == len(rc) {
				return false
			}
			chosen, val, ok, got = i, v, o, true
			return true
		}})
		if rc[chosen].Dir == reflect.SelectRecv {
			s.hbAcquire(t, rc[chosen].Chan.Interface())
		}
		return chosen, val, ok
	}
	return reflect.Select(rc)
}

// SelVal converts the value a receive clause of Select got to the channel's element type.
func SelVal[T any](_ <-chan T, v reflect.Value) T {
	var zero T
	if !v.IsValid() {
		return zero
	}
	if x, ok := v.Interface().(T); ok {
		return x
	}
	return zero
}
