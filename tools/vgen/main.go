// vgen writes the go build overlay that injects the verification harness into
// the datahub module, and (re)generates instrumented copies of selected
// datahub sources from the CURRENT working tree of the repository:
//
//   - harness/<key>/*.go       -> <repo>/<pkgdir>/zz_verif_<file>   (same package, sees unexported names)
//   - rt/<pkg>/*.go            -> <repo>/internal/verifrt/<pkg>/<file> (virtual packages)
//   - sync -> vsync rewrites   -> build/gen/<pkgdir>/<file>          (see rewrite.go)
//   - badger txn.go with hook  -> build/gen/badger/txn.go
//
// Nothing under <repo> is written.
package main

import (
	"encoding/json"
	"flag"
	"fmt"
	"os"
	"path/filepath"
	"sort"
	"strings"
)

var harnessTargets = map[string]string{
	"server":   "internal/server",
	"jobs":     "internal/jobs",
	"source":   "internal/jobs/source",
	"dataset":  "internal/service/dataset",
	"security": "internal/security",
	"web":      "internal/web",
	"main":     "internal/verifmain",
	"app":      ".", // the root package (app.go: the wiring of a hub instance)
}

func main() {
	repo := flag.String("repo", "/repo", "repository root")
	verif := flag.String("verif", "/verif", "verif root")
	out := flag.String("out", "/verif/build", "output dir")
	flag.Parse()
	replace := map[string]string{}
	must(os.MkdirAll(*out, 0o755))

	// harness files
	for key, dir := range harnessTargets {
		files, _ := filepath.Glob(filepath.Join(*verif, "harness", key, "*.go"))
		for _, f := range files {
			replace[filepath.Join(*repo, dir, "zz_verif_"+filepath.Base(f))] = f
		}
	}
	// rt packages
	must(filepath.Walk(filepath.Join(*verif, "rt"), func(p string, info os.FileInfo, err error) error {
		if err != nil {
			return err
		}
		if info.IsDir() || !strings.HasSuffix(p, ".go") {
			return nil
		}
		rel, _ := filepath.Rel(filepath.Join(*verif, "rt"), p)
		replace[filepath.Join(*repo, "internal/verifrt", rel)] = p
		return nil
	}))
	// rewrites
	notes, err := rewriteAll(*repo, *out, replace)
	if err != nil {
		fmt.Fprintln(os.Stderr, "vgen: rewrite failed:", err)
		os.Exit(2)
	}
	ov := map[string]interface{}{"Replace": replace}
	b, _ := json.MarshalIndent(ov, "", " ")
	must(os.WriteFile(filepath.Join(*out, "overlay.json"), b, 0o644))
	sort.Strings(notes)
	must(os.WriteFile(filepath.Join(*out, "vgen-notes.txt"), []byte(strings.Join(notes, "\n")+"\n"), 0o644))
	fmt.Printf("vgen: %d overlay entries, %d rewrite notes\n", len(replace), len(notes))
}

func must(err error) {
	if err != nil {
		fmt.Fprintln(os.Stderr, "vgen:", err)
		os.Exit(2)
	}
}
