module verif/tools/vgen

go 1.23
