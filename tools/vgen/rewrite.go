package main

func rewriteAll(repo, out string, replace map[string]string) ([]string, error) {
	return nil, nil
}
