package main

import (
	"bytes"
	"fmt"
	"go/ast"
	"go/format"
	"go/parser"
	"go/printer"
	"go/token"
	"os"
	"os/exec"
	"path/filepath"
	"reflect"
	"strconv"
	"strings"
)

const vsyncPath = "github.com/mimiro-io/datahub/internal/verifrt/vsync"

// packages whose sources are instrumented for the controlled scheduler
var schedPackages = []string{
	"internal/server",
	"internal/jobs",
	"internal/service/dataset",
}

func rewriteAll(repo, out string, replace map[string]string) ([]string, error) {
	var notes []string
	// 1. badger commit hook
	n, err := hookBadger(repo, out, replace)
	if err != nil {
		return nil, err
	}
	notes = append(notes, n...)
	// 2. sync -> vsync, go statements, channel receives, timers
	if os.Getenv("VGEN_NO_SCHED") == "" {
		for _, pkg := range schedPackages {
			files, _ := filepath.Glob(filepath.Join(repo, pkg, "*.go"))
			for _, f := range files {
				if strings.HasSuffix(f, "_test.go") {
					continue
				}
				changed, src, ns, err := rewriteFile(f)
				if err != nil {
					return nil, fmt.Errorf("%s: %v", f, err)
				}
				for _, x := range ns {
					notes = append(notes, filepath.Join(pkg, filepath.Base(f))+": "+x)
				}
				if !changed {
					continue
				}
				dst := filepath.Join(out, "gen", pkg, filepath.Base(f))
				if err := os.MkdirAll(filepath.Dir(dst), 0o755); err != nil {
					return nil, err
				}
				if old, err := os.ReadFile(dst); err != nil || !bytes.Equal(old, src) {
					if err := os.WriteFile(dst, src, 0o644); err != nil {
						return nil, err
					}
				}
				replace[f] = dst
			}
		}
	}
	return notes, nil
}

func hookBadger(repo, out string, replace map[string]string) ([]string, error) {
	cmd := exec.Command("go", "list", "-m", "-f", "{{.Dir}} {{.Version}}", "github.com/dgraph-io/badger/v4")
	cmd.Dir = repo
	cmd.Env = append(os.Environ(), "GOFLAGS=-mod=mod", "GOPROXY=off", "GOSUMDB=off")
	b, err := cmd.Output()
	if err != nil {
		return nil, fmt.Errorf("go list badger: %v", err)
	}
	parts := strings.Fields(string(b))
	if len(parts) != 2 {
		return nil, fmt.Errorf("unexpected go list output %q", b)
	}
	dir, ver := parts[0], parts[1]
	src, err := os.ReadFile(filepath.Join(dir, "txn.go"))
	if err != nil {
		return nil, err
	}
	s := string(src)
	sub := func(old, new string) error {
		if strings.Count(s, old) != 1 {
			return fmt.Errorf("badger %s txn.go: pattern %q found %d times (the hook generator must be adapted to this badger version)", ver, old, strings.Count(s, old))
		}
		s = strings.Replace(s, old, new, 1)
		return nil
	}
	// before a real commit
	if err := sub("\tdefer txn.Discard()\n\n\ttxnCb, err := txn.commitAndSend()\n\tif err != nil {\n\t\treturn err\n\t}\n",
		"\tdefer txn.Discard()\n\n\tif VerifCommitFault != nil {\n\t\tif ferr := VerifCommitFault(); ferr != nil {\n\t\t\treturn ferr\n\t\t}\n\t}\n\tif VerifHook != nil {\n\t\tVerifHook(VerifBeforeCommit)\n\t}\n\ttxnCb, err := txn.commitAndSend()\n\tif err != nil {\n\t\treturn err\n\t}\n"); err != nil {
		return nil, err
	}
	// after the commit returned
	if err := sub("\t// Nothing gets updated to LSM, until a restart happens.\n\treturn txnCb()\n",
		"\t// Nothing gets updated to LSM, until a restart happens.\n\tverifErr := txnCb()\n\tif VerifHook != nil {\n\t\tVerifHook(VerifAfterCommit)\n\t}\n\treturn verifErr\n"); err != nil {
		return nil, err
	}
	// asynchronous commit: the crash engine may decide that it has not reached the log when the process dies
	if err := sub("\tdefer txn.Discard()\n\n\tcommitCb, err := txn.commitAndSend()\n",
		"\tdefer txn.Discard()\n\n\tif VerifAsyncHold != nil && VerifAsyncHold() {\n\t\treturn\n\t}\n\tcommitCb, err := txn.commitAndSend()\n"); err != nil {
		return nil, err
	}
	// snapshot (read timestamp) taken
	if err := sub("func (db *DB) NewTransaction(update bool) *Txn {\n\treturn db.newTransaction(update, false)\n}",
		"func (db *DB) NewTransaction(update bool) *Txn {\n\tif VerifHook != nil {\n\t\tVerifHook(VerifSnapshot)\n\t}\n\treturn db.newTransaction(update, false)\n}"); err != nil {
		return nil, err
	}
	s += `
// ---- added by the verification overlay (vgen); not part of badger ----

const (
	VerifSnapshot     = 0
	VerifBeforeCommit = 1
	VerifAfterCommit  = 2
	VerifBackupStart  = 3
	VerifBackupDone   = 4
	VerifMaxVersion   = 5
)

// VerifHook is called before a transaction takes its read timestamp, before a
// non-empty transaction commits and after the commit returned.
var VerifHook func(ev int)

// VerifAsyncHold is asked by CommitWith (asynchronous commit) whether this commit is to be treated as not
// having reached the write-ahead log before the process dies; if it answers true nothing is sent.
var VerifAsyncHold func() bool

// VerifCommitFault is asked before a non-empty transaction commits; a non-nil answer is returned to the caller
// instead of committing (an injected storage write error).
var VerifCommitFault func() error
`
	dst := filepath.Join(out, "gen", "badger", "txn.go")
	if err := os.MkdirAll(filepath.Dir(dst), 0o755); err != nil {
		return nil, err
	}
	if old, err := os.ReadFile(dst); err != nil || string(old) != s {
		if err := os.WriteFile(dst, []byte(s), 0o644); err != nil {
			return nil, err
		}
	}
	replace[filepath.Join(dir, "txn.go")] = dst
	// DB.Backup and DB.MaxVersion become scheduling points (a backup run reads the store next to concurrent writers)
	for _, f := range []struct{ file, old, new string }{
		{"backup.go", "func (db *DB) Backup(w io.Writer, since uint64) (uint64, error) {",
			"func (db *DB) Backup(w io.Writer, since uint64) (uint64, error) {\n\tif VerifHook != nil {\n\t\tVerifHook(VerifBackupStart)\n\t\tdefer VerifHook(VerifBackupDone)\n\t}\n\treturn db.verifBackup(w, since)\n}\n\nfunc (db *DB) verifBackup(w io.Writer, since uint64) (uint64, error) {"},
		{"db.go", "func (db *DB) MaxVersion() uint64 {",
			"func (db *DB) MaxVersion() uint64 {\n\tif VerifHook != nil {\n\t\tVerifHook(VerifMaxVersion)\n\t}\n\treturn db.verifMaxVersion()\n}\n\nfunc (db *DB) verifMaxVersion() uint64 {"},
	} {
		b, err := os.ReadFile(filepath.Join(dir, f.file))
		if err != nil {
			return nil, err
		}
		t := string(b)
		if strings.Count(t, f.old) != 1 {
			return nil, fmt.Errorf("badger %s %s: pattern %q found %d times", ver, f.file, f.old, strings.Count(t, f.old))
		}
		t = strings.Replace(t, f.old, f.new, 1)
		d2 := filepath.Join(out, "gen", "badger", f.file)
		if old, err := os.ReadFile(d2); err != nil || string(old) != t {
			if err := os.WriteFile(d2, []byte(t), 0o644); err != nil {
				return nil, err
			}
		}
		replace[filepath.Join(dir, f.file)] = d2
	}
	return []string{"badger " + ver + ": txn.go hooked (snapshot, before-commit, after-commit, async-commit hold); backup.go, db.go hooked (Backup, MaxVersion)"}, nil
}

// rewriteFile instruments one source file. Rewrites:
//   - import "sync"            -> import sync "<vsync>"
//   - go f(args)               -> { fn, a0.. := f, args..; vsync.Go(func(){ fn(a0..) }) }
//   - <-ch  (expression/stmt)  -> vsync.Recv(ch)
//   - context.WithTimeout      -> vsync.WithTimeout
//   - time.AfterFunc           -> vsync.AfterFunc
func rewriteFile(path string) (bool, []byte, []string, error) {
	fset := token.NewFileSet()
	f, err := parser.ParseFile(fset, path, nil, parser.ParseComments)
	if err != nil {
		return false, nil, nil, err
	}
	var notes []string
	changed := false
	needVsync := false
	// imports
	for _, imp := range f.Imports {
		p, _ := strconv.Unquote(imp.Path.Value)
		if p == "sync" && imp.Name == nil {
			imp.Path.Value = strconv.Quote(vsyncPath)
			imp.Name = ast.NewIdent("sync")
			changed = true
			notes = append(notes, "sync -> vsync")
		}
	}
	tmp := 0
	var rewriteStmtList func(list []ast.Stmt) []ast.Stmt
	rewriteExprs := func(n ast.Node) {
		ast.Inspect(n, func(x ast.Node) bool {
			switch t := x.(type) {
			case *ast.SelectStmt:
				// a select with a default clause never blocks: left as it is (its bodies are instrumented); blocking
				// selects have been replaced by rewriteStmtList before this walk
				notes = append(notes, fmt.Sprintf("select statement with default at %s: left untouched", fset.Position(t.Pos())))
			case *ast.CallExpr:
				if sel, ok := t.Fun.(*ast.SelectorExpr); ok {
					if id, ok := sel.X.(*ast.Ident); ok {
						if id.Name == "context" && sel.Sel.Name == "WithTimeout" {
							id.Name = "vsync"
							needVsync, changed = true, true
							notes = append(notes, "context.WithTimeout -> vsync.WithTimeout")
						}
						if id.Name == "time" && sel.Sel.Name == "Sleep" && strings.Contains(path, "/internal/jobs/") {
							id.Name = "vsync"
							needVsync, changed = true, true
							notes = append(notes, "time.Sleep -> vsync.Sleep")
						}
						if id.Name == "time" && sel.Sel.Name == "Now" && strings.Contains(path, "/internal/server/") {
							id.Name = "vsync"
							needVsync, changed = true, true
							if !strings.Contains(strings.Join(notes, ";"), "time.Now -> vsync.Now") {
								notes = append(notes, "time.Now -> vsync.Now")
							}
						}
						if id.Name == "time" && sel.Sel.Name == "AfterFunc" {
							id.Name = "vsync"
							needVsync, changed = true, true
							notes = append(notes, "time.AfterFunc -> vsync.AfterFunc")
						}
					}
				}
			}
			return true
		})
	}
	// replace unary receives: walk all expression holders
	var fixRecv func(e ast.Expr) ast.Expr
	fixRecv = func(e ast.Expr) ast.Expr {
		if u, ok := e.(*ast.UnaryExpr); ok && u.Op == token.ARROW {
			needVsync, changed = true, true
			notes = append(notes, fmt.Sprintf("receive at %s -> vsync.Recv", fset.Position(u.Pos())))
			return &ast.CallExpr{Fun: &ast.SelectorExpr{X: ast.NewIdent("vsync"), Sel: ast.NewIdent("Recv")}, Args: []ast.Expr{u.X}}
		}
		return e
	}
	rewriteStmtList = func(list []ast.Stmt) []ast.Stmt {
		for i, st := range list {
			switch t := st.(type) {
			case *ast.LabeledStmt:
				if sel, ok := t.Stmt.(*ast.SelectStmt); ok {
					if repl := rewriteSelect(fset, sel, &tmp); repl != nil {
						needVsync, changed = true, true
						notes = append(notes, fmt.Sprintf("blocking select at %s -> vsync.Select", fset.Position(sel.Pos())))
						t.Stmt = repl
					}
				}
			case *ast.SelectStmt:
				if repl := rewriteSelect(fset, t, &tmp); repl != nil {
					needVsync, changed = true, true
					notes = append(notes, fmt.Sprintf("blocking select at %s -> vsync.Select", fset.Position(t.Pos())))
					list[i] = repl
				}
			case *ast.GoStmt:
				needVsync, changed = true, true
				notes = append(notes, fmt.Sprintf("go statement at %s -> vsync.Go", fset.Position(t.Pos())))
				call := t.Call
				var lhs []ast.Expr
				var rhs []ast.Expr
				var fun ast.Expr = call.Fun
				if fl, ok := call.Fun.(*ast.FuncLit); ok {
					// instrument the body of the literal too
					fl.Body.List = rewriteStmtList(fl.Body.List)
					rewriteExprs(fl.Body)
				}
				if _, isLit := call.Fun.(*ast.FuncLit); !isLit {
					tmp++
					fn := ast.NewIdent(fmt.Sprintf("verifFn%d", tmp))
					lhs = append(lhs, fn)
					rhs = append(rhs, call.Fun)
					fun = fn
				}
				var args []ast.Expr
				for _, a := range call.Args {
					tmp++
					id := ast.NewIdent(fmt.Sprintf("verifArg%d", tmp))
					lhs = append(lhs, id)
					rhs = append(rhs, a)
					args = append(args, id)
				}
				inner := &ast.CallExpr{Fun: fun, Args: args, Ellipsis: call.Ellipsis}
				goCall := &ast.ExprStmt{X: &ast.CallExpr{
					Fun:  &ast.SelectorExpr{X: ast.NewIdent("vsync"), Sel: ast.NewIdent("Go")},
					Args: []ast.Expr{&ast.FuncLit{Type: &ast.FuncType{Params: &ast.FieldList{}}, Body: &ast.BlockStmt{List: []ast.Stmt{&ast.ExprStmt{X: inner}}}}},
				}}
				block := &ast.BlockStmt{}
				if len(lhs) > 0 {
					block.List = append(block.List, &ast.AssignStmt{Lhs: lhs, Tok: token.DEFINE, Rhs: rhs})
				}
				block.List = append(block.List, goCall)
				list[i] = block
			case *ast.ExprStmt:
				t.X = fixRecv(t.X)
			case *ast.AssignStmt:
				for j := range t.Rhs {
					if len(t.Lhs) == len(t.Rhs) { // v, ok := <-ch is left alone
						t.Rhs[j] = fixRecv(t.Rhs[j])
					}
				}
			}
		}
		return list
	}
	ast.Inspect(f, func(n ast.Node) bool {
		switch t := n.(type) {
		case *ast.BlockStmt:
			t.List = rewriteStmtList(t.List)
		case *ast.CaseClause:
			t.Body = rewriteStmtList(t.Body)
		case *ast.CommClause:
			t.Body = rewriteStmtList(t.Body)
		}
		return true
	})
	rewriteExprs(f)
	if !changed {
		return false, nil, notes, nil
	}
	if needVsync {
		has := false
		for _, imp := range f.Imports {
			p, _ := strconv.Unquote(imp.Path.Value)
			if p == vsyncPath && imp.Name != nil && imp.Name.Name == "vsync" {
				has = true
			}
		}
		if !has {
			spec := &ast.ImportSpec{Name: ast.NewIdent("vsync"), Path: &ast.BasicLit{Kind: token.STRING, Value: strconv.Quote(vsyncPath)}}
			added := false
			for _, d := range f.Decls {
				if gd, ok := d.(*ast.GenDecl); ok && gd.Tok == token.IMPORT {
					gd.Specs = append(gd.Specs, spec)
					if !gd.Lparen.IsValid() {
						gd.Lparen = gd.Pos()
						gd.Rparen = gd.End()
					}
					added = true
					break
				}
			}
			if !added {
				f.Decls = append([]ast.Decl{&ast.GenDecl{Tok: token.IMPORT, Specs: []ast.Spec{spec}}}, f.Decls...)
			}
		}
	}
	var buf bytes.Buffer
	buf.WriteString("// Code generated by /verif/tools/vgen from " + path + "; DO NOT EDIT.\n")
	if err := format.Node(&buf, fset, f); err != nil {
		return false, nil, notes, err
	}
	return true, buf.Bytes(), notes, nil
}

// rewriteSelect replaces a select statement WITHOUT a default clause by
//
//	{ c0 := <chan0>; ...; i, v, ok := vsync.Select(vsync.RecvCase(c0), vsync.SendCase(c1, x1), ...); switch i { case 0: <assignment from v, ok>; <body> ... } }
//
// so that waiting in it is a scheduling decision of the controlled scheduler. Returns nil for a select that has a default
// clause (it never blocks) or a shape that is not understood (left as it is).
func rewriteSelect(fset *token.FileSet, sel *ast.SelectStmt, tmp *int) ast.Stmt {
	render := func(n ast.Node) string {
		var b bytes.Buffer
		_ = printer.Fprint(&b, fset, n)
		return b.String()
	}
	*tmp++
	n := *tmp
	var pre, cases, arms []string
	for k, cl := range sel.Body.List {
		cc := cl.(*ast.CommClause)
		if cc.Comm == nil {
			return nil // default clause
		}
		ch := fmt.Sprintf("verifSelC%d_%d", n, k)
		assign := ""
		switch c := cc.Comm.(type) {
		case *ast.ExprStmt:
			u, ok := c.X.(*ast.UnaryExpr)
			if !ok || u.Op != token.ARROW {
				return nil
			}
			pre = append(pre, fmt.Sprintf("%s := %s", ch, render(u.X)))
			cases = append(cases, fmt.Sprintf("vsync.RecvCase(%s)", ch))
		case *ast.AssignStmt:
			if len(c.Rhs) != 1 {
				return nil
			}
			u, ok := c.Rhs[0].(*ast.UnaryExpr)
			if !ok || u.Op != token.ARROW {
				return nil
			}
			pre = append(pre, fmt.Sprintf("%s := %s", ch, render(u.X)))
			cases = append(cases, fmt.Sprintf("vsync.RecvCase(%s)", ch))
			var lhs []string
			for _, l := range c.Lhs {
				lhs = append(lhs, render(l))
			}
			rhs := fmt.Sprintf("vsync.SelVal(%s, verifSelV%d)", ch, n)
			if len(lhs) == 2 {
				rhs += fmt.Sprintf(", verifSelOK%d", n)
			}
			assign = strings.Join(lhs, ", ") + " " + c.Tok.String() + " " + rhs
		case *ast.SendStmt:
			x := fmt.Sprintf("verifSelX%d_%d", n, k)
			pre = append(pre, fmt.Sprintf("%s := %s", ch, render(c.Chan)), fmt.Sprintf("%s := %s", x, render(c.Value)))
			cases = append(cases, fmt.Sprintf("vsync.SendCase(%s, %s)", ch, x))
		default:
			return nil
		}
		arm := fmt.Sprintf("case %d:\n", k)
		if assign != "" {
			arm += assign + "\n"
		}
		for _, st := range cc.Body {
			arm += render(st) + "\n"
		}
		arms = append(arms, arm)
	}
	src := "package p\nfunc _() {\n{\n" + strings.Join(pre, "\n") + "\n" +
		fmt.Sprintf("verifSelI%d, verifSelV%d, verifSelOK%d := vsync.Select(%s)\n_, _ = verifSelV%d, verifSelOK%d\nswitch verifSelI%d {\n%s}\n}\n}\n",
			n, n, n, strings.Join(cases, ", "), n, n, n, strings.Join(arms, ""))
	pf, err := parser.ParseFile(token.NewFileSet(), "", src, 0)
	if err != nil {
		return nil
	}
	block := pf.Decls[0].(*ast.FuncDecl).Body.List[0]
	clearPositions(block)
	return block
}

// clearPositions sets every token.Pos inside the node to NoPos (the node was parsed from generated text; positions of
// another file set would confuse the printer's comment placement).
func clearPositions(n ast.Node) {
	posType := reflect.TypeOf(token.NoPos)
	ast.Inspect(n, func(x ast.Node) bool {
		if x == nil {
			return false
		}
		v := reflect.ValueOf(x)
		if v.Kind() == reflect.Ptr {
			v = v.Elem()
		}
		if v.Kind() == reflect.Struct {
			for i := 0; i < v.NumField(); i++ {
				f := v.Field(i)
				name := v.Type().Field(i).Name
				// positions that carry meaning stay: f(xs...) / type A = B / grouped declarations
				if name == "Ellipsis" || name == "Assign" {
					continue
				}
				if _, isDecl := x.(*ast.GenDecl); isDecl && (name == "Lparen" || name == "Rparen") {
					continue
				}
				if f.Type() == posType && f.CanSet() {
					f.SetInt(0)
				}
			}
		}
		return true
	})
}
