#!/bin/bash
# usage: SEEDROOT=/tmp/seed2 SEEDTAG=r2 tools/seed_baseline.sh <ID> <variant> <verif-commit>
# Runs the quick check of <ID> AS IT WAS at <verif-commit> (a worktree of /verif at that commit) against a seeded
# change, so that "did the check catch it when the change arrived" is measured and not remembered.
ID="$1"; V="$2"; BASE="$3"
export GOFLAGS=-mod=mod GOPROXY=off GOSUMDB=off GOTOOLCHAIN=local
ROOT="${SEEDROOT:-/tmp/seed}"; TAG="${SEEDTAG:-}"
OUT=/verif/seeded/$ID-$TAG$V; WT=$ROOT/$ID; VB=/tmp/verif-base-$BASE-$ID
[ -f "$OUT/patch.diff" ] || { echo "$ID/$V: not confirmed yet"; exit 2; }
[ -d "$VB" ] || git -C /verif worktree add --detach "$VB" "$BASE" >/dev/null 2>&1
cd "$WT" || exit 2
git checkout -q --detach "$(git -C /repo rev-parse HEAD)" 2>/dev/null; git checkout -q -- . ; git clean -fdq
git apply "$OUT/patch.diff" || { echo "$ID/$V: patch does not apply"; exit 2; }
(cd $VB && VERIF_REPO="$WT" timeout 1500 ./check $ID quick) > "$OUT/check_baseline.log" 2>&1; RC=$?
git checkout -q -- . ; git clean -fdq
CHK=$(grep "violated clauses" "$OUT/check_baseline.log" | cut -c1-300)
python3 - "$OUT" "$RC" "$CHK" "$BASE" <<'P'
import json,sys
out,rc,chk,base=sys.argv[1:]
m=json.load(open(out+"/meta.json"))
m["baseline_verif_commit"]=base; m["baseline_check_quick_exit"]=int(rc); m["caught_before_strengthening"]=rc=="1"; m["baseline_check_clauses"]=chk
json.dump(m,open(out+"/meta.json","w"),indent=1)
print(f"{m['property']}/{m['variant']}: baseline({base}) exit={rc} {chk[:140]}")
P
