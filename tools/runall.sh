#!/bin/bash
# usage: tools/runall.sh [tier] [ids...]  -- run checks sequentially with a hard timeout, summary to stdout
TIER="${1:-quick}"; shift
IDS="$@"
if [ -z "$IDS" ]; then IDS=$(python3 -c "import json;print(' '.join(c['property_id'] for c in json.load(open('/verif/MANIFEST.json'))['checks']))"); fi
for id in $IDS; do
  s=$(date +%s)
  timeout 1500 /verif/check $id $TIER > /tmp/runall.$id.log 2>&1; rc=$?
  e=$(date +%s)
  echo "$id rc=$rc $((e-s))s $(grep 'tier=' /tmp/runall.$id.log | tail -1 | cut -c1-200)"
  grep "^VIOLATION\|violated clauses" /tmp/runall.$id.log | head -3 | cut -c1-300
done
