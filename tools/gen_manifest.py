#!/usr/bin/env python3
import json,subprocess
props=[json.loads(l) for l in open('/verif/properties.jsonl')]
MC="model_checking"; FE="fault_enumeration"
claimed={
 "C01":("SEQ+SCHED",MC,"explicit-state BFS over write histories (incl. refused writes; a second search next to deleted datasets) on the real store vs reference model; the same observations over HTTP; preemption-bounded schedules of overlapping writers","2.2, 3/C01"),
 "C02":("SEQ+SCHED",MC,"explicit-state BFS over writes (batches, transactions, refused writes) interleaved with token-carrying readers vs reference feed; HTTP and javascript faces; preemption-bounded schedule of writers next to a token-following reader","2.2, 3/C02"),
 "C03":("SEQ",MC,"explicit-state BFS over reference-shaped write histories; all relationship queries vs model graph; POST /query (single and several starting entities, continuations followed) and javascript bindings","2.2, 3/C03"),
 "C04":("CRASH+SCHED",FE,"exhaustive kill-point enumeration (real SIGKILL before every durable commit and at every named point) of enumerated write histories incl. large batches, contextual-store transactions, retries after a refused batch and dataset management; preemption-bounded schedules of overlapping writers","2.4, 3/C04"),
 "C05":("SCHED",MC,"stateless preemption-bounded exploration of real goroutines under a controlled scheduler; linearizability oracle","2.3, 3/C05"),
 "C06":("SEQ",MC,"explicit-state BFS, differential oracle on recorded instants; paged current-state queries continued after later writes","2.2, 3/C06"),
 "C07":("SEQ+CRASH+SCHED+ENUM",MC,"explicit-state BFS over dataset-management histories (plain, proxy, virtual datasets) vs incarnation model + exhaustive kill-point enumeration inside create/rename/delete/GC; one preemption-bounded scenario; one enumerated long history beyond the GC batch size","2.2, 2.4, 3/C07"),
 "C13":("ENUM+SEQ+CRASH+SCHED",MC,"exhaustive URI grammar round trip; BFS over first-use orders with restarts, refused batches, contextual-store transactions and lookups; the same with one injected storage write error as a deviation; read sequences over HTTP; kill-point enumeration; preemption-bounded schedules with happens-before monitor","3/C13"),
 "C19":("SEQ+SCHED+ENUM",MC,"explicit-state BFS over catalogue histories vs reference model; preemption-bounded schedules of concurrent writers; one enumerated long history beyond 1000 datasets","3/C19"),
}
import os
extra=os.path.join('/verif/tools/claimed_extra.json')
if os.path.exists(extra):
    for k,v in json.load(open(extra)).items(): claimed[k]=tuple(v)
replay={"SEQ":"./bin/dhcheck worker replay-store {path}"}
checks=[]
for p in props:
    i=p['id']
    if i in claimed:
        eng,lvl,tech,ref=claimed[i]
        text={"model_checking":"bounded exhaustive: every operation sequence / schedule / kill point inside the stated bounds is executed on the real implementation and judged by a reference model or invariant; nothing is sampled; bounds, alphabets and counts are in the evidence file",
              "fault_enumeration":"every durable-commit boundary and every named crash point of every enumerated history is exercised with a real process kill and the recovered store is judged against the reference model; nothing is sampled"}[lvl]
        c={"property_id":i,"quick_cmd":f"./check {i} quick","thorough_cmd":f"./check {i} thorough","evidence_file":f"/verif/evidence/{i}.json",
          "engine":eng,"level_claimed":{"category":lvl,"text":text,"design_ref":ref},
          "level_note":"trusted base: badger v4.2.0 (linearizable transactions, commit atomic w.r.t. process kill), Go runtime, goja, echo; bounds and alphabets are listed in the evidence file",
          "technique":tech}
        # replay of a finding file (findings/<ID>/<hash>.json written next to every VIOLATION line) without the explorer
        rw={"C14":"replay-c14","C15":"replay-c15","C18":"replay-c18","C20":"replay-backup","C01":"replay-store","C02":"replay-store","C03":"replay-store","C06":"replay-store"}.get(i)
        if rw: c["replay_cmd_template"]="./bin/dhcheck worker "+rw+" {path}"
        checks.append(c)
na=[{"property_id":p['id'],"reason":"check not built yet in this revision (work in progress; see DESIGN.md section 3)"} for p in props if p['id'] not in claimed]
hooks=subprocess.check_output("git -C /repo log --format=%h --grep='^verif hooks' ",shell=True).decode().split()
m={"version":1,"setup_cmd":"./check --build",
 "hooks":{"guard":"verif (Go build tag)","enable":"go build -tags verif -overlay /verif/build/overlay.json (done by ./check)",
   "baseline_off_cmd":"cd /repo && GOFLAGS=-mod=mod GOPROXY=off GOSUMDB=off go test -vet=off -count=1 -timeout 25m ./...",
   "source_commits":hooks,"add_only":True},
 "engines":[
  {"name":"SEQ","path":"rt/engine/seq.go","serves_properties":[k for k,v in claimed.items() if "SEQ" in v[0]],"kind_free_text":"explicit-state breadth-first search over operation sequences on the real implementation, canonical-state dedup from a raw key scan, reference model oracle"},
  {"name":"CRASH","path":"rt/engine/crash.go","serves_properties":[k for k,v in claimed.items() if "CRASH" in v[0]],"kind_free_text":"exhaustive kill-point enumeration with real SIGKILL in a child process at every badger commit boundary and named hook point; recovery judged in a fresh process"},
  {"name":"SCHED","path":"rt/vsync/ + rt/engine/sched.go","serves_properties":[k for k,v in claimed.items() if "SCHED" in v[0]],"kind_free_text":"cooperative scheduler over the real goroutines (sync shim injected by source rewriting), iterative preemption-bounded DFS, happens-before monitor, lock-order graph"},
  {"name":"ENUM","path":"harness/*","serves_properties":[k for k,v in claimed.items() if "ENUM" in v[0]],"kind_free_text":"exhaustive enumeration of a finite input/configuration/fault box against a reference function"}],
 "checks":checks,"not_applicable":na,
 "notes":"All checks rebuild bin/dhcheck from /repo's working tree through ./check (vgen overlay + build tag verif). known_findings.json lists fixed and open findings."}
json.dump(m,open('/verif/MANIFEST.json','w'),indent=1)
print("claimed",len(checks),"na",len(na))
