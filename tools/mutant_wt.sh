#!/bin/bash
# usage: tools/mutant_wt.sh <patch> <ID> [tier]  -- like mutant.sh, but on a scratch worktree of /repo and a private copy of
# /verif, so that /repo and /verif/evidence stay untouched (safe while other runs rebuild from /repo).
P="$(readlink -f "$1")"; ID="$2"; TIER="${3:-quick}"
export GOFLAGS=-mod=mod GOPROXY=off GOSUMDB=off GOTOOLCHAIN=local
WT=/tmp/mutwt; VS=/tmp/verif-mut
[ -d $WT ] || git -C /repo worktree add --detach $WT HEAD >/dev/null 2>&1
cd $WT || exit 2
git checkout -q --detach "$(git -C /repo rev-parse HEAD)"; git checkout -q -- .; git clean -fdq
git apply "$P" || { echo "patch does not apply"; exit 2; }
mkdir -p $VS && rsync -a --delete --exclude build --exclude bin --exclude findings --exclude .git --exclude seeded /verif/ $VS/
(cd $VS && VERIF_REPO=$WT timeout 3000 ./check "$ID" "$TIER") > /tmp/mutwt.log 2>&1; RC=$?
git checkout -q -- .; git clean -fdq
echo "mutant $(basename $P) on $ID: exit=$RC $(grep -c '^VIOLATION' /tmp/mutwt.log) violations"
grep "violated clauses\|tier=" /tmp/mutwt.log | cut -c1-400
exit $RC
