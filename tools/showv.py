#!/usr/bin/env python3
import json,sys
pat = sys.argv[2] if len(sys.argv)>2 else ''
n=0
seen=set()
for line in open('/verif/findings/%s/all.jsonl'%sys.argv[1]):
    v=json.loads(line)
    if pat not in v['key']: continue
    cl=v['key'].split('|')[0]
    if cl in seen and '-a' not in sys.argv: continue
    seen.add(cl)
    print(cl, '::', v['what'][:400])
    r=v.get('replay') or {}
    if 'hist' in r: print('   hist:', ' ; '.join(json.dumps(h,separators=(',',':')) for h in r['hist']))
    else: print('   replay:', json.dumps(r)[:400])
