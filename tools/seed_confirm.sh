#!/bin/bash
# usage: tools/seed_confirm.sh <ID> <variant>
# Confirms a sub-agent's seeded change in its scratch worktree /tmp/seed/<ID>, brought to /repo's HEAD:
#  demo passes without the change, fails with it; the change builds; the pinned suite (./internal/...) passes with it.
# Then runs /verif's quick check of <ID> with the change applied to /repo (and undoes it).
# Keeps the result as /verif/seeded/<ID>-<variant>/ {patch.diff, demo files, meta.json, confirm.log}.
ID="$1"; V="$2"
export GOFLAGS=-mod=mod GOPROXY=off GOSUMDB=off GOTOOLCHAIN=local
ROOT="${SEEDROOT:-/tmp/seed}"; TAG="${SEEDTAG:-}"
SRC=$ROOT/out-$ID/$V; WT=$ROOT/$ID; OUT=/verif/seeded/$ID-$TAG$V
[ -f "$SRC/patch.diff" ] || { echo "$ID/$V: no patch"; exit 2; }
mkdir -p "$OUT"; LOG="$OUT/confirm.log"; : > "$LOG"
cd "$WT" || exit 2
git checkout -q --detach "$(git -C /repo rev-parse HEAD)" >>"$LOG" 2>&1; git checkout -q -- . ; git clean -fdq
DEMOS=$(ls "$SRC"/*_test.go 2>/dev/null)
PKG=$(grep -oE 'internal/[a-zA-Z_/]+/[A-Za-z0-9_]+_test\.go' "$SRC/demo.txt" | head -1 | xargs -r dirname)
[ -z "$PKG" ] && PKG=$(grep -oE '\./internal/[a-zA-Z_/]+' "$SRC/demo.txt" | head -1 | sed 's#^\./##;s#/$##')
RUN=$(grep -o "\-run '[^']*'" "$SRC/demo.txt" | head -1 | sed "s/-run '//;s/'$//")
[ -z "$RUN" ] && RUN=$(grep -o '\-run [A-Za-z0-9_|^$]*' "$SRC/demo.txt" | head -1 | sed 's/-run //')
# a parsed -run value that names no test function of the demonstration files is a parsing accident: use all of them
NAMES=$(grep -ohE '^func (Test[A-Za-z0-9_]+)' $DEMOS 2>/dev/null | sed 's/^func //' | sort -u | tr '\n' '|' | sed 's/|$//')
if [ -n "$NAMES" ]; then
  PLAIN=$(echo "$RUN" | sed 's/[$^]//g')
  echo "$NAMES" | tr '|' '\n' | grep -q "^${PLAIN%%|*}" || RUN="$NAMES"
fi
[ -n "$SEEDRUN" ] && RUN="$SEEDRUN"
echo "pkg=$PKG run=$RUN demos=$DEMOS" >>"$LOG"
for d in $DEMOS; do cp "$d" "$WT/$PKG/"; done
# a demonstration that uses the passive hook points is guarded by the hooks' build tag
TAGS=""; grep -qs "go:build verif" $DEMOS && TAGS="-tags verif"
go test $TAGS -vet=off -count=1 -run "$RUN" ./$PKG/ >>"$LOG" 2>&1; R_CLEAN=$?
git apply "$SRC/patch.diff" >>"$LOG" 2>&1 || { echo "$ID/$V: patch does not apply to HEAD" | tee -a "$LOG"; git checkout -q -- .; git clean -fdq; exit 2; }
go build ./... >>"$LOG" 2>&1; R_BUILD=$?
go test $TAGS -vet=off -count=1 -run "$RUN" ./$PKG/ >>"$LOG" 2>&1; R_MUT=$?
for d in $DEMOS; do rm -f "$WT/$PKG/$(basename $d)"; done
# the suite uses fixed ports (7777, 25555): run it in a private network namespace, and once more if it fails
# (two of its job tests are timing dependent on a loaded machine)
suite() { unshare -n bash -c "ip link set lo up 2>/dev/null; go test -vet=off -count=1 -timeout 25m $1"; }
suite ./internal/... >"$OUT/suite.log" 2>&1; R_SUITE=$?
cat "$OUT/suite.log" >>"$LOG"
# internal/jobs has specs that are timing dependent on a loaded machine (a cron job firing after its store was
# closed, "DB Closed"; mock server on a fixed port): a failing package is re-run on its own, up to three times
for attempt in 1 2 3; do
  [ $R_SUITE -eq 0 ] && break
  FAILED=$(grep -E '^FAIL[[:space:]]+github.com' "$OUT/suite.log" | awk '{print $2}' | sed 's#github.com/mimiro-io/datahub#.#' | sort -u | tr '\n' ' ')
  [ -z "$FAILED" ] && break
  echo "---- re-running failed packages (attempt $attempt): $FAILED" >>"$LOG"
  suite "$FAILED" >"$OUT/suite.log" 2>&1; R_SUITE=$?
  cat "$OUT/suite.log" >>"$LOG"
done
rm -f "$OUT/suite.log"
git checkout -q -- . ; git clean -fdq
cp "$SRC/patch.diff" "$OUT/"; for d in $DEMOS; do cp "$d" "$OUT/$(basename $d).txt"; done; cp "$SRC/demo.txt" "$SRC/notes.md" "$OUT/" 2>/dev/null
# my check against the change: a private copy of /verif (so that work going on in /verif is not disturbed)
# run against the scratch worktree with the change applied (equivalent to applying it to /repo)
R_CHECK=-1; CHK=""
VS=/tmp/verif-seed$TAG-$ID
mkdir -p $VS && rsync -a --delete --exclude build --exclude bin --exclude findings --exclude .git --exclude seeded /verif/ $VS/
cd "$WT" && git apply "$SRC/patch.diff" && { (cd $VS && VERIF_REPO="$WT" timeout 1500 ./check $ID quick) > "$OUT/check.log" 2>&1; R_CHECK=$?; }
cd "$WT"; git checkout -q -- . ; git clean -fdq
CHK=$(grep "violated clauses" "$OUT/check.log" | cut -c1-300)
python3 - "$ID" "$V" "$R_CLEAN" "$R_BUILD" "$R_MUT" "$R_SUITE" "$R_CHECK" "$CHK" "$PKG" "$RUN" <<'P'
import json,sys,os
i,v,rc,rb,rm,rs,rk,chk,pkg,run=sys.argv[1:]
out=f"/verif/seeded/{i}-{os.environ.get('SEEDTAG','')}{v}"
notes=open(out+"/notes.md").read() if os.path.exists(out+"/notes.md") else ""
meta={"property":i,"variant":v,"source":"independent sub-agent given only the property text and a scratch worktree",
 "demo":{"package":pkg,"run":run,"passes_without_change":rc=="0","fails_with_change":rm!="0"},
 "builds":rb=="0","pinned_suite_passes_with_change":rs=="0",
 "confirmed":rc=="0" and rm!="0" and rb=="0" and rs=="0",
 "check_quick_exit":int(rk),"caught_by_quick":rk=="1","check_clauses":chk,
 "ran":["demo on HEAD","git apply patch.diff","go build ./...","demo with change","go test -vet=off -count=1 ./internal/... with change",f"./check {i} quick (copy of /verif, VERIF_REPO=scratch worktree with the change applied)"],
 "needs":notes[:1500]}
json.dump(meta,open(out+"/meta.json","w"),indent=1)
print(f"{i}/{v}: demo_clean_pass={rc=='0'} build={rb=='0'} demo_mut_fail={rm!='0'} suite_pass={rs=='0'} check_exit={rk} {chk[:160]}")
P
