#!/usr/bin/env python3
"""Regenerates the table of independent seeded changes in DESIGN.md from seeded/*/meta.json."""
import json, glob, os, re

DESC = {
 "C01-a": ("IsEntityEqual compares refs through a helper that equates \"x\" and [\"x\"]", "two refs swap single/array shape so that the serialised lengths cancel"),
 "C01-b": ("listing continuation: token[last]++ then Seek instead of Seek+Next", "a page ending on an internal id whose low byte is 0xFF"),
 "C02-a": ("tombstone written over a tombstone is skipped without comparing bodies", "current version deleted, rewritten deleted with another body (discarded: fails the pinned suite)"),
 "C02-b": ("latest-only filter compares only the recorded time of the version key", "one batch holding the same id twice with different contents + latest-only read"),
 "C03-a": ("same-batch tombstone clean-up only when the previous version was deleted", "one batch: ref dropped then re-added for the same entity"),
 "C03-b": ("page-limit check moved into the new-related-entity branch of the inverse scan", "page border before a source with two predicates / in two datasets, limit 1"),
 "C04-a": ("StoreEntities splits batches of more than 1000 entities into separate transactions", "a batch > 1000 and a kill between the slices"),
 "C04-b": ("ExecuteTransaction commits with CommitWith (asynchronous)", "kill right after the acknowledgement of a transaction that adds no new ids"),
 "C05-a": ("deferred unlocks registered after the locking loop", "a transaction naming a missing dataset leaks the locks already taken; next writer hangs"),
 "C05-b": ("txnTime taken before the dataset write lock", "two writers of one entity: clock order and lock order invert"),
 "C06-a": ("point-in-time lookup breaks at the first newer version", "entity in two datasets, later write in the one with the lower internal id"),
 "C06-b": ("continuation pages of outgoing queries resume at the continuation key's transaction", "entity in two datasets, interleaved commits, page border inside the older region"),
 "C07-a": ("GC empties the deleted-dataset set when it finishes", "a write through a Dataset object held since before the delete, after delete + GC"),
 "C07-b": ("scoped lookups consult the deleted set only for empty scopes", "paged scoped query started before and continued after DeleteDataset"),
 "C08-a": ("union continuation keeps its active member index across runs", "run fails inside member >= 1, write to an earlier member, clean run"),
 "C08-b": ("fullsync pipeline calls endFullSync on a read/sink error", "job with incremental + fullsync trigger, fullsync fails before the last batch"),
 "C09-a": ("fullSyncSeen only allocated when nil", "start A, batch, start B (supersedes), end B: A's ids count as seen"),
 "C09-b": ("fullSyncID not cleared on lease expiry", "start X, expiry, job fullsync starts, late end(X) completes the job's sync"),
 "C10-a": ("worker chunks alias the batch slice", "parallelism > 1 and a JS transform that pushes onto its input array"),
 "C10-b": ("end-of-source test uses the post-transform length", "a transform that drops one whole non-final batch"),
 "C11-a": ("wrappedSink recursion guard == 1 instead of <= 1", "log handler + transform returning [] + sink rejecting every call: stack overflow"),
 "C11-b": ("raffle: running check moved out of the critical section", "two runs of one id with two tickets in the pool"),
 "C12-a": ("dedup strategy forgets the key of a kept version after a reference-only clean-up", "v1 with ref, v2 keeps ref, legacy duplicate of v2 is latest"),
 "C12-b": ("change-log clean-up only at the final flush", "kill between two flushes of a compaction"),
 "C13-a": ("namespace state persisted outside the namespace lock", "two new namespaces concurrently, older snapshot lands last, restart"),
 "C13-b": ("a rejected batch discards the shared id transaction", "rejected batch concurrent with a writer's uncommitted new identifiers"),
 "C14-a": ("next-dataset-id counter recomputed from live records on open", "delete the newest dataset, restart, create a dataset"),
 "C14-b": ("un-registering a client removes its ACL in memory only", "client with ACL deleted, no other ACL write, restart"),
 "C15-a": ("absolute-URI test is HasPrefix(val, \"http\")", "a declared prefix that starts with the letters http"),
 "C15-b": ("ParseTransaction reuses one entity slice for all datasets", "transaction with two dataset keys, first one non-empty"),
 "C16-a": ("trailing-* pattern strips a trailing slash", "grant /datasets/people/* and a sibling named people-private"),
 "C16-b": ("as C14-b", "register, set ACL, un-register, restart"),
 "C17-a": ("instrumentErrorHandling moved before the ticket check", "second trigger of the same job during a run resets handler counters"),
 "C17-b": ("retry budget decremented when the re-run starts", "two failing runs within one retry delay"),
 "C18-a": ("implicit-dependency walk stops at the main dataset", "join path through the main dataset in the middle, write behind it"),
 "C18-b": ("dependency token advanced before the mains are emitted", "fan-out > batch size, sink fails on the second page, re-run"),
 "C19-a": ("first-time check uses the committed pointer only", "same new id twice in one batch: counted twice"),
 "C19-b": ("rename reads the meta-entity before taking the write lock", "writer commits new ids between rename's read and lock"),
 "C20-a": ("backup cursor read from MaxVersion after the dump", "a write commits while a backup run executes"),
 "C20-b": ("storage-id check skipped once the manager holds a cursor", "location turns foreign after a first successful run"),
}

rows = []
for d in sorted(glob.glob('/verif/seeded/*/meta.json')):
    m = json.load(open(d))
    k = f"{m['property']}-{m['variant']}"
    what, needs = DESC.get(k, ("", ""))
    conf = "yes" if m.get('confirmed') else "no (suite fails)"
    first = "caught" if m.get('caught_before_strengthening', m.get('caught_by_quick')) else "MISSED"
    if k in ("C18-a", "C18-b"):
        first = "check not built yet"
    final = "caught" if m.get('final_caught_by_quick') else ("missed" if 'final_caught_by_quick' in m else "?")
    cl = re.sub(r'violated clauses: ', '', m.get('final_check_clauses', '') or '')
    cl = '; '.join(sorted(set(re.sub(r' x\d+', '', c).split('|')[0].strip() for c in cl.split(';') if c.strip()))[:2])
    rows.append(f"| {k} | {what} | {needs} | {conf} | {first} | {final}: {cl[:110]} |")

table = "| seed | change | needs | confirmed | check when it arrived | final check (clauses) |\n|---|---|---|---|---|---|\n" + "\n".join(rows)
p = '/verif/DESIGN.md'
s = open(p).read()
a, b = s.index('<!-- SEED-TABLE-BEGIN -->'), s.index('<!-- SEED-TABLE-END -->')
s = s[:a] + '<!-- SEED-TABLE-BEGIN -->\n' + table + '\n' + s[b:]
open(p, 'w').write(s)
n = len(rows)
caught_first = sum('| caught |' in r for r in rows)
print(n, "rows;", caught_first, "caught on arrival")
