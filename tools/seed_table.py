#!/usr/bin/env python3
"""Regenerates the table of independent seeded changes in DESIGN.md from seeded/*/meta.json."""
import json, glob, os, re

DESC = {
 "C01-a": ("IsEntityEqual compares refs through a helper that equates \"x\" and [\"x\"]", "two refs swap single/array shape so that the serialised lengths cancel"),
 "C01-b": ("listing continuation: token[last]++ then Seek instead of Seek+Next", "a page ending on an internal id whose low byte is 0xFF"),
 "C02-a": ("tombstone written over a tombstone is skipped without comparing bodies", "current version deleted, rewritten deleted with another body (discarded: fails the pinned suite)"),
 "C02-b": ("latest-only filter compares only the recorded time of the version key", "one batch holding the same id twice with different contents + latest-only read"),
 "C03-a": ("same-batch tombstone clean-up only when the previous version was deleted", "one batch: ref dropped then re-added for the same entity"),
 "C03-b": ("page-limit check moved into the new-related-entity branch of the inverse scan", "page border before a source with two predicates / in two datasets, limit 1"),
 "C04-a": ("StoreEntities splits batches of more than 1000 entities into separate transactions", "a batch > 1000 and a kill between the slices"),
 "C04-b": ("ExecuteTransaction commits with CommitWith (asynchronous)", "kill right after the acknowledgement of a transaction that adds no new ids"),
 "C05-a": ("deferred unlocks registered after the locking loop", "a transaction naming a missing dataset leaks the locks already taken; next writer hangs"),
 "C05-b": ("txnTime taken before the dataset write lock", "two writers of one entity: clock order and lock order invert"),
 "C06-a": ("point-in-time lookup breaks at the first newer version", "entity in two datasets, later write in the one with the lower internal id"),
 "C06-b": ("continuation pages of outgoing queries resume at the continuation key's transaction", "entity in two datasets, interleaved commits, page border inside the older region"),
 "C07-a": ("GC empties the deleted-dataset set when it finishes", "a write through a Dataset object held since before the delete, after delete + GC"),
 "C07-b": ("scoped lookups consult the deleted set only for empty scopes", "paged scoped query started before and continued after DeleteDataset"),
 "C08-a": ("union continuation keeps its active member index across runs", "run fails inside member >= 1, write to an earlier member, clean run"),
 "C08-b": ("fullsync pipeline calls endFullSync on a read/sink error", "job with incremental + fullsync trigger, fullsync fails before the last batch"),
 "C09-a": ("fullSyncSeen only allocated when nil", "start A, batch, start B (supersedes), end B: A's ids count as seen"),
 "C09-b": ("fullSyncID not cleared on lease expiry", "start X, expiry, job fullsync starts, late end(X) completes the job's sync"),
 "C10-a": ("worker chunks alias the batch slice", "parallelism > 1 and a JS transform that pushes onto its input array"),
 "C10-b": ("end-of-source test uses the post-transform length", "a transform that drops one whole non-final batch"),
 "C11-a": ("wrappedSink recursion guard == 1 instead of <= 1", "log handler + transform returning [] + sink rejecting every call: stack overflow"),
 "C11-b": ("raffle: running check moved out of the critical section", "two runs of one id with two tickets in the pool"),
 "C12-a": ("dedup strategy forgets the key of a kept version after a reference-only clean-up", "v1 with ref, v2 keeps ref, legacy duplicate of v2 is latest"),
 "C12-b": ("change-log clean-up only at the final flush", "kill between two flushes of a compaction"),
 "C13-a": ("namespace state persisted outside the namespace lock", "two new namespaces concurrently, older snapshot lands last, restart"),
 "C13-b": ("a rejected batch discards the shared id transaction", "rejected batch concurrent with a writer's uncommitted new identifiers"),
 "C14-a": ("next-dataset-id counter recomputed from live records on open", "delete the newest dataset, restart, create a dataset"),
 "C14-b": ("un-registering a client removes its ACL in memory only", "client with ACL deleted, no other ACL write, restart"),
 "C15-a": ("absolute-URI test is HasPrefix(val, \"http\")", "a declared prefix that starts with the letters http"),
 "C15-b": ("ParseTransaction reuses one entity slice for all datasets", "transaction with two dataset keys, first one non-empty"),
 "C16-a": ("trailing-* pattern strips a trailing slash", "grant /datasets/people/* and a sibling named people-private"),
 "C16-b": ("as C14-b", "register, set ACL, un-register, restart"),
 "C17-a": ("instrumentErrorHandling moved before the ticket check", "second trigger of the same job during a run resets handler counters"),
 "C17-b": ("retry budget decremented when the re-run starts", "two failing runs within one retry delay"),
 "C18-a": ("implicit-dependency walk stops at the main dataset", "join path through the main dataset in the middle, write behind it"),
 "C18-b": ("dependency token advanced before the mains are emitted", "fan-out > batch size, sink fails on the second page, re-run"),
 "C19-a": ("first-time check uses the committed pointer only", "same new id twice in one batch: counted twice"),
 "C19-b": ("rename reads the meta-entity before taking the write lock", "writer commits new ids between rename's read and lock"),
 "C20-a": ("backup cursor read from MaxVersion after the dump", "a write commits while a backup run executes"),
 "C20-b": ("storage-id check skipped once the manager holds a cursor", "location turns foreign after a first successful run"),
}

DESC.update({
 "C01-r2a": ("POST handler takes parsers from a sync.Pool; Reset keeps the literal-key cache", "two POSTs whose contexts bind the same prefix to different namespaces (caught by C15, which posts; C01's own check writes through the store API)"),
 "C01-r2b": ("batch txnTime taken before the dataset write lock", "a batch queued behind a transaction on the same entity: lock order and time order differ"),
 "C02-r2a": ("StoreEntities releases the write lock before the commit", "two overlapping writers and a token-carrying reader in between"),
 "C02-r2b": ("reverse listing over HTTP advances the iterator once more after the limit", "paged GET changes?reverse=true"),
 "C03-r2a": ("old-reference removal drops only the first occurrence of a target", "previous version lists one target twice under a predicate, next one fewer times"),
 "C03-r2b": ("continuation key no longer remembered as emitted (if/else-if merge)", "entity in two datasets carrying the same pair, page ends on the newer key"),
 "C04-r2a": ("a rejected batch discards the shared id transaction (as C13-b)", "rejected batch inside another writer's window"),
 "C04-r2b": ("ExecuteTransaction stamps the transaction with its arrival time", "transaction waits for a lock while a batch on the same entity is acknowledged"),
 "C05-r2a": ("core.Dataset write that changes publicNamespaces takes the dataset's write lock", "lock order core.Dataset -> X against a writer of new ids (X -> core.Dataset)"),
 "C05-r2b": ("batches beyond 65 536 entities stored in slices", "one batch of > 65 536 entities and a reader / a kill between slices (caught by C04's kill enumeration in quick, by C05 S16 in thorough)"),
 "C06-r2a": ("transaction time taken before waiting for the write locks", "an instant taken while the transaction waits - the unchanged tree has the same window between stamp and commit; outside C06's quantifier (section 9)"),
 "C06-r2b": ("incoming scan seeks past newer versions, then skips the next referrer's first key", "two referrers of one target, one rewritten after t, inverse query as of t"),
 "C07-r2a": ("the atomic delete persists the pre-swap deleted set", "kill between removing the dataset record and storing the deleted set"),
 "C07-r2b": ("CreateDataset checks existence before taking the lock only", "two creates of one name with a by-name write in between, then delete"),
 "C08-r2a": ("latest-only change page stops after scanning 4*limit entries", "a run of >= 4*batchSize superseded entries in the source"),
 "C08-r2b": ("token persisted when a run is killed", "incremental run killed at a batch boundary, then a clean run"),
 "C09-r2a": ("HTTP handler matches the sync id only when the request carries one", "running sync X + a request with the end header and no id"),
 "C09-r2b": ("seen-ids recorded after the commit in StoreEntities only", "a write through POST /transactions during a sync"),
 "C10-r2a": ("worker results collected from a channel in completion order", "parallelism > 1, a later chunk finishing first"),
 "C10-r2b": ("toJsonValue shortcut does not look into nested arrays", "JS transform writing an array of arrays of whole numbers, second run"),
})

DESC.update({
 "C11-r2a": ("parseTransform returns a typed-nil transform for a JavascriptTransform block without Code", "a job whose transform block has a Type but no Code: accepted, the run dereferences nil"),
 "C11-r2b": ("instrumentErrorHandling moved before the ticket check (as C17-a)", "a refused second request for a running job with a log handler, arriving after a rejected batch and before an accepted one"),
 "C12-r2a": ("compaction takes the dataset write lock only around the pointer rewrite at the end of a flush", "a writer commits between the flush transaction's snapshot and its lock"),
 "C12-r2b": ("forEntity iterates with the entity prefix instead of the (dataset, entity) prefix", "the compacted entity also lives in a dataset with a higher internal id"),
 "C13-r2a": ("getURLParts trims a trailing slash before splitting", "a URI with an empty local part (ends in /)"),
 "C13-r2b": ("persist-error branch of AssertPrefixMappingForExpansion deletes only the prefix entry", "a storage write error while a new namespace is persisted, then another new namespace (the branch was rewritten by fix 124b092; the equivalent change on the fixed tree is mutants/C13/half-rollback.diff)"),
 "C14-r2a": ("rename stores a bare dataset record (name + ids) for the new name", "rename of a proxy / virtual / public-namespace dataset, then restart"),
 "C14-r2b": ("security state files written without O_TRUNC", "an ACL / client file that shrinks, then restart"),
 "C15-r2a": ("an empty reference array is serialised as null", "entity with \"refs\":{\"r\":[]} posted and read back"),
 "C15-r2b": ("POST handler takes parsers from a sync.Pool that keeps key mappings (as C01-r2a)", "two POSTs whose contexts bind one prefix differently"),
 "C16-r2a": ("a matching deny entry clears its own Deny flag after the first evaluation", "two requests under one ACL with a deny entry"),
 "C16-r2b": ("the ACL middleware evaluates the escaped path (EscapedPath) instead of the decoded one", "a percent-encoded letter in a dataset segment: /datasets/%61/entities"),
 "C17-r2a": ("bisection guard counts splits per run (limit 32) instead of depth", "a run with more than 32 bisections (many batches with one rejected entity each)"),
 "C17-r2b": ("the kill sentinel error is returned by the incremental pipeline only", "a fullsync run of a job with a reRun handler is killed"),
 "C18-r2a": ("the previous-run lookup (GetChanges(since,1,...)) honours the source's LatestOnly", "LatestOnly job, first outgoing hop rewired, the change at token-1 superseded"),
 "C18-r2b": ("watermarks re-captured on every page while fewer watermarks than dependencies", "two dependency paths from one dataset + a dependency write between two pages of the first fullsync"),
 "C19-r2a": ("DeleteDataset unregisters the dataset from the in-memory maps last", "dataset with public namespaces, delete (tombstone write re-creates the record), restart"),
 "C19-r2b": ("ExecuteTransaction releases the dataset locks before the items-counter updates", "a transaction and a batch on the same dataset, both adding new ids"),
 "C20-r2a": ("Store.Delete removes the badger files but keeps DATAHUB_BACKUPID", "write, backup, DELETE /datasets, restart, write, backup, restore"),
 "C20-r2b": ("badger opened with CompactL0OnClose", "backup, restart, delete dataset, restart, backup: the appended dump lacks the tombstones"),
})

DESC.update({
 "C01-r3a": ("point-in-time lookup seeks past a deleted dataset and then skips the record it landed on", "same id in A and B, A created earlier and deleted (not collected), exactly one version in B"),
 "C01-r3b": ("a refused batch discards the store-wide pending id transaction", "refused batch on one dataset overlapping a writer of new ids on another"),
 "C02-r3a": ("read-side 'already at the end' shortcut that ExecuteTransaction never refreshes", "batch, then a transaction on the same dataset, then a reader resuming with its end token"),
 "C02-r3b": ("in-batch 'version written last' map kept on the dataset across batches", "a batch/transaction that fails after some entities were processed, then the same entities re-sent"),
 "C03-r3a": ("continuation page seeks straight to the continuation key (superseded keys no longer marked)", "outgoing query with a limit on an entity with two versions, page border inside the newest version's relations"),
 "C03-r3b": ("POST /query decodes all continuation tokens into one shared struct", "continuation request with more than one token (several starting entities, small limit)"),
 "C04-r3a": ("Store.moveValue split into delete + store (two commits)", "kill between the two commits of a dataset rename"),
 "C04-r3b": ("id transaction committed only when the batch itself assigned identifiers", "refused batch, acknowledged retry of its entities, kill"),
 "C05-r3a": ("as C01-r3b", "refused batch next to a writer of new ids"),
 "C05-r3b": ("CreateDataset fast path without re-check under the lock", "two concurrent creates of one name, write through the loser's object"),
 "C06-r3a": ("point-in-time lookup skips the version committed exactly at the instant (>=)", "lookup pinned exactly to a commit stamp"),
 "C06-r3b": ("current-state relation query passes At=0 ('now') into its continuations", "paged current-state query, a write between page fetches"),
 "C07-r3a": ("deleting a proxy/virtual dataset does not add its id to the deleted set", "proxy dataset written locally (transaction / job sink), then deleted"),
 "C07-r3b": ("GC batching loop drops the key that arrives when a batch is full", "deleted dataset with more than 10000 keys in one scan"),
 "C08-r3a": ("StoreEntities releases the write lock before the commit", "two concurrent source writers and a run reading between their commits"),
 "C08-r3b": ("parallel transform results collected in completion order (as C10-r2a)", "Parallelism >= 2, two versions of an entity in different chunks (C10's subject; caught by C10)"),
 "C09-r3a": ("CompleteFullSync pages by 1000 and counts only live entities for the last-page test", "more than 1000 entities, a tombstone on an early page, unseen entities later"),
 "C09-r3b": ("a failed fullsync job run calls sink.endFullSync on the error path", "fullsync job whose source fails midway"),
 "C10-r3a": ("transform workers' result slots kept across batches of a run", "Parallelism > 1, a shorter last batch, a newer version of a stale entity in it"),
 "C10-r3b": ("HttpTransform client retries on 5xx", "an HTTP transform endpoint that fails once after reading a batch"),
 "C11-r3a": ("borrowTicket logs the ticket holders through getRunningJobs while holding the same mutex", "fullsync pool exhausted by another job id"),
 "C11-r3b": ("HttpDatasetSource request context no longer derives from the run's context", "kill while the remote has started answering and stalls"),
 "C12-r3a": ("compaction worker caches the *Dataset per name", "same worker, dataset deleted and re-created, writer inside the flush window"),
 "C12-r3b": ("compaction skips an entity it cannot evaluate instead of aborting", "a duplicate version whose reference ids were never asserted (only reachable by raw key injection; outside the write paths my checks drive)"),
 "C13-r3a": ("assertIDForURI: unlocked pre-check, pending id transaction consulted only if one exists", "two writers of one new identifier, the first commits before the second takes the lock"),
 "C13-r3b": ("shared read-only snapshot of the prefix map + JSON-LD handler writing its aliases into it", "a JSON-LD read followed by any other context read"),
 "C14-r3a": ("a namespace prefix assigned by a read (lookup by full URI) is kept in memory only", "lookup as first mention of a namespace, write using it, restart"),
 "C14-r3b": ("ServiceCore.Init returns before loadAcls when clients.json is missing", "ACL set, no client ever registered, restart"),
 "C15-r3a": ("nesting-depth guard that leaks one level per composite array element", "an array with 128 or more nested entities or sub-arrays"),
 "C15-r3b": ("declared expansions get a trailing '/' appended", "a context whose expansion does not end in / or # (URN, common stem)"),
 "C16-r3a": ("needed action taken from the route's declared scope", "DELETE /provider/login/:name and POST /query are registered with the read scope"),
 "C16-r3b": ("validated tokens cached by raw string", "the same token presented while valid and again after expiry"),
 "C17-r3a": ("bisection hands a presumed-bad last entity to the handlers without sending it to the sink alone", "a refused 2-entity call whose second entity is acceptable alone (transient / size-limited sink)"),
 "C17-r3b": ("failedInRun guard removed (recursionDepth alone)", "a refused one-entity page followed by an accepted page"),
 "C18-r3a": ("one query time for all dependencies of a read", "two dependencies, a write re-pointing the later one's link while the earlier one is being processed"),
 "C18-r3b": ("dependency dedup key ignores the join direction", "the same predicate tracked in both directions between two datasets"),
 "C19-r3a": ("public-namespace write-back returns at the first meta-entity without any", "one batch into core.Dataset with two meta-entities, the second sets namespaces"),
 "C19-r3b": ("dataset record serialised before the create-config is applied", "proxy/virtual dataset without public namespaces, restart"),
 "C20-r3a": ("incremental dump from a hand-built badger stream without SinceTs", "write, backup, overwrite an existing key, backup in the same process, restore"),
 "C20-r3b": ("cursor set to last dumped version + 1", "the first commit after a run is a single-transaction operation (delete dataset, new namespace)"),
})

DESC.update({
 "C01-r4a": ("the batch-local predecessor is not updated when a version equals the committed one", "committed X, then one batch carrying the id as [Y, X, Y]"),
 "C01-r4b": ("scoped lookup seeks to the first NAMED dataset of the scope", "same id in two datasets, lookup scoped to both with the later-created one named first"),
 "C02-r4a": ("toJsonValue shortcut for arrays whose elements look like JSON already", "array of arrays of Go ints (transform / job sink / store API) written twice"),
 "C02-r4b": ("JSON-LD rendering of GET changes ignores latestOnly", "Accept: application/ld+json with latestOnly=true on an entity with several versions"),
 "C03-r4a": ("compaction walks an entity's versions across all datasets", "same entity with the same reference in two datasets, then a compaction (C12's subject; caught by C12)"),
 "C03-r4b": ("a given dataset scope is no longer checked against deleted datasets", "scoped paged query, a dataset of the scope deleted between pages (caught by C07's continued-query operation)"),
 "C04-r4a": ("commitIDTxn returns early when the store's own id-transaction pointer is nil, before delegating to the parent", "transaction from a contextual store with a new identifier, kill"),
 "C04-r4b": ("assertIDForURI looks URIs up in a fresh read transaction instead of the rolling id transaction", "one new identifier in two datasets of a transaction / two overlapping writers"),
 "C05-r4a": ("latest-only feed page reads outside its own snapshot", "a batch commits while a latest-only page is produced"),
 "C05-r4b": ("rolling id transaction committed after idmux is released", "two writers on different datasets with the same new identifier"),
 "C06-r4a": ("as C03-r3b (decodeCont shares one struct)", "continuation request with several tokens (HTTP only; caught by C03's HTTP face)"),
 "C06-r4b": ("incoming-index tombstone stamped with the previous version's time", "R references X, instant t, R updated without the reference, inverse query of X as of t"),
 "C07-r4a": ("rename target check after the dataset object was renamed in memory", "refused rename onto an existing name, delete of the source, restart"),
 "C07-r4b": ("Store.Open recomputes the dataset-id counter from the stored datasets", "delete the newest dataset, restart, create a dataset"),
 "C08-r4a": ("fullsync LatestOnly source drops deleted entities from a page", "a page made up only of deleted latest versions, followed by further changes"),
 "C08-r4b": ("datasetSink.startFullSync skips the start when the dataset is still in its own fullsync", "failed fullsync run, source loses an entity without a tombstone, next run of the same job object"),
 "C09-r4a": ("refreshFullSyncLease cancels the lease before comparing the sync id", "running sync, refused foreign request, silence beyond the lease, late end"),
 "C09-r4b": ("StartFullSyncWithLease no longer bumps the sync generation", "fullsync job running, HTTP start on the same dataset, job end"),
 "C10-r4a": ("HTTP transform response decoded with UseNumber", "HttpTransform without context, numeric property, second pass of a fullsync job"),
 "C10-r4b": ("SupportContext converter drops the deleted flag", "HttpTransform with SupportContext and a deletion in the source"),
 "C11-r4a": ("Scheduler.Start schedules stored jobs without AddJob (no verify)", "job with a log handler, hub restart, trigger fires twice (needs the scheduler's own start-up path, which the harness replaces)"),
 "C11-r4b": ("AsEntity checks its argument up front instead of recovering", "AsEntity on {id, props, refs: null} in a javascript transform"),
 "C12-r4a": ("CompactAsync sets currentDataset before the running check", "second compaction request for another dataset while one runs, writer inside the flush window"),
 "C12-r4b": ("pending list flushed before the current instruction is appended", "kill between two flushes of a compaction"),
 "C13-r4a": ("ExecuteTransaction commits the id transaction only when an entity id was new", "transaction with known entities and a never-seen reference target, restart"),
 "C13-r4b": ("'ns<N>:local' returned unchanged when the hub can expand it, before the batch context is consulted", "a posted document binding ns3 to another namespace (hub-to-hub sync)"),
 "C14-r4a": ("event bus registers existing datasets under dataset.dataset.<name> at start-up", "on-change job on a dataset that existed before a restart (needs the real event bus)"),
 "C14-r4b": ("Scheduler.Start re-stores definitions without verify (retryDelay divided unscaled)", "job with a reRun handler, one restart, compare definitions"),
 "C15-r4a": ("parser decodes numbers with UseNumber and drops the range error", "a literal beyond float64 range (1e999)"),
 "C15-r4b": ("HTTP dataset sink caches the context of its first batch", "same job object sends again after the hub learned a namespace"),
 "C16-r4a": ("dataset list skips the ACL filter for clients with a broad allow", "allow /datasets/* plus a narrower deny, GET /datasets"),
 "C16-r4b": ("signing algorithm checked by type (any RSA) instead of by name", "token signed RS384/RS512 with the right key"),
 "C17-r4a": ("one pipeline shared by all triggers of a job type", "two triggers of the same job type with different log handlers"),
 "C17-r4b": ("wrappedSink records the error of every refused call", "size-limited or transiently failing sink: nothing rejected in the end"),
 "C18-r4a": ("join-query input allocated once per join level and aliased by the previous-run lookup", "two changed dependency entities in one page, the later one re-pointed since the previous run"),
 "C18-r4b": ("join predicate ids (and the 'not yet' error) cached on the source object", "incremental run before the join predicate was ever used in the hub"),
 "C19-r4a": ("as C05-r3a (refused batch discards the shared id transaction)", "refused batch next to a writer, same ids stored again"),
 "C19-r4b": ("rename/delete read the meta-entity without the core.Dataset scope", "a copy of the meta-entity in another dataset, then rename"),
 "C20-r4a": ("LoadLastID reads the file StoreLastID writes + first run of a process truncates the backup file", "write, backup, restart, write, backup, restore"),
 "C20-r4b": ("a native-mode hub takes over a foreign location that has no .kv file", "location owned by an rsync-mode hub"),
})
DESC.update({
 "C03-r5a": ("ExecuteTransaction takes its write time before it holds the dataset write locks", "a transaction queued behind a batch on the same entity (caught by C01/C05's S15)"),
 "C03-r5b": ("query start points resolved through a per-store id cache filled before the existence check", "a start identifier queried before it exists, written, queried again"),
 "C05-r5a": ("core.Dataset item counter updated after the writer's lock is released", "two writers of new entities into one dataset (the counter is C19's subject)"),
 "C05-r5b": ("CompleteFullSync waits for the write lock inside the fullsync mutex", "a fullsync completion while a batch is in flight on the dataset (C09's scenarios)"),
 "C06-r5a": ("outgoing relation query returns nothing when the start entity is deleted NOW", "query pinned to t, start entity deleted after t"),
 "C06-r5b": ("continuation tokens of POST /query decoded through a generic map: the pinned instant becomes a float64", "a continuation pinned within 128 ns of a commit"),
 "C08-r5a": ("dataset sink keeps the dataset handle of its first batch", "sink dataset deleted and re-created between two runs of one job object"),
 "C08-r5b": ("fullsync token fast-forwarded to the source's change watermark", "a source write between the last page and the watermark read"),
 "C11-r5a": ("parallel transform returns on the first failed chunk", "a failing chunk while another is executing, then a second run request"),
 "C11-r5b": ("borrowTicket if/else flattened: a fullsync job falls through to an incremental ticket", "fullsync pool exhausted, incremental ticket free"),
 "C12-r5a": ("change-log clean-up matches removed versions by (entity, txn time) only", "same entity twice in one batch, the first a duplicate of the stored latest"),
 "C12-r5b": ("flush rewrites a latest pointer whenever it does not name the kept version", "a batch on the entity between compaction's snapshot and the flush"),
 "C13-r5a": ("context-aware transform shim splits identifiers at the last # OR /", "HttpTransform with SupportContext and an identifier with a / after the #"),
 "C13-r5b": ("HttpDatasetSource keeps one stream parser (and its property-name cache) for all requests", "a source that binds one prefix to another namespace in a later response"),
 "C14-r5a": ("DeleteDataset forgets the dataset in memory only after the meta-entity write", "dataset with public namespaces deleted, restart"),
 "C14-r5b": ("public namespaces set through core.Dataset are persisted one update behind", "meta-entity write with new public namespaces, restart"),
 "C17-r5a": ("sink-error override applied however the run ended", "log + reRun handlers, one entity rejected, then a kill"),
 "C17-r5b": ("stored job definition drops maxItems of the log handler", "maxItems > 0, restart, more rejections than maxItems"),
 "C18-r5a": ("one 'followed' set across all join levels of a dependency", "three joins, one entity reached on two intermediate levels"),
 "C18-r5b": ("track_queries Hop/IHop return an already registered first hop", "two javascript-declared chains sharing their first hop (track_queries is outside the check's stated assumptions)"),
})


rows = []
for d in sorted(glob.glob('/verif/seeded/*/meta.json')):
    m = json.load(open(d))
    k = os.path.basename(os.path.dirname(d))
    what, needs = DESC.get(k, ("", ""))
    conf = "yes" if m.get('confirmed') else "no (suite fails)"
    first = "caught" if m.get('caught_before_strengthening', m.get('caught_by_quick')) else "MISSED"
    if ('r2' in k or 'r3' in k or 'r4' in k or 'r5' in k):
        if 'baseline_verif_commit' not in m:
            first = "?"
        else:
            first = ("caught" if m.get('baseline_check_quick_exit') == 1 else "MISSED") + " (" + m['baseline_verif_commit'] + ")"
    if k in ("C18-a", "C18-b"):
        first = "check not built yet"
    final = "caught" if m.get('final_caught_by_quick') else ("missed" if 'final_caught_by_quick' in m else "?")
    cl = re.sub(r'violated clauses: ', '', m.get('final_check_clauses', '') or '')
    cl = '; '.join(sorted(set(re.sub(r' x\d+', '', c).split('|')[0].strip() for c in cl.split(';') if c.strip()))[:2])
    rows.append(f"| {k} | {what} | {needs} | {conf} | {first} | {final}: {cl[:110]} |")

table = "| seed | change | needs | confirmed | check when it arrived | final check (clauses) |\n|---|---|---|---|---|---|\n" + "\n".join(rows)
p = '/verif/DESIGN.md'
s = open(p).read()
a, b = s.index('<!-- SEED-TABLE-BEGIN -->'), s.index('<!-- SEED-TABLE-END -->')
s = s[:a] + '<!-- SEED-TABLE-BEGIN -->\n' + table + '\n' + s[b:]
open(p, 'w').write(s)
# per-round summary (between the SEED-SUMMARY markers)
from collections import defaultdict
R = defaultdict(lambda: dict(n=0, conf=0, arr=0, fin=0, other=[]))
OTHER = {"C03-r4a": "C12", "C03-r4b": "C07", "C03-r5a": "C05 and C01 (`S15`)", "C05-r5a": "C19", "C08-r3b": "C10", "C05-r2b": "C04 (quick) / C05 `S16` (thorough)",
         "C01-r2a": "C15", "C15-r2b": "C15"}
for d in sorted(glob.glob('/verif/seeded/*/meta.json')):
    m = json.load(open(d))
    k = os.path.basename(os.path.dirname(d))
    mm = re.search(r'-(r\d)?[ab]$', k)
    rd = mm.group(1) or 'r1'
    x = R[rd]
    x['n'] += 1
    if not m.get('confirmed'):
        continue
    x['conf'] += 1
    if rd == 'r1':
        arr = m.get('caught_before_strengthening', m.get('caught_by_quick')) and k not in ("C18-a", "C18-b")
    else:
        arr = m.get('baseline_check_quick_exit') == 1
    if arr:
        x['arr'] += 1
    if m.get('final_caught_by_quick'):
        x['fin'] += 1
    else:
        x['other'].append(k + (" (caught by " + OTHER[k] + ")" if k in OTHER else ""))
lines = []
for rd in sorted(R):
    x = R[rd]
    lines.append(f"* round {rd[1:]}: {x['n']} changes delivered, {x['conf']} confirmed; caught by the property's own quick check when they arrived: "
                 f"**{x['arr']}**; at the end: **{x['fin']}**" + (("; not by the own check: " + ", ".join(x['other'])) if x['other'] else ""))
summary = "\n".join(lines)
if '<!-- SEED-SUMMARY-BEGIN -->' in s:
    a2, b2 = s.index('<!-- SEED-SUMMARY-BEGIN -->'), s.index('<!-- SEED-SUMMARY-END -->')
    s = s[:a2] + '<!-- SEED-SUMMARY-BEGIN -->\n' + summary + '\n' + s[b2:]
    open(p, 'w').write(s)
print(summary)
n = len(rows)
caught_first = sum('| caught |' in r for r in rows)
print(n, "rows;", caught_first, "caught on arrival")
