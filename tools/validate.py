#!/opt/veriftools/pyvenv/bin/python
import json,jsonschema,glob,sys
jsonschema.validate(json.load(open('/verif/MANIFEST.json')),json.load(open('/root/.vp/MANIFEST.schema.json')))
m=json.load(open('/verif/MANIFEST.json'))
ids=[c['property_id'] for c in m['checks']]
na=[c['property_id'] for c in m.get('not_applicable',[])]
props=[json.loads(l)['id'] for l in open('/verif/properties.jsonl')]
assert sorted(ids+na)==sorted(props),(ids,na)
for i in ids:
    try:
        jsonschema.validate(json.load(open('/verif/evidence/%s.json'%i)),json.load(open('/root/.vp/EVIDENCE.schema.json')))
    except Exception as e:
        print('EVIDENCE',i,'invalid:',str(e)[:300])
print('manifest ok; claimed',ids)
