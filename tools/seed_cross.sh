#!/bin/bash
# usage: tools/seed_cross.sh <seed-ID> <variant> <check-ID>  -- run the quick check of ANOTHER property against a seeded change
# (scratch worktree of the seed's property, private copy of /verif); prints the result, records nothing.
ID="$1"; V="$2"; CK="$3"
export GOFLAGS=-mod=mod GOPROXY=off GOSUMDB=off GOTOOLCHAIN=local
ROOT="${SEEDROOT:-/tmp/seed}"; TAG="${SEEDTAG:-}"
OUT=/verif/seeded/$ID-$TAG$V; WT=$ROOT/$ID
cd "$WT" || exit 2
git checkout -q --detach "$(git -C /repo rev-parse HEAD)" 2>/dev/null; git checkout -q -- . ; git clean -fdq
VS=/tmp/verif-seed$TAG-$ID
mkdir -p $VS && rsync -a --delete --exclude build --exclude bin --exclude findings --exclude .git --exclude seeded /verif/ $VS/
git apply "$OUT/patch.diff" || { echo "$ID/$V: patch does not apply"; exit 2; }
(cd $VS && VERIF_REPO="$WT" timeout 1500 ./check $CK quick) > /tmp/cross-$ID-$TAG$V-$CK.log 2>&1; RC=$?
git checkout -q -- . ; git clean -fdq
echo "$ID-$TAG$V under $CK quick: exit=$RC $(grep 'violated clauses' /tmp/cross-$ID-$TAG$V-$CK.log | cut -c1-250)"
