#!/bin/bash
# usage: tools/seed_recheck.sh <ID> <variant>  -- re-run the current quick check of <ID> against a confirmed seeded change
# (private copy of /verif, scratch worktree with the change applied) and record the result in meta.json as final_*.
ID="$1"; V="$2"
export GOFLAGS=-mod=mod GOPROXY=off GOSUMDB=off GOTOOLCHAIN=local
ROOT="${SEEDROOT:-/tmp/seed}"; TAG="${SEEDTAG:-}"
OUT=/verif/seeded/$ID-$TAG$V; WT=$ROOT/$ID
[ -f "$OUT/patch.diff" ] || { echo "$ID/$V: not confirmed yet"; exit 2; }
cd "$WT" || exit 2
git checkout -q --detach "$(git -C /repo rev-parse HEAD)" 2>/dev/null; git checkout -q -- . ; git clean -fdq
VS=/tmp/verif-seed$TAG-$ID
mkdir -p $VS && rsync -a --delete --exclude build --exclude bin --exclude findings --exclude .git --exclude seeded /verif/ $VS/
git apply "$OUT/patch.diff" || { echo "$ID/$V: patch does not apply"; exit 2; }
(cd $VS && VERIF_REPO="$WT" timeout 1500 ./check $ID quick) > "$OUT/check_final.log" 2>&1; RC=$?
git checkout -q -- . ; git clean -fdq
CHK=$(grep "violated clauses" "$OUT/check_final.log" | cut -c1-300)
python3 - "$OUT" "$RC" "$CHK" "$(git -C /verif rev-parse --short HEAD)" <<'P'
import json,sys
out,rc,chk,head=sys.argv[1:]
m=json.load(open(out+"/meta.json"))
m["final_check_quick_exit"]=int(rc); m["final_caught_by_quick"]=rc=="1"; m["final_check_clauses"]=chk; m["final_checked_at_verif_commit"]=head
m["caught_before_strengthening"]=m.get("caught_by_quick",False)
json.dump(m,open(out+"/meta.json","w"),indent=1)
print(f"{m['property']}/{m['variant']}: confirmed={m['confirmed']} initially_caught={m['caught_before_strengthening']} final_exit={rc} {chk[:120]}")
P
