#!/bin/bash
# usage: tools/mutant.sh <patch> <ID> [tier]   -- apply a deliberate property-breaking patch to /repo, run the check, undo.
P="$1"; ID="$2"; TIER="${3:-quick}"
cd /repo || exit 2
if [ -n "$(git status --porcelain)" ]; then echo "repo not clean"; exit 2; fi
git apply "$P" || { echo "patch does not apply"; exit 2; }
# the evidence file must describe the unchanged tree: keep it aside while the check runs on the changed one
cp /verif/evidence/$ID.json /tmp/mutant.$$.evidence 2>/dev/null
/verif/check "$ID" "$TIER" > /tmp/mutant.$$.log 2>&1; RC=$?
git checkout -- . ; git clean -fdq
[ -f /tmp/mutant.$$.evidence ] && mv /tmp/mutant.$$.evidence /verif/evidence/$ID.json
rm -rf /verif/findings/$ID
echo "mutant $(basename $P) on $ID: exit=$RC $(grep -c '^VIOLATION' /tmp/mutant.$$.log) violations"
grep "violated clauses\|tier=" /tmp/mutant.$$.log | cut -c1-400
[ -n "$VERBOSE" ] && cat /tmp/mutant.$$.log
rm -f /tmp/mutant.$$.log
exit $RC
